"""Binding of the explorer specs/prims/LineFlat.tla to line_to_triangle / line_segment_to_triangle / line_to_rectangle /
line_segment_to_rectangle: TLC model-checks the transcription for every lattice line against a catalogue of triangles and
rectangles (quick) / every triangle with vertices in {-2,0,2}^3 (thorough); lattice configurations are replayed on the real
functions at a random lattice pose (24 cube rotations x integer translations) and TLC judges each result against the model's
KKT-certified minimum."""
import itertools, random
from fractions import Fraction
import numpy as np
from . import tlc, trace
from .ratio import ticks
from .linebox import rotations

TRIS = [((0, 0, 0), (2, 0, 0), (0, 2, 0)), ((0, 0, 0), (2, 0, 0), (1, 0, 2)), ((-2, 0, 0), (2, 0, 0), (0, 1, 0)), ((0, 0, 0), (2, 2, 0), (0, 2, 2)),
        ((-1, -1, 0), (2, 0, 1), (0, 2, -1)), ((0, 0, 0), (1, 0, 0), (-2, 1, 0)), ((0, 0, 0), (3, 0, 0), (0, 1, 1)), ((1, 1, 1), (-1, 2, 0), (0, -2, 1))]
RECTS = [((0, 0, 0), (2, 0, 0), (0, 1, 0)), ((0, 0, 0), (0, 1, 0), (0, 0, 2)), ((0, 0, 0), (1, 1, 0), (-1, 1, 0)), ((1, 0, 0), (1, 0, 1), (0, 2, 0)),
         ((0, 0, 0), (1, 2, 2), (2, 1, -2)), ((0, 1, 0), (2, 0, 0), (0, 2, 0))]


def model_check(res, tier):
    jobs = [dict(spec_dir="prims", module="LineFlatMC", cfg="LineFlat1.cfg" if tier == "quick" else "LineFlat2.cfg", workers=6 if tier == "quick" else 12,
                 heap="3g" if tier == "quick" else "6g", tag="lineflat", timeout=7200),
            dict(spec_dir="prims", module="LineFlatMC", cfg="LineFlat_noclamp.cfg", workers=1, heap="1g", tag="lineflat_v1"),
            dict(spec_dir="prims", module="LineFlatMC", cfg="LineFlat_twoedges.cfg", workers=1, heap="1g", tag="lineflat_v2")]
    m, v1, v2 = tlc.run_many(jobs)
    for r in (m, v1, v2):
        res.add_tlc(r)
    if m.invariant_violated:
        res.violation("mc:LineFlat", "ModelInvariant", f"TLC: {m.invariant_violated} violated on the line / segment vs triangle / rectangle case analysis",
                      {"tlc_tail": m.out[-3000:]})
    elif not m.ok:
        res.machinery("TLC LineFlat failed:\n" + m.out[-2000:])
    if not v1.invariant_violated or not v2.invariant_violated:
        res.machinery("a slip variant of the LineFlat case analysis did not violate its invariants (vacuous model)")
    res.coverage["lineflat_model_states"] = m.distinct


def dist_point_tri(q, V):
    from .prims import _dist_point_hull
    return _dist_point_hull(q, V)


def records(tier, seed):
    from distance3d import distance as D
    rng = random.Random(seed * 53 + 17)
    dirs = [d for d in itertools.product((-1, 0, 1), repeat=3) if any(d)]
    pts = list(itertools.product(range(-2, 3), repeat=3))
    cfgs = [("tri", t, P, Dv) for t in TRIS for Dv in dirs for P in pts] + [("rect", r, P, Dv) for r in RECTS for Dv in dirs for P in pts]
    if tier == "quick":
        rng.shuffle(cfgs)
        cfgs = cfgs[:12000]
    R24 = rotations()
    recs = []
    for k, (kind, sh, P, Dv) in enumerate(cfgs):
        R = R24[rng.randrange(24)]
        t = np.array([rng.randint(-3, 3) for _ in range(3)], dtype=float)
        w = lambda v: np.ascontiguousarray(R @ np.array(v, dtype=float) + t)
        Pw, Dw = w(P), R @ np.array(Dv, dtype=float)
        fn = "line" if k % 2 == 0 else "seg"
        r = {"id": f"f{k}", "fn": fn, "kind": kind, "P": list(P), "D": list(Dv), "V": [[0, 0, 0]] * 3, "c": [0, 0, 0], "X": [[1, 0, 0], [0, 1, 0]],
             "exc": "none", "recon": False, "d2n": 0, "d2d": 1, "onTicks": 0, "consTicks": 0}
        try:
            if kind == "tri":
                r["V"] = [list(v) for v in sh]
                tri = np.ascontiguousarray(np.array([w(v) for v in sh]))
                if fn == "line":
                    d, pl, ps = D.line_to_triangle(Pw, np.ascontiguousarray(Dw / np.linalg.norm(Dw)), tri)
                else:
                    d, pl, ps = D.line_segment_to_triangle(Pw, np.ascontiguousarray(Pw + Dw), tri)
                verts = np.array(sh, dtype=float)
            else:
                c, x0, x1 = sh
                r["c"], r["X"] = list(c), [list(x0), list(x1)]
                l0, l1 = float(np.linalg.norm(x0)), float(np.linalg.norm(x1))
                axes = np.ascontiguousarray(np.array([R @ np.array(x0, dtype=float) / l0, R @ np.array(x1, dtype=float) / l1]))
                lengths = np.array([2 * l0, 2 * l1])
                if fn == "line":
                    d, pl, ps = D.line_to_rectangle(Pw, np.ascontiguousarray(Dw / np.linalg.norm(Dw)), w(c), axes, lengths)
                else:
                    d, pl, ps = D.line_segment_to_rectangle(Pw, np.ascontiguousarray(Pw + Dw), w(c), axes, lengths)
                cc, a0, a1 = np.array(c, dtype=float), np.array(x0, dtype=float), np.array(x1, dtype=float)
                verts = np.array([cc + i * a0 + j * a1 for i in (-1, 1) for j in (-1, 1)])
            d = float(d); pl = np.asarray(pl, dtype=float); ps = np.asarray(ps, dtype=float)
            fr = Fraction(d * d).limit_denominator(100000)
            if abs(float(fr) - d * d) <= 1e-9 * max(1.0, d * d):
                r["recon"], r["d2n"], r["d2d"] = True, fr.numerator, fr.denominator
            ql = R.T @ (pl - t); qs = R.T @ (ps - t)
            Pa, Da = np.array(P, dtype=float), np.array(Dv, dtype=float)
            s = float((ql - Pa) @ Da) / float(Da @ Da)
            if fn == "seg":
                s = min(1.0, max(0.0, s))
            L = max(1.0, float(np.max(np.abs(t))) + 5.0)
            r["onTicks"] = ticks(max(float(np.linalg.norm(ql - (Pa + s * Da))), dist_point_tri(qs, verts)), 1e-9 * L / 8)
            r["consTicks"] = ticks(abs(float(np.linalg.norm(pl - ps)) - d), 1e-6 * L / 8)
        except Exception as e:
            r["exc"] = type(e).__name__
        recs.append(r)
    return recs


def run(res, tier, seed, prop):
    model_check(res, tier)
    recs = records(tier, seed)
    paths = set()
    rej = trace.judge(recs, "prims", "LineFlatTrace", "LineFlatTrace.cfg", "lineflat", res, nshards=14, per_shard=400, collect=paths)
    mine = {"C10": {"NoException", "PointsOnPrimitives", "Consistent"}, "C11": {"GlobalMinimum"}}[prop]
    byid = {r["id"]: r for r in recs}
    for rid, clauses in sorted(rej.items()):
        r = byid[rid]
        if "ORACLE_CertInvalid" in clauses:
            res.machinery(f"LineFlat model result fails its own KKT certificate for {r}")
            continue
        hit = clauses & mine
        if hit:
            fn = ("line_to_" if r["fn"] == "line" else "line_segment_to_") + ("triangle" if r["kind"] == "tri" else "rectangle")
            shape = r["V"] if r["kind"] == "tri" else [r["c"], r["X"]]
            res.violation(f"lineflat:{fn}:{'+'.join(sorted(hit))}:{r['P']}{r['D']}{shape}", "+".join(sorted(hit)),
                          f"{fn} on lattice configuration point {r['P']} direction {r['D']} shape {shape}: {r}", {"record": r})
    res.coverage["lineflat_configurations_replayed"] = len(recs)
    res.coverage["lineflat_branch_labels_replayed"] = len(paths)
