"""C15 - hydroelastic contact polygons (judge specs/hydro/TetContact.tla, explorer HalfPlanes.tla)."""
import math, random, itertools
import numpy as np
from .. import env, tlc, trace, shapes as S
from ..ratio import ticks
from ..result import Result, chash

TOL = 1e-9


def bary(tet, p):
    X = np.vstack((np.asarray(tet, dtype=float).T, np.ones((1, 4))))
    return np.linalg.solve(X, np.append(np.asarray(p, dtype=float), 1.0))


def tet_overlap(t1, t2, L):
    """'yes' / 'no' / 'band' by exact rational GJK on the two vertex sets (overlap depth is not computed:
    'yes' only when a vertex or the centroid of one lies clearly inside the other)"""
    from ..exactmn import exact_gjk
    from fractions import Fraction as F
    xn, W, wa, wb = exact_gjk([[F(float(c)) for c in v] for v in t1], [[F(float(c)) for c in v] for v in t2])
    d = math.sqrt(float(sum(c * c for c in xn))) / float(W)
    if d > 1e-6 * L:
        return "no"
    for a, b in ((t1, t2), (t2, t1)):
        for p in list(a) + [np.mean(a, axis=0)]:
            try:
                if np.min(bary(b, p)) > 1e-3:
                    return "yes"
            except np.linalg.LinAlgError:
                pass
    return "band"


def pair_record(rid, t1, e1, t2, e2, E1, E2):
    from distance3d.hydroelastic_contact import intersect_tetrahedron_pair, barycentric_transforms, compute_contact_force
    t1, t2 = np.ascontiguousarray(t1, dtype=float), np.ascontiguousarray(t2, dtype=float)
    e1, e2 = np.ascontiguousarray(e1, dtype=float), np.ascontiguousarray(e2, dtype=float)
    L = max(1.0, float(np.max(np.abs(np.vstack((t1, t2))))))
    tick = TOL * L / 8
    rec = {"id": rid, "kind": "pair", "exc": "none", "hit": False, "onPlane": 0, "in1": 0, "in2": 0, "convex": 0, "areaNeg": False,
           "forceDir": 0, "pressureNeg": False, "swapPts": 0, "swapNormal": 0, "swapHit": True, "overlap": "band"}
    try:
        X1 = np.ascontiguousarray(barycentric_transforms(t1[None])[0]); X2 = np.ascontiguousarray(barycentric_transforms(t2[None])[0])
        hit, (plane, poly) = intersect_tetrahedron_pair(t1, e1, X1, t2, e2, X2, E1, E2)
        hit2, (plane2, poly2) = intersect_tetrahedron_pair(t2, e2, X2, t1, e1, X1, E2, E1)
    except Exception as ex:
        rec["exc"] = type(ex).__name__
        return rec
    rec["hit"] = bool(hit)
    rec["swapHit"] = bool(hit) == bool(hit2)
    rec["overlap"] = tet_overlap(t1, t2, L)
    if not hit:
        return rec
    n, d = np.asarray(plane[:3], dtype=float), float(plane[3])
    poly = np.asarray(poly, dtype=float)
    rec["onPlane"] = ticks(float(np.max(np.abs(poly @ n - d))), tick)
    # barycentric coordinates are dimensionless: a violation of -c corresponds to c * (tetrahedron size) in length
    s1 = float(np.max(np.linalg.norm(t1 - t1.mean(0), axis=1))); s2 = float(np.max(np.linalg.norm(t2 - t2.mean(0), axis=1)))
    rec["in1"] = ticks(max(0.0, -min(float(np.min(bary(t1, p))) for p in poly)), TOL / 8)
    rec["in2"] = ticks(max(0.0, -min(float(np.min(bary(t2, p))) for p in poly)), TOL / 8)
    m = len(poly)
    if m >= 3:
        cr = [float(np.cross(poly[(i + 1) % m] - poly[i], poly[(i + 2) % m] - poly[(i + 1) % m]) @ n) for i in range(m)]
        sgn = 1.0 if sum(cr) >= 0 else -1.0
        rec["convex"] = ticks(max(0.0, max(-sgn * c for c in cr)) / max(L, 1e-300), tick)
        area = 0.5 * sum(float(np.cross(poly[i] - poly[0], poly[i + 1] - poly[0]) @ n) for i in range(1, m - 1))
        rec["areaNeg"] = bool(abs(area) < 0.0)
    try:
        com, force, area2, _ = compute_contact_force(t1, e1, np.ascontiguousarray(plane), np.ascontiguousarray(poly), E1)
        fn = float(np.linalg.norm(force))
        if fn > 0:
            rec["forceDir"] = ticks(float(np.linalg.norm(np.cross(force, n))) / fn, TOL / 8)
        # pressure at the centroid of the polygon, from the potentials of tetrahedron 1
        rec["pressureNeg"] = bool(float(force @ n) < -1e-12 * max(fn, 1.0) and float(bary(t1, com) @ (e1 * E1)) > 0) or bool(area2 < 0)
        rec["pressureNeg"] = rec["pressureNeg"] or bool(float(bary(t1, com) @ (e1 * E1)) < -1e-9 * float(np.max(np.abs(e1 * E1)) + 1e-300))
    except Exception as ex:
        rec["exc"] = "force:" + type(ex).__name__
    if hit2:
        p2 = np.asarray(poly2, dtype=float)
        dmax = 0.0
        for a in poly:
            dmax = max(dmax, float(np.min(np.linalg.norm(p2 - a, axis=1))))
        for b in p2:
            dmax = max(dmax, float(np.min(np.linalg.norm(poly - b, axis=1))))
        rec["swapPts"] = ticks(dmax, tick)
        rec["swapNormal"] = ticks(float(np.linalg.norm(n + np.asarray(plane2[:3]))), TOL / 8)
    return rec


def lattice_tet(rng, reach=3):
    while True:
        V = np.array([[rng.randint(-reach, reach) for _ in range(3)] for _ in range(4)], dtype=float)
        if abs(np.linalg.det(V[1:] - V[0])) >= 1:
            return V


def cube_tets(size):
    from distance3d.hydroelastic_contact._tetra_mesh_creation import make_tetrahedral_cube
    V, T, pot = make_tetrahedral_cube(size)
    return V, T, pot


def gen_pairs(tier, rng):
    """(t1, e1, t2, e2, E1, E2, tag)"""
    out = []
    n = 400 if tier == "quick" else 8000
    Es = (0.01, 0.5, 1.0, 1.0, 2.0, 100.0)
    for _ in range(n):
        t1, t2 = lattice_tet(rng), lattice_tet(rng)
        t2 = t2 + np.array([rng.randint(-2, 2) for _ in range(3)])
        e1 = np.array([rng.choice((0, 0, 1, 2)) for _ in range(4)], dtype=float)
        e2 = np.array([rng.choice((0, 0, 1, 2)) for _ in range(4)], dtype=float)
        if not e1.any():
            e1[rng.randrange(4)] = 1.0
        if not e2.any():
            e2[rng.randrange(4)] = 1.0
        sc = rng.choice((1.0, 0.1, 5.0))
        out.append((t1 * sc, e1 * sc, t2 * sc, e2 * sc, rng.choice(Es), rng.choice(Es), "lattice"))
    # tetrahedra of the factory cube, axis-aligned stacking: faces parallel to the contact plane are the rule
    V, T, pot = cube_tets(2.0)
    for _ in range(n // 2):
        i, j = rng.randrange(len(T)), rng.randrange(len(T))
        off = np.array([rng.choice((0.0, 0.5, 1.0, 1.5)) * rng.choice((-1, 1)) if rng.random() < 0.5 else 0.0 for _ in range(3)])
        M = np.array(rng.choice(S.CUBE)[0], dtype=float)
        t1, t2 = V[T[i]], V[T[j]] @ M.T + off
        out.append((t1, pot[T[i]], t2, pot[T[j]], rng.choice(Es), rng.choice(Es), "cube"))
    # random real tetrahedra
    for _ in range(n // 2):
        t1 = np.array([[rng.gauss(0, 1) for _ in range(3)] for _ in range(4)])
        t2 = np.array([[rng.gauss(0, 1) for _ in range(3)] for _ in range(4)]) + np.array([rng.gauss(0, 0.5) for _ in range(3)])
        e1 = np.array([0.0, 0.0, 0.0, rng.uniform(0.1, 1)])[list(rng.sample(range(4), 4))]
        e2 = np.array([0.0, 0.0, 0.0, rng.uniform(0.1, 1)])[list(rng.sample(range(4), 4))]
        out.append((t1, e1, t2, e2, 10 ** rng.uniform(-2, 2), 10 ** rng.uniform(-2, 2), "float"))
    return out


def body_records(tier, rng, recs, meta, n0):
    """find_contact_surface on factory bodies: every reported pair is judged like a single pair; far bodies give no contact"""
    from distance3d.hydroelastic_contact import RigidBody, find_contact_surface, contact_forces
    n = n0

    def mk(kind, T):
        if kind == "cube":
            return RigidBody.make_cube(T, 1.0)
        if kind == "box":
            return RigidBody.make_box(T, np.array([1.0, 0.6, 1.4]))
        if kind == "sphere":
            return RigidBody.make_sphere(T[:3, 3].copy(), 0.6, 1)
        if kind == "ellipsoid":
            return RigidBody.make_ellipsoid(T, np.array([0.5, 0.7, 0.4]), 1)
        if kind == "cylinder":
            return RigidBody.make_cylinder(T, 0.5, 1.0, 0.6)
        return RigidBody.make_capsule(T, 0.4, 0.8, 0.6)
    kinds = ("cube", "box", "sphere", "ellipsoid", "cylinder", "capsule")
    for sc in range(12 if tier == "quick" else 200):
        k1, k2 = rng.choice(kinds), rng.choice(kinds)
        T1, T2 = np.eye(4), np.eye(4)
        mode = rng.choice(("stack", "general", "far"))
        if mode == "stack":
            T2[:3, 3] = [rng.choice((0.0, 0.25)), rng.choice((0.0, 0.25)), rng.choice((0.6, 0.8, 0.9))]
        elif mode == "general":
            T1[:3, :3] = S.random_rotation(rng); T2[:3, :3] = S.random_rotation(rng)
            T2[:3, 3] = np.array([rng.gauss(0, 1) for _ in range(3)]) * 0.4 + T1[:3, 3]
        else:
            T2[:3, 3] = [5.0, rng.uniform(-1, 1), rng.uniform(-1, 1)]
        b1, b2 = mk(k1, T1), mk(k2, T2)
        b1.youngs_modulus, b2.youngs_modulus = 10 ** rng.uniform(-2, 2), 10 ** rng.uniform(-2, 2)
        n += 1
        rid = f"q{n}"
        rec = {"id": rid, "kind": "bodies", "exc": "none", "far": mode == "far", "flag": False, "wrench": 0}
        try:
            flag, w12, w21 = contact_forces(b1, b2)
            rec["flag"] = bool(flag)
            rec["wrench"] = ticks(float(np.max(np.abs(np.concatenate((w12, w21))))), 1e-12)
            cs = find_contact_surface(b1, b2)
        except Exception as ex:
            rec["exc"] = type(ex).__name__
            cs = None
        recs.append(rec)
        meta[rid] = {"bodies": [k1, k2], "mode": mode, "T2": T2.tolist()}
        if cs is None or not cs.intersection:
            continue
        idx = list(range(len(cs.intersecting_tetrahedra1)))
        rng.shuffle(idx)
        for q in idx[:25 if tier == "quick" else 200]:
            i, j = cs.intersecting_tetrahedra1[q], cs.intersecting_tetrahedra2[q]
            n += 1
            rid = f"q{n}"
            recs.append(pair_record(rid, b1.tetrahedra_points[i], b1.tetrahedra_potentials[i], b2.tetrahedra_points[j],
                                    b2.tetrahedra_potentials[j], b1.youngs_modulus, b2.youngs_modulus))
            meta[rid] = {"bodies": [k1, k2], "mode": mode, "pair": [int(i), int(j)], "tag": "body"}
    return n


def run(tier, seed):
    env.setup()
    rng = random.Random(seed)
    res = Result("C15", tier, seed)
    r = tlc.run("hydro", "HalfPlanes", cfg="HalfPlanes.cfg", workers=4, heap="1g")
    res.add_tlc(r)
    if r.invariant_violated:
        res.violation("mc:HalfPlanes", "ModelInvariant", "TLC: half-plane compaction model loses or invents rows", {"tlc_tail": r.out[-3000:]})
    elif not r.ok:
        res.machinery("TLC HalfPlanes failed:\n" + r.out[-2000:])
    recs, meta = [], {}
    for i, (t1, e1, t2, e2, E1, E2, tag) in enumerate(gen_pairs(tier, rng)):
        rid = f"q{i}"
        recs.append(pair_record(rid, t1, e1, t2, e2, E1, E2))
        meta[rid] = {"t1": np.asarray(t1).tolist(), "e1": np.asarray(e1).tolist(), "t2": np.asarray(t2).tolist(), "e2": np.asarray(e2).tolist(), "E": [E1, E2], "tag": tag}
    body_records(tier, rng, recs, meta, len(recs))
    byid = {r["id"]: r for r in recs}
    rejects = trace.judge(recs, "hydro", "TetContactTrace", "TetContactTrace.cfg", "c15", res)
    for rid, clauses in sorted(rejects.items(), key=lambda kv: int(kv[0][1:])):
        m, rr = meta[rid], byid[rid]
        res.violation(f"{m.get('tag', 'bodies')}:{'+'.join(sorted(clauses))}:{chash(m)}", "+".join(sorted(clauses)),
                      f"{str(m)[:300]} -> " + str({k: v for k, v in rr.items() if k not in ('id', 'kind')}), {"meta": m, "record": rr, "seed": seed})
    res.coverage["evaluations"] = len(recs)
    res.coverage["hits"] = sum(1 for r in recs if r.get("hit"))
    res.coverage["disjoint_pairs"] = sum(1 for r in recs if r.get("overlap") == "no")
    res.coverage["distinct_nontrivial"] = len({chash(m) for m in meta.values()})
    res.coverage["rule"] = ("single tetrahedron pairs: lattice tetrahedra with integer potentials, tetrahedra of the factory cube at axis-aligned "
                            "lattice offsets and cube rotations (faces parallel to the contact plane), random real tetrahedra; Young's moduli in "
                            "[1e-2, 1e2]; plus the pairs reported by find_contact_surface for factory bodies (stacked, general, far apart)")
    res.coverage["samples"] = [meta[recs[0]["id"]], recs[0]]
    res.assumptions = ["clause residuals are measured with the harness' own barycentric solves; exact contact polygons are not recomputed"]
    return res


def replay(path):
    import json
    print(json.dumps(json.load(open(path))["replay"]["meta"]))
    return 1
