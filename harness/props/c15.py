"""C15 - hydroelastic contact polygons (judge specs/hydro/TetContact.tla, explorer HalfPlanes.tla)."""
import math, random, itertools
import numpy as np
from .. import env, tlc, trace, shapes as S
from ..ratio import ticks
from ..result import Result, chash

TOL = 1e-9


def bary(tet, p):
    X = np.vstack((np.asarray(tet, dtype=float).T, np.ones((1, 4))))
    return np.linalg.solve(X, np.append(np.asarray(p, dtype=float), 1.0))


def tet_overlap(t1, t2, L):
    """'yes' / 'no' / 'band' by exact rational GJK on the two vertex sets (overlap depth is not computed:
    'yes' only when a vertex or the centroid of one lies clearly inside the other)"""
    from ..exactmn import exact_gjk
    from fractions import Fraction as F
    xn, W, wa, wb = exact_gjk([[F(float(c)) for c in v] for v in t1], [[F(float(c)) for c in v] for v in t2])
    d = math.sqrt(float(sum(c * c for c in xn))) / float(W)
    if d > 1e-6 * L:
        return "no"
    for a, b in ((t1, t2), (t2, t1)):
        for p in list(a) + [np.mean(a, axis=0)]:
            try:
                if np.min(bary(b, p)) > 1e-3:
                    return "yes"
            except np.linalg.LinAlgError:
                pass
    return "band"


def pair_record(rid, t1, e1, t2, e2, E1, E2):
    from distance3d.hydroelastic_contact import intersect_tetrahedron_pair, barycentric_transforms, compute_contact_force
    t1, t2 = np.ascontiguousarray(t1, dtype=float), np.ascontiguousarray(t2, dtype=float)
    e1, e2 = np.ascontiguousarray(e1, dtype=float), np.ascontiguousarray(e2, dtype=float)
    L = max(1.0, float(np.max(np.abs(np.vstack((t1, t2))))))
    tick = TOL * L / 8
    rec = {"id": rid, "kind": "pair", "exc": "none", "hit": False, "onPlane": 0, "in1": 0, "in2": 0, "convex": 0, "areaNeg": False,
           "forceDir": 0, "pressureNeg": False, "swapPts": 0, "swapNormal": 0, "swapHit": True, "overlap": "band"}
    try:
        X1 = np.ascontiguousarray(barycentric_transforms(t1[None])[0]); X2 = np.ascontiguousarray(barycentric_transforms(t2[None])[0])
        hit, (plane, poly) = intersect_tetrahedron_pair(t1, e1, X1, t2, e2, X2, E1, E2)
        hit2, (plane2, poly2) = intersect_tetrahedron_pair(t2, e2, X2, t1, e1, X1, E2, E1)
    except Exception as ex:
        rec["exc"] = type(ex).__name__
        return rec
    rec["hit"] = bool(hit)
    rec["swapHit"] = bool(hit) == bool(hit2)
    rec["overlap"] = tet_overlap(t1, t2, L)
    if not hit:
        return rec
    n, d = np.asarray(plane[:3], dtype=float), float(plane[3])
    poly = np.asarray(poly, dtype=float)
    rec["onPlane"] = ticks(float(np.max(np.abs(poly @ n - d))), tick)
    # barycentric coordinates are dimensionless: a violation of -c corresponds to c * (tetrahedron size) in length
    s1 = float(np.max(np.linalg.norm(t1 - t1.mean(0), axis=1))); s2 = float(np.max(np.linalg.norm(t2 - t2.mean(0), axis=1)))
    rec["in1"] = ticks(max(0.0, -min(float(np.min(bary(t1, p))) for p in poly)), TOL / 8)
    rec["in2"] = ticks(max(0.0, -min(float(np.min(bary(t2, p))) for p in poly)), TOL / 8)
    m = len(poly)
    if m >= 3:
        cr = [float(np.cross(poly[(i + 1) % m] - poly[i], poly[(i + 2) % m] - poly[(i + 1) % m]) @ n) for i in range(m)]
        sgn = 1.0 if sum(cr) >= 0 else -1.0
        rec["convex"] = ticks(max(0.0, max(-sgn * c for c in cr)) / max(L, 1e-300), tick)
        area = 0.5 * sum(float(np.cross(poly[i] - poly[0], poly[i + 1] - poly[0]) @ n) for i in range(1, m - 1))
        rec["areaNeg"] = bool(abs(area) < 0.0)
    try:
        com, force, area2, _ = compute_contact_force(t1, e1, np.ascontiguousarray(plane), np.ascontiguousarray(poly), E1)
        fn = float(np.linalg.norm(force))
        if fn > 0:
            rec["forceDir"] = ticks(float(np.linalg.norm(np.cross(force, n))) / fn, TOL / 8)
        # pressure at the centroid of the polygon, from the potentials of tetrahedron 1
        rec["pressureNeg"] = bool(float(force @ n) < -1e-12 * max(fn, 1.0) and float(bary(t1, com) @ (e1 * E1)) > 0) or bool(area2 < 0)
        rec["pressureNeg"] = rec["pressureNeg"] or bool(float(bary(t1, com) @ (e1 * E1)) < -1e-9 * float(np.max(np.abs(e1 * E1)) + 1e-300))
    except Exception as ex:
        rec["exc"] = "force:" + type(ex).__name__
    if hit2:
        p2 = np.asarray(poly2, dtype=float)
        dmax = 0.0
        for a in poly:
            dmax = max(dmax, float(np.min(np.linalg.norm(p2 - a, axis=1))))
        for b in p2:
            dmax = max(dmax, float(np.min(np.linalg.norm(poly - b, axis=1))))
        rec["swapPts"] = ticks(dmax, tick)
        rec["swapNormal"] = ticks(float(np.linalg.norm(n + np.asarray(plane2[:3]))), TOL / 8)
    return rec


def lattice_tet(rng, reach=3):
    while True:
        V = np.array([[rng.randint(-reach, reach) for _ in range(3)] for _ in range(4)], dtype=float)
        if abs(np.linalg.det(V[1:] - V[0])) >= 1:
            return V


def cube_tets(size):
    from distance3d.hydroelastic_contact._tetra_mesh_creation import make_tetrahedral_cube
    V, T, pot = make_tetrahedral_cube(size)
    return V, T, pot


def gen_pairs(tier, rng):
    """(t1, e1, t2, e2, E1, E2, tag)"""
    out = []
    n = 400 if tier == "quick" else 8000
    Es = (0.01, 0.5, 1.0, 1.0, 2.0, 100.0)
    for _ in range(n):
        t1, t2 = lattice_tet(rng), lattice_tet(rng)
        t2 = t2 + np.array([rng.randint(-2, 2) for _ in range(3)])
        e1 = np.array([rng.choice((0, 0, 1, 2)) for _ in range(4)], dtype=float)
        e2 = np.array([rng.choice((0, 0, 1, 2)) for _ in range(4)], dtype=float)
        if not e1.any():
            e1[rng.randrange(4)] = 1.0
        if not e2.any():
            e2[rng.randrange(4)] = 1.0
        sc = rng.choice((1.0, 0.1, 5.0))
        out.append((t1 * sc, e1 * sc, t2 * sc, e2 * sc, rng.choice(Es), rng.choice(Es), "lattice"))
    # tetrahedra of the factory cube, axis-aligned stacking: faces parallel to the contact plane are the rule
    V, T, pot = cube_tets(2.0)
    for _ in range(n // 2):
        i, j = rng.randrange(len(T)), rng.randrange(len(T))
        off = np.array([rng.choice((0.0, 0.5, 1.0, 1.5)) * rng.choice((-1, 1)) if rng.random() < 0.5 else 0.0 for _ in range(3)])
        M = np.array(rng.choice(S.CUBE)[0], dtype=float)
        t1, t2 = V[T[i]], V[T[j]] @ M.T + off
        E1, E2 = rng.choice(Es), rng.choice(Es)
        if E1 == E2 and sorted(map(tuple, np.round(t1, 9).tolist())) == sorted(map(tuple, np.round(t2, 9).tolist())):
            # the same tetrahedron with the same pressure field twice: the equal-pressure plane is undefined (0 = 0 everywhere),
            # outside the domain of the property (found as three OrderIndependent alarms of the thorough tier)
            E2 = E1 * 2.0
        out.append((t1, pot[T[i]], t2, pot[T[j]], E1, E2, "cube"))
    # random real tetrahedra
    for _ in range(n // 2):
        t1 = np.array([[rng.gauss(0, 1) for _ in range(3)] for _ in range(4)])
        t2 = np.array([[rng.gauss(0, 1) for _ in range(3)] for _ in range(4)]) + np.array([rng.gauss(0, 0.5) for _ in range(3)])
        e1 = np.array([0.0, 0.0, 0.0, rng.uniform(0.1, 1)])[list(rng.sample(range(4), 4))]
        e2 = np.array([0.0, 0.0, 0.0, rng.uniform(0.1, 1)])[list(rng.sample(range(4), 4))]
        out.append((t1, e1, t2, e2, 10 ** rng.uniform(-2, 2), 10 ** rng.uniform(-2, 2), "float"))
    return out


def body_records(tier, rng, recs, meta, n0):
    """find_contact_surface on factory bodies: every reported pair is judged like a single pair; far bodies give no contact"""
    from distance3d.hydroelastic_contact import RigidBody, find_contact_surface, contact_forces
    n = n0

    def mk(kind, T):
        if kind == "cube":
            return RigidBody.make_cube(T, 1.0)
        if kind == "box":
            return RigidBody.make_box(T, np.array([1.0, 0.6, 1.4]))
        if kind == "sphere":
            return RigidBody.make_sphere(T[:3, 3].copy(), 0.6, 1)
        if kind == "ellipsoid":
            return RigidBody.make_ellipsoid(T, np.array([0.5, 0.7, 0.4]), 1)
        if kind == "cylinder":
            return RigidBody.make_cylinder(T, 0.5, 1.0, 0.6)
        return RigidBody.make_capsule(T, 0.4, 0.8, 0.6)
    kinds = ("cube", "box", "sphere", "ellipsoid", "cylinder", "capsule")
    nsc = 12 if tier == "quick" else 200
    ndeep = 30 if tier == "quick" else 600
    for sc in range(nsc + ndeep):
        k1, k2 = rng.choice(kinds), rng.choice(kinds)
        T1, T2 = np.eye(4), np.eye(4)
        mode = rng.choice(("stack", "general", "far")) if sc < nsc else "deepstack"
        if mode == "deepstack":
            # lattice-aligned boxes of random (also flat) sizes pressed deep into each other along one axis, past the medial
            # surfaces: interior tetrahedra with a face of constant non-zero potential parallel to the contact plane take part
            # (seed C15-7: such a face dropped from the half-planes while the plane test lets the pair through)
            szs = [np.array([rng.choice((0.4, 1.0, 2.0, 3.0)) for _ in range(3)]) for _ in range(2)]
            T1[:3, :3] = np.array(rng.choice(S.CUBE)[0], dtype=float); T2[:3, :3] = np.array(rng.choice(S.CUBE)[0], dtype=float)
            ext1 = np.abs(T1[:3, :3]) @ szs[0]; ext2 = np.abs(T2[:3, :3]) @ szs[1]
            ax = rng.randrange(3)
            off = np.array([rng.choice((0.0, 0.25, -0.25, 0.5)) for _ in range(3)])
            off[ax] = rng.choice((-1, 1)) * rng.uniform(0.05, 0.95) * 0.5 * (ext1[ax] + ext2[ax])
            T2[:3, 3] = off
            k1 = k2 = "box"
        elif mode == "stack":
            T2[:3, 3] = [rng.choice((0.0, 0.25)), rng.choice((0.0, 0.25)), rng.choice((0.6, 0.8, 0.9))]
        elif mode == "general":
            T1[:3, :3] = S.random_rotation(rng); T2[:3, :3] = S.random_rotation(rng)
            T2[:3, 3] = np.array([rng.gauss(0, 1) for _ in range(3)]) * 0.4 + T1[:3, 3]
        else:
            T2[:3, 3] = [5.0, rng.uniform(-1, 1), rng.uniform(-1, 1)]
        if mode == "deepstack":
            b1, b2 = RigidBody.make_box(T1, szs[0]), RigidBody.make_box(T2, szs[1])
        else:
            b1, b2 = mk(k1, T1), mk(k2, T2)
        b1.youngs_modulus, b2.youngs_modulus = 10 ** rng.uniform(-2, 2), 10 ** rng.uniform(-2, 2)
        n += 1
        rid = f"q{n}"
        rec = {"id": rid, "kind": "bodies", "exc": "none", "far": mode == "far", "flag": False, "wrench": 0}
        try:
            flag, w12, w21 = contact_forces(b1, b2)
            rec["flag"] = bool(flag)
            rec["wrench"] = ticks(float(np.max(np.abs(np.concatenate((w12, w21))))), 1e-12)
            cs = find_contact_surface(b1, b2)
        except Exception as ex:
            rec["exc"] = type(ex).__name__
            cs = None
        recs.append(rec)
        meta[rid] = {"bodies": [k1, k2], "mode": mode, "T2": T2.tolist()}
        if cs is None or not cs.intersection:
            continue
        idx = list(range(len(cs.intersecting_tetrahedra1)))
        rng.shuffle(idx)
        for q in idx[:25 if tier == "quick" else 200]:
            i, j = cs.intersecting_tetrahedra1[q], cs.intersecting_tetrahedra2[q]
            n += 1
            rid = f"q{n}"
            recs.append(pair_record(rid, b1.tetrahedra_points[i], b1.tetrahedra_potentials[i], b2.tetrahedra_points[j],
                                    b2.tetrahedra_potentials[j], b1.youngs_modulus, b2.youngs_modulus))
            meta[rid] = {"bodies": [k1, k2], "mode": mode, "pair": [int(i), int(j)], "tag": "body"}
    return n


def clip_records(tier, rng, res, recs, meta):
    """PolygonClip.tla: every proper subset of half-planes TLC explores is replayed on the real intersect_halfplanes ->
    order_points -> filter_unique_points pipeline under random similarity transforms (rounding plays the model's adversary),
    in two half-plane orders; the exact polygon area comes from the integer configuration"""
    import json, re
    from fractions import Fraction as F
    from distance3d.hydroelastic_contact import _halfplanes as HP, _tetrahedron_intersection as TI
    jobs = [dict(spec_dir="hydro", module="PolygonClipMC", cfg="PolygonClip.cfg" if tier == "quick" else "PolygonClip6emit.cfg", workers=4, heap="2g", tag="clip_main"),
            dict(spec_dir="hydro", module="PolygonClipMC", cfg="PolygonClip_asfound.cfg", workers=2, heap="1g", tag="clip_asfound")]
    main, asf = tlc.run_many(jobs)
    res.add_tlc(main); res.add_tlc(asf)
    if main.invariant_violated:
        res.violation("mc:PolygonClip", "ModelInvariant", f"TLC: {main.invariant_violated} violated on the clipping model of the library's design", {"tlc_tail": main.out[-3000:]})
    elif not main.ok:
        res.machinery("TLC PolygonClip failed:\n" + main.out[-2000:])
    if not asf.invariant_violated:
        res.machinery("the adversarial-rounding configuration of PolygonClip found no counterexample (vacuous model)")
    cfgs = []
    for m in re.finditer(r'<<"CLIP",\s*"((?:[^"\\]|\\.)*)">>', main.out, re.S):
        cfgs.append(json.loads(re.sub(r"\s*\n\s*", "", m.group(1)).encode().decode("unicode_escape")))
    res.coverage["clip_configurations"] = len(cfgs)
    res.coverage["clip_with_boundary_candidates"] = sum(1 for c in cfgs if c["boundary"])
    if not cfgs:
        res.machinery("PolygonClip emitted no configurations")
    lifts = 2 if tier == "quick" else 6
    n = 0
    for c in cfgs:
        hs = [tuple(h) for h in c["hs"]]
        # exact polygon: candidates that satisfy every half-plane, as rationals
        pts = set()
        for i in range(len(hs)):
            for j in range(i + 1, len(hs)):
                (a1, b1, c1), (a2, b2, c2) = hs[i], hs[j]
                d = a1 * b2 - a2 * b1
                if d == 0:
                    continue
                x, y = F(c1 * b2 - c2 * b1, d), F(a1 * c2 - a2 * c1, d)
                if all(a * x + b * y <= cc for a, b, cc in hs):
                    pts.add((x, y))
        cx, cy = sum(p[0] for p in pts) / len(pts), sum(p[1] for p in pts) / len(pts)
        ring = sorted(pts, key=lambda p: math.atan2(float(p[1] - cy), float(p[0] - cx)))
        area = abs(sum(ring[k][0] * ring[(k + 1) % len(ring)][1] - ring[(k + 1) % len(ring)][0] * ring[k][1] for k in range(len(ring)))) / 2
        for li in range(lifts):
            sc = 10 ** rng.uniform(-1.5, 1.0)
            th = rng.uniform(0, 2 * math.pi) if li else 0.0
            t = np.array([rng.uniform(-1, 1), rng.uniform(-1, 1)]) * (rng.choice((0.0, 3.0, 40.0)) if li else 0.0)
            R = np.array([[math.cos(th), -math.sin(th)], [math.sin(th), math.cos(th)]])
            rows = []
            for a, b, cc in hs:
                nn = a * a + b * b
                p = sc * (R @ (np.array([a, b], dtype=float) * cc / nn)) + t
                dvec = (R @ np.array([-b, a], dtype=float)) * rng.choice((1.0, 0.37, 2.9))      # unnormalised, as make_halfplanes leaves them
                rows.append([p[0], p[1], dvec[0], dvec[1]])
            n += 1
            rid = f"k{n}"
            rec = {"id": rid, "kind": "clip", "exc": "none", "nverts": len(pts), "orderArea": 0, "modelArea": 0, "fits": True}
            L2 = max(1.0, float(np.max(np.abs(np.array(rows)[:, :2])))) ** 2
            try:
                out = []
                for order in (list(range(len(rows))), rng.sample(range(len(rows)), len(rows))):
                    hp = np.ascontiguousarray(np.array([rows[k] for k in order], dtype=float))
                    v = HP.intersect_halfplanes(hp)
                    if len(v) >= 3:
                        v = TI.filter_unique_points(TI.order_points(np.ascontiguousarray(v)))
                    m = len(v)
                    rec["fits"] = rec["fits"] and m <= 8
                    fan = min(m, 8)
                    out.append(0.5 * abs(sum(float((v[k, 0] - v[0, 0]) * (v[k + 1, 1] - v[0, 1]) - (v[k, 1] - v[0, 1]) * (v[k + 1, 0] - v[0, 0])) for k in range(1, fan - 1))) if fan >= 3 else 0.0)
                rec["orderArea"] = ticks(abs(out[0] - out[1]), TOL * L2 / 8)
                rec["modelArea"] = ticks(max(abs(o - float(area) * sc * sc) for o in out), TOL * L2 / 8)
            except Exception as ex:
                rec["exc"] = type(ex).__name__
            recs.append(rec)
            meta[rid] = {"tag": "clip", "halfplanes": [list(h) for h in hs], "scale": sc, "angle": th, "shift": t.tolist(), "exact_area": float(area)}


def run(tier, seed):
    env.setup()
    rng = random.Random(seed)
    res = Result("C15", tier, seed)
    r = tlc.run("hydro", "HalfPlanes", cfg="HalfPlanes.cfg", workers=4, heap="1g")
    res.add_tlc(r)
    if r.invariant_violated:
        res.violation("mc:HalfPlanes", "ModelInvariant", "TLC: half-plane compaction model loses or invents rows", {"tlc_tail": r.out[-3000:]})
    elif not r.ok:
        res.machinery("TLC HalfPlanes failed:\n" + r.out[-2000:])
    recs, meta = [], {}
    for i, (t1, e1, t2, e2, E1, E2, tag) in enumerate(gen_pairs(tier, rng)):
        rid = f"q{i}"
        recs.append(pair_record(rid, t1, e1, t2, e2, E1, E2))
        meta[rid] = {"t1": np.asarray(t1).tolist(), "e1": np.asarray(e1).tolist(), "t2": np.asarray(t2).tolist(), "e2": np.asarray(e2).tolist(), "E": [E1, E2], "tag": tag}
    body_records(tier, rng, recs, meta, len(recs))
    clip_records(tier, rng, res, recs, meta)
    byid = {r["id"]: r for r in recs}
    rejects = trace.judge(recs, "hydro", "TetContactTrace", "TetContactTrace.cfg", "c15", res)
    for rid, clauses in sorted(rejects.items(), key=lambda kv: (kv[0][0], int(kv[0][1:]))):
        m, rr = meta[rid], byid[rid]
        if clauses == {"DRIFT_ClipConformsToModel"}:
            # the implementation's polygon differs from the clipping model's although the property's own clauses hold:
            # model drift, reported in the evidence, never a violation
            res.coverage["drift"] += 1
            res.coverage.setdefault("drift_samples", []).append({"meta": m, "record": rr})
            continue
        clauses = clauses - {"DRIFT_ClipConformsToModel"}
        res.violation(f"{m.get('tag', 'bodies')}:{'+'.join(sorted(clauses))}:{chash(m)}", "+".join(sorted(clauses)),
                      f"{str(m)[:300]} -> " + str({k: v for k, v in rr.items() if k not in ('id', 'kind')}), {"meta": m, "record": rr, "seed": seed})
    res.coverage["evaluations"] = len(recs)
    res.coverage["hits"] = sum(1 for r in recs if r.get("hit"))
    res.coverage["disjoint_pairs"] = sum(1 for r in recs if r.get("overlap") == "no")
    res.coverage["distinct_nontrivial"] = len({chash(m) for m in meta.values()})
    res.coverage["rule"] = ("single tetrahedron pairs: lattice tetrahedra with integer potentials, tetrahedra of the factory cube at axis-aligned "
                            "lattice offsets and cube rotations (faces parallel to the contact plane), random real tetrahedra; Young's moduli in "
                            "[1e-2, 1e2]; plus the pairs reported by find_contact_surface for factory bodies (stacked, general, far apart)")
    res.coverage["samples"] = [meta[recs[0]["id"]], recs[0]]
    res.assumptions = ["clause residuals are measured with the harness' own barycentric solves; exact contact polygons are not recomputed"]
    return res


def replay(path):
    import json
    print(json.dumps(json.load(open(path))["replay"]["meta"]))
    return 1
