"""C03 - support mappings (judge specs/shapes/ShapeJudge.tla, clauses Support*)."""
import math, random, itertools
import numpy as np
from .. import env, tlc, trace, shapes as S
from ..ratio import recon_vec, ticks
from ..result import Result, chash

TOL = 1e-9
MAXDEN = 20000


def support_record(rid, s, unit, R, tw, d_local, coll, cname, exact, dscale=1.0, margin=0.0, tier=1):
    """one support_function call; exact=True -> rational reconstruction in the local lattice frame"""
    L = S.scale_L(s, unit, tw)
    tick = TOL * L / 8
    dl = np.array(d_local, dtype=float)
    dw = np.ascontiguousarray(R @ dl * dscale)
    rad = S.radicand(s, d_local) if exact else None
    k = S.isqrt_exact(rad) if exact else None
    closed = bool(exact and k is not None)
    rec = {"id": rid, "kind": "support", "tier": tier, "cls": cname, "via": "support_function",
           "shape": ({kk: v for kk, v in s.items() if kk != "name"} if not isinstance(s.get("V"), np.ndarray)
                     else {"kind": "hull", "V": [[0, 0, 0]], "big": s["name"]}),
           "d": [int(x) for x in d_local] if exact else [0, 0, 0], "k": int(k) if closed else 0, "closed": closed,
           "recon": False, "pn": [0, 0, 0], "pd": 1, "rticks": 0, "hn": 0, "hd": 1,
           "memticks": 0, "extticks": 0, "exc": "none"}
    if not exact:
        rec["dbg"] = {"dw": [float(x) for x in dw], "unit": unit, "R": R.tolist(), "tw": [float(x) for x in tw]}
    try:
        pw = np.asarray(coll.support_function(dw), dtype=float)
        if margin:
            pw = pw - margin * dw / np.linalg.norm(dw)
    except Exception as e:
        rec["exc"] = type(e).__name__
        return rec
    pl = (R.T @ (pw - tw)) / unit
    if not np.all(np.isfinite(pl)):
        rec["exc"] = "NonFinite"
        return rec
    if closed:
        ok, pn, pd = recon_vec(pl, 2 * max(k, 1), TOL * L / unit)
        if ok and max(abs(c) for c in pn) > 4000:
            ok = False       # keep TLC's 32-bit integers safe
        if not ok:
            # the returned point is not a lattice rational (e.g. an arbitrary rim point for an axis-parallel
            # direction that is not exactly parallel after the float rotation): judged by the float clauses
            closed = False
            rec["closed"] = False
            rec["fallback"] = True
    if closed:
        rec["recon"], rec["pn"], rec["pd"] = True, pn, pd
        if ok:
            rec["rticks"] = ticks(float(np.linalg.norm(pl - np.array(pn) / pd)) * unit, tick)
        okh, hn, hd = recon_vec([S.support_val(s, dl)], 4, 1e-9)
        rec["hn"], rec["hd"] = (hn[0], hd) if okh else (0, 0)
    else:
        rec["memticks"] = ticks(S.outside_lower_bound(s, pl) * unit, tick)
        rec["extticks"] = ticks(abs(float(dl @ pl) - S.support_val(s, dl)) / float(np.linalg.norm(dl)) * unit, tick)
    return rec


def point_record(rid, s, unit, R, tw, coll, cname, via, tier=1):
    L = S.scale_L(s, unit, tw)
    tick = TOL * L / 8
    rec = {"id": rid, "kind": "support", "tier": tier, "cls": cname, "via": via,
           "shape": {kk: v for kk, v in s.items() if kk != "name"}, "d": [0, 0, 0], "k": 0, "closed": False,
           "recon": False, "pn": [0, 0, 0], "pd": 1, "rticks": 0, "hn": 0, "hd": 1,
           "memticks": 0, "extticks": 0, "exc": "none"}
    try:
        pw = np.asarray(getattr(coll, via)(), dtype=float)
        pl = (R.T @ (pw - tw)) / unit
        rec["memticks"] = ticks(S.outside_lower_bound(s, pl) * unit, tick)
    except Exception as e:
        rec["exc"] = type(e).__name__
    return rec


# the meshes of specs/shapes/MeshMC.tla (1-based triangles there)
MODEL_MESHES = {
    "cube": (S.CUBE_V, [(1,2,4),(1,4,3),(5,7,8),(5,8,6),(1,5,6),(1,6,2),(3,4,8),(3,8,7),(1,3,7),(1,7,5),(2,6,8),(2,8,4)]),
    "octa": ([[2,0,0],[-2,0,0],[0,2,0],[0,-2,0],[0,0,2],[0,0,-2]],
             [(1,3,5),(3,2,5),(2,4,5),(4,1,5),(3,1,6),(2,3,6),(4,2,6),(1,4,6)]),
    "needle": ([[0,0,0],[8,0,0],[4,1,0],[4,0,1]], [(1,2,3),(1,2,4),(1,3,4),(2,3,4)]),
    "drum": ([[4,0,-1],[2,3,-1],[-2,3,-1],[-4,0,-1],[-2,-3,-1],[2,-3,-1],[4,0,1],[2,3,1],[-2,3,1],[-4,0,1],[-2,-3,1],[2,-3,1]],
             [(1,2,8),(1,8,7),(2,3,9),(2,9,8),(3,4,10),(3,10,9),(4,5,11),(4,11,10),(5,6,12),(5,12,11),(6,1,7),(6,7,12),
              (1,2,3),(1,3,4),(1,4,5),(1,5,6),(7,8,9),(7,9,10),(7,10,11),(7,11,12)]),
}


def mesh_histories(tier, rng, recs, n0):
    """MeshGraph histories: the behaviours of specs/shapes/MeshClimb.tla (sequences of lattice direction
    queries on one object) plus pose updates between queries, incl. the same direction asked again."""
    from distance3d import colliders as C
    n = n0
    L2 = [d for d in itertools.product(range(-2, 3), repeat=3) if any(d)]
    npairs = 60 if tier == "quick" else 600
    for name, (V, T) in MODEL_MESHES.items():
        s = {"kind": "hull", "V": V, "name": name}
        tri = np.array([[a - 1, b - 1, c - 1] for a, b, c in T], dtype=int)
        for _ in range(npairs):
            unit = rng.choice((1.0, 0.25, 3.0))
            (M1, N1), (M2, N2) = rng.choice(S.ROTS), rng.choice(S.ROTS)
            R1, R2 = np.array(M1, dtype=float) / N1, np.array(M2, dtype=float) / N2
            t1 = unit * np.array([rng.randint(-4, 4) for _ in range(3)], dtype=float)
            t2 = unit * np.array([rng.randint(-4, 4) for _ in range(3)], dtype=float)
            P1, P2 = np.eye(4), np.eye(4)
            P1[:3, :3], P1[:3, 3], P2[:3, :3], P2[:3, 3] = R1, t1, R2, t2
            mesh = C.MeshGraph(np.ascontiguousarray(P1), np.ascontiguousarray(np.array(V, dtype=float) * unit), tri)
            d1, d2 = rng.choice(L2), rng.choice(L2)
            dw = np.ascontiguousarray(R1 @ np.array(d1, dtype=float))
            seq = rng.choice(("qq", "qsame", "q-upd-same", "q-upd-q", "q-q-upd-same"))
            for op in seq.split("-") if "-" in seq else [seq]:
                pass
            # first query at pose 1 (also judged)
            n += 1; recs.append(support_record(f"s{n}", s, unit, R1, t1, d1, mesh, "MeshGraph", True))
            if seq == "qq":
                n += 1; recs.append(support_record(f"s{n}", s, unit, R1, t1, d2, mesh, "MeshGraph", True))
            elif seq == "qsame":
                n += 1; recs.append(support_record(f"s{n}", s, unit, R1, t1, d1, mesh, "MeshGraph", True))
            else:
                if seq == "q-q-upd-same":
                    n += 1; recs.append(support_record(f"s{n}", s, unit, R1, t1, d2, mesh, "MeshGraph", True))
                    dw = np.ascontiguousarray(R1 @ np.array(d2, dtype=float))
                mesh.update_pose(np.ascontiguousarray(P2))
                if seq == "q-upd-q":
                    n += 1; recs.append(support_record(f"s{n}", s, unit, R2, t2, d2, mesh, "MeshGraph", True))
                else:
                    # the SAME world direction as the previous query, now at pose 2: judged in pose 2's local frame
                    dl2 = R2.T @ dw
                    n += 1; recs.append(support_record(f"s{n}", s, unit, R2, t2, dl2, mesh, "MeshGraph", False, tier=2))
    # large meshes: long walks; antipodal and nearby direction sequences on one object
    nbig = 5 if tier == "quick" else 15
    for b in range(nbig):
        ring = False
        if b % 5 == 4:
            # double cone over an antiprism ring: the six axis-extreme shortcut vertices are an eighth of the ring away from the
            # extreme vertex of a diagonal direction - hundreds of single steps along the ring
            ring = True
            nr = 1000 if tier == "quick" else rng.choice((1000, 2400))
            ang = 2.0 * math.pi * np.arange(nr) / nr
            ra = np.column_stack((10.0 * np.cos(ang), 10.0 * np.sin(ang), np.full(nr, 0.05)))
            rb = np.column_stack((10.0 * np.cos(ang + math.pi / nr), 10.0 * np.sin(ang + math.pi / nr), np.full(nr, -0.05)))
            pts = np.vstack((ra, rb, [[0.0, 0.0, 5.0]], [[0.0, 0.0, -5.0]]))
        elif b % 2 == 0:
            npts = rng.choice((400, 1500, 5000)) if tier == "quick" else rng.choice((400, 1500, 6000, 12000))
            pts = np.array([[rng.gauss(0, 1) for _ in range(3)] for _ in range(npts)])
            pts /= np.linalg.norm(pts, axis=1)[:, None]
            pts *= np.array([rng.choice((1.0, 6.0)), 1.0, rng.choice((1.0, 0.3))])
        else:
            # ringed spindle: strictly convex, graph diameter ~ number of rings (long hill-climbing walks)
            rings, per = (300 if b == 1 else rng.choice((60, 150, 300))), rng.choice((3, 6))       # the first spindle always has 300 rings
            hl, rad = rng.choice((5.0, 10.0, 40.0)), rng.choice((0.5, 1.0))
            pl = [[0.0, 0.0, -hl], [0.0, 0.0, hl]]
            for kk in range(1, rings + 1):
                z = -hl + 2.0 * hl * kk / (rings + 1)
                rr = rad * math.sqrt(1.0 - (z / hl) ** 2)
                for j in range(per):
                    a = 2.0 * math.pi * (j + 0.5 * (kk % 2)) / per
                    pl.append([rr * math.cos(a), rr * math.sin(a), z])
            pts = np.array(pl)[:, rng.choice(([0, 1, 2], [2, 0, 1], [1, 2, 0]))]
        from distance3d.mesh import make_convex_mesh
        tri = make_convex_mesh(pts)
        used = np.unique(tri)
        remap = -np.ones(len(pts), dtype=int); remap[used] = np.arange(len(used))
        Vb = np.ascontiguousarray(pts[used]); tri = remap[tri]
        s = {"kind": "hull", "V": Vb, "name": f"big{b}"}
        R = S.random_rotation(rng); tw = np.array([rng.uniform(-5, 5) for _ in range(3)])
        T = np.eye(4); T[:3, :3] = R; T[:3, 3] = tw
        mesh = C.MeshGraph(np.ascontiguousarray(T), Vb, tri)
        d = np.array([rng.gauss(0, 1) for _ in range(3)])
        far = Vb[int(np.argmax(np.linalg.norm(Vb, axis=1)))]          # the longest half axis of the mesh (mesh frame)
        for q in range(30 if tier == "quick" else 100):
            mode = rng.choice(("anti", "near", "rand", "axis"))
            if ring and q < 8:
                a = math.pi / 4 + q * math.pi / 2 + (0.0 if q < 4 else 0.3)       # diagonal directions in the ring plane
                d = R @ np.array([math.cos(a), math.sin(a), 0.0])
            elif q < 2:
                d = R @ (far if q == 0 else -far)          # from one end of the mesh to the other: the longest walk of the graph
            elif mode == "anti":
                d = -d
            elif mode == "near":
                d = d + 0.05 * np.array([rng.gauss(0, 1) for _ in range(3)])
            elif mode == "axis":
                d = R @ (np.eye(3)[rng.randrange(3)] * rng.choice((-1, 1))) + 0.02 * np.array([rng.gauss(0, 1) for _ in range(3)]) * rng.choice((0, 1))
            else:
                d = np.array([rng.gauss(0, 1) for _ in range(3)])
            n += 1
            recs.append(support_record(f"s{n}", {"kind": "hull", "V": Vb, "name": s["name"]}, 1.0, R, tw, R.T @ d, mesh,
                                       "MeshGraph", False, tier=3))
    return n


def special_directions(tier, rng, recs, n0):
    """directions of tiny norm (GJK passes the current closest-point vector, down to ~1e-10) and directions
    almost but not exactly parallel / orthogonal to the shape axis"""
    n = n0
    for s in S.catalogue():
        for _ in range(2 if tier == "quick" else 8):
            R = S.random_rotation(rng) if rng.random() < 0.7 else np.array(rng.choice(S.ROTS)[0], dtype=float) / 1.0
            if abs(np.linalg.det(R) - 1) > 1e-9:
                M, N = rng.choice(S.ROTS); R = np.array(M, dtype=float) / N
            fs = S.feature_size(s)
            unit = 10 ** rng.uniform(math.log10(2e-2), math.log10(100.0 / fs))
            tw = np.array([rng.uniform(-1, 1) for _ in range(3)]) * rng.choice((0.0, 1.0, 50.0))
            for cname, coll in S.build(s, unit, R, tw).items():
                for _ in range(6):
                    ax = np.eye(3)[rng.randrange(3)] * rng.choice((-1, 1))
                    perp = np.cross(ax, np.array([rng.gauss(0, 1) for _ in range(3)]))
                    perp /= np.linalg.norm(perp)
                    kind = rng.choice(("nearaxis", "nearperp", "tiny", "tinyaxis"))
                    eps = 10 ** rng.uniform(-13, -5)
                    if kind == "nearaxis":
                        d, sc = ax + eps * perp, 1.0
                    elif kind == "nearperp":
                        d, sc = perp + eps * ax, 1.0
                    elif kind == "tiny":
                        d, sc = np.array([rng.gauss(0, 1) for _ in range(3)]), 10 ** rng.uniform(-12, -7)
                    else:
                        d, sc = ax + eps * perp, 10 ** rng.uniform(-10, -6)
                    n += 1
                    recs.append(support_record(f"s{n}", s, unit, R, tw, d, coll, cname, False, dscale=sc, tier=3))
    return n


def gen(tier, seed):
    from distance3d import colliders as C
    rng = random.Random(seed)
    cat = S.catalogue()
    dirs = S.local_dirs()
    recs, n = [], 0
    nrot = 5 if tier == "quick" else 14
    ndir = 40 if tier == "quick" else 160
    for si, s in enumerate(cat):
        rots = [S.ROTS[0]] + rng.sample(S.ROTS[1:24], max(1, nrot // 2)) + rng.sample(S.ROTS[24:], nrot - 1 - max(1, nrot // 2))
        closedd = [d for d in dirs if S.isqrt_exact(S.radicand(s, d)) is not None]
        opend = [d for d in dirs if S.isqrt_exact(S.radicand(s, d)) is None]
        for ri, (M, N) in enumerate(rots):
            unit = rng.choice((1.0, 0.5, 0.05, 4.0)) if S.feature_size(s) * 4.0 <= 100 else rng.choice((1.0, 0.5, 0.05))
            t = [rng.randint(-6, 6) for _ in range(3)] if ri else [0, 0, 0]
            R = np.array(M, dtype=float) / N
            tw = unit * np.array(t, dtype=float)
            objs = S.build(s, unit, R, tw)
            for cname, coll in objs.items():
                dsel = rng.sample(closedd, min(len(closedd), ndir)) + rng.sample(opend, min(len(opend), ndir // 4))
                # axis-parallel / zero-component directions always included
                dsel += [d for d in ((1, 0, 0), (-1, 0, 0), (0, 1, 0), (0, -1, 0), (0, 0, 1), (0, 0, -1), (1, 1, 0), (0, -1, 1)) if d not in dsel]
                rng.shuffle(dsel)      # MeshGraph: one object, arbitrary query order (history independence)
                for d in dsel:
                    n += 1
                    recs.append(support_record(f"s{n}", s, unit, R, tw, d, coll, cname, True,
                                               dscale=rng.choice((1.0, 1.0, 1e-3, 37.0))))
                for via in ("first_vertex", "center"):
                    n += 1
                    recs.append(point_record(f"s{n}", s, unit, R, tw, coll, cname, via))
                m = unit * rng.choice((1, 2))
                mc = C.Margin(coll, m)
                for d in rng.sample(closedd, min(len(closedd), max(4, ndir // 8))):
                    if S.isqrt_exact(d[0] ** 2 + d[1] ** 2 + d[2] ** 2) is None:
                        continue
                    n += 1
                    recs.append(support_record(f"s{n}", s, unit, R, tw, d, mc, "Margin(" + cname + ")", True, margin=m))
    n = mesh_histories(tier, rng, recs, n)
    n = special_directions(tier, rng, recs, n)
    # float tiers: random poses, sizes, directions
    nfl = 40 if tier == "quick" else 400
    for si, s in enumerate(cat):
        for _ in range(nfl // 8):
            R = S.random_rotation(rng)
            fs = S.feature_size(s)
            unit = 10 ** rng.uniform(math.log10(1e-2 / min(fs, 1.0) if False else 2e-2), math.log10(100.0 / fs))
            tw = np.array([rng.uniform(-1, 1) for _ in range(3)]) * rng.choice((0.0, 1.0, 100.0, 500.0))
            objs = S.build(s, unit, R, tw)
            for cname, coll in objs.items():
                for _ in range(8):
                    d = np.array([rng.gauss(0, 1) for _ in range(3)])
                    if rng.random() < 0.3:
                        d[rng.randrange(3)] = 0.0
                    if rng.random() < 0.15:
                        d = np.eye(3)[rng.randrange(3)] * rng.choice((-1, 1))
                    if not d.any():
                        continue
                    n += 1
                    recs.append(support_record(f"s{n}", s, unit, R, tw, d, coll, cname, False,
                                               dscale=10 ** rng.uniform(-3, 2), tier=3))
                for via in ("first_vertex", "center"):
                    n += 1
                    recs.append(point_record(f"s{n}", s, unit, R, tw, coll, cname, via, tier=3))
    return recs


def run(tier, seed):
    env.setup()
    res = Result("C03", tier, seed)
    recs = gen(tier, seed)
    byid = {r["id"]: r for r in recs}
    rejects = trace.judge(recs, "shapes", "ShapeTrace", "ShapeTrace.cfg", "c03", res)
    for rid, clauses in sorted(rejects.items(), key=lambda kv: int(kv[0][1:])):
        r = byid[rid]
        key = f"{r['cls']}:{r['shape']['kind']}:{r['via']}:{'+'.join(sorted(clauses))}:{chash([r['shape'], r['d'], r['tier']])}"
        res.violation(key, "+".join(sorted(clauses)), f"{r['cls']} {r['shape']} via={r['via']} d={r['d']} tier={r['tier']} "
                      f"p={r['pn']}/{r['pd']} mem={r['memticks']} ext={r['extticks']} exc={r['exc']}", {"record": r, "seed": seed})
    mc(res, tier)
    res.coverage["evaluations"] = len(recs)
    res.coverage["distinct_nontrivial"] = len({chash([r["cls"], r["shape"], r["d"], r["via"]]) for r in recs if r["tier"] == 1})
    res.coverage["exact"] = sum(1 for r in recs if r["closed"])
    res.coverage["float"] = sum(1 for r in recs if not r["closed"])
    res.coverage["rule"] = ("every collider class (and Margin wrapper) x lattice shape catalogue x exact rotations (cube + rational) x "
                            "lattice translations x local integer directions (incl. zero components, axis-parallel); directions whose "
                            "support value is rational are judged exactly, others and random poses/directions by measured residuals; "
                            "MeshGraph objects are queried in shuffled order on one object; distinct by (class, shape, direction, entry point)")
    res.coverage["samples"] = [recs[0], recs[len(recs) // 3], recs[-1]]
    res.assumptions = ["local-frame conversion uses the harness' own exact pose", "float tier: outside distance judged by a support-function lower bound"]
    return res


def mc(res, tier):
    cfg = "ShapesMC.cfg" if tier == "quick" else "ShapesMC_thorough.cfg"
    r = tlc.run("shapes", "ShapesMC", cfg=cfg, workers=16, heap="4g", timeout=3600)
    res.add_tlc(r)
    res.coverage.setdefault("mc_runs", []).append({"cfg": cfg, "states": r.distinct, "wall": round(r.wall, 1)})
    if r.invariant_violated:
        res.violation("mc:ShapesMC:" + ",".join(r.invariant_violated), "ModelInvariant",
                      "TLC: a lemma of the shape judge failed on the lattice", {"tlc_tail": r.out[-4000:]})
    elif not r.ok:
        res.machinery("TLC ShapesMC failed:\n" + r.out[-3000:])


def replay(path):
    import json
    env.setup()
    v = json.load(open(path))["replay"]
    print("re-run: ./check C03 quick with VERIF_SEED=%s; record: %s" % (v.get("seed"), json.dumps(v["record"])))
    return 1
