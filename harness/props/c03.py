"""C03 - support mappings (judge specs/shapes/ShapeJudge.tla, clauses Support*)."""
import math, random, itertools
import numpy as np
from .. import env, tlc, trace, shapes as S
from ..ratio import recon_vec, ticks
from ..result import Result, chash

TOL = 1e-9
MAXDEN = 20000


def support_record(rid, s, unit, R, tw, d_local, coll, cname, exact, dscale=1.0, margin=0.0, tier=1):
    """one support_function call; exact=True -> rational reconstruction in the local lattice frame"""
    L = S.scale_L(s, unit, tw)
    tick = TOL * L / 8
    dl = np.array(d_local, dtype=float)
    dw = np.ascontiguousarray(R @ dl * dscale)
    rad = S.radicand(s, d_local) if exact else None
    k = S.isqrt_exact(rad) if exact else None
    closed = bool(exact and k is not None)
    rec = {"id": rid, "kind": "support", "tier": tier, "cls": cname, "via": "support_function",
           "shape": {kk: v for kk, v in s.items() if kk != "name"},
           "d": [int(x) for x in d_local] if exact else [0, 0, 0], "k": int(k) if closed else 0, "closed": closed,
           "recon": False, "pn": [0, 0, 0], "pd": 1, "rticks": 0, "hn": 0, "hd": 1,
           "memticks": 0, "extticks": 0, "exc": "none"}
    try:
        pw = np.asarray(coll.support_function(dw), dtype=float)
        if margin:
            pw = pw - margin * dw / np.linalg.norm(dw)
    except Exception as e:
        rec["exc"] = type(e).__name__
        return rec
    pl = (R.T @ (pw - tw)) / unit
    if not np.all(np.isfinite(pl)):
        rec["exc"] = "NonFinite"
        return rec
    if closed:
        ok, pn, pd = recon_vec(pl, 2 * max(k, 1), TOL * L / unit)
        if ok and max(abs(c) for c in pn) > 4000:
            ok = False       # keep TLC's 32-bit integers safe
        if not ok:
            # the returned point is not a lattice rational (e.g. an arbitrary rim point for an axis-parallel
            # direction that is not exactly parallel after the float rotation): judged by the float clauses
            closed = False
            rec["closed"] = False
            rec["fallback"] = True
    if closed:
        rec["recon"], rec["pn"], rec["pd"] = True, pn, pd
        if ok:
            rec["rticks"] = ticks(float(np.linalg.norm(pl - np.array(pn) / pd)) * unit, tick)
        okh, hn, hd = recon_vec([S.support_val(s, dl)], 4, 1e-9)
        rec["hn"], rec["hd"] = (hn[0], hd) if okh else (0, 0)
    else:
        rec["memticks"] = ticks(S.outside_lower_bound(s, pl) * unit, tick)
        rec["extticks"] = ticks(abs(float(dl @ pl) - S.support_val(s, dl)) / float(np.linalg.norm(dl)) * unit, tick)
    return rec


def point_record(rid, s, unit, R, tw, coll, cname, via, tier=1):
    L = S.scale_L(s, unit, tw)
    tick = TOL * L / 8
    rec = {"id": rid, "kind": "support", "tier": tier, "cls": cname, "via": via,
           "shape": {kk: v for kk, v in s.items() if kk != "name"}, "d": [0, 0, 0], "k": 0, "closed": False,
           "recon": False, "pn": [0, 0, 0], "pd": 1, "rticks": 0, "hn": 0, "hd": 1,
           "memticks": 0, "extticks": 0, "exc": "none"}
    try:
        pw = np.asarray(getattr(coll, via)(), dtype=float)
        pl = (R.T @ (pw - tw)) / unit
        rec["memticks"] = ticks(S.outside_lower_bound(s, pl) * unit, tick)
    except Exception as e:
        rec["exc"] = type(e).__name__
    return rec


def gen(tier, seed):
    from distance3d import colliders as C
    rng = random.Random(seed)
    cat = S.catalogue()
    dirs = S.local_dirs()
    recs, n = [], 0
    nrot = 5 if tier == "quick" else 14
    ndir = 40 if tier == "quick" else 160
    for si, s in enumerate(cat):
        rots = [S.ROTS[0]] + rng.sample(S.ROTS[1:24], max(1, nrot // 2)) + rng.sample(S.ROTS[24:], nrot - 1 - max(1, nrot // 2))
        closedd = [d for d in dirs if S.isqrt_exact(S.radicand(s, d)) is not None]
        opend = [d for d in dirs if S.isqrt_exact(S.radicand(s, d)) is None]
        for ri, (M, N) in enumerate(rots):
            unit = rng.choice((1.0, 0.5, 0.05, 4.0)) if S.feature_size(s) * 4.0 <= 100 else rng.choice((1.0, 0.5, 0.05))
            t = [rng.randint(-6, 6) for _ in range(3)] if ri else [0, 0, 0]
            R = np.array(M, dtype=float) / N
            tw = unit * np.array(t, dtype=float)
            objs = S.build(s, unit, R, tw)
            for cname, coll in objs.items():
                dsel = rng.sample(closedd, min(len(closedd), ndir)) + rng.sample(opend, min(len(opend), ndir // 4))
                # axis-parallel / zero-component directions always included
                dsel += [d for d in ((1, 0, 0), (-1, 0, 0), (0, 1, 0), (0, -1, 0), (0, 0, 1), (0, 0, -1), (1, 1, 0), (0, -1, 1)) if d not in dsel]
                rng.shuffle(dsel)      # MeshGraph: one object, arbitrary query order (history independence)
                for d in dsel:
                    n += 1
                    recs.append(support_record(f"s{n}", s, unit, R, tw, d, coll, cname, True,
                                               dscale=rng.choice((1.0, 1.0, 1e-3, 37.0))))
                for via in ("first_vertex", "center"):
                    n += 1
                    recs.append(point_record(f"s{n}", s, unit, R, tw, coll, cname, via))
                m = unit * rng.choice((1, 2))
                mc = C.Margin(coll, m)
                for d in rng.sample(closedd, min(len(closedd), max(4, ndir // 8))):
                    if S.isqrt_exact(d[0] ** 2 + d[1] ** 2 + d[2] ** 2) is None:
                        continue
                    n += 1
                    recs.append(support_record(f"s{n}", s, unit, R, tw, d, mc, "Margin(" + cname + ")", True, margin=m))
    # float tiers: random poses, sizes, directions
    nfl = 40 if tier == "quick" else 400
    for si, s in enumerate(cat):
        for _ in range(nfl // 8):
            R = S.random_rotation(rng)
            fs = S.feature_size(s)
            unit = 10 ** rng.uniform(math.log10(1e-2 / min(fs, 1.0) if False else 2e-2), math.log10(100.0 / fs))
            tw = np.array([rng.uniform(-1, 1) for _ in range(3)]) * rng.choice((0.0, 1.0, 100.0, 500.0))
            objs = S.build(s, unit, R, tw)
            for cname, coll in objs.items():
                for _ in range(8):
                    d = np.array([rng.gauss(0, 1) for _ in range(3)])
                    if rng.random() < 0.3:
                        d[rng.randrange(3)] = 0.0
                    if rng.random() < 0.15:
                        d = np.eye(3)[rng.randrange(3)] * rng.choice((-1, 1))
                    if not d.any():
                        continue
                    n += 1
                    recs.append(support_record(f"s{n}", s, unit, R, tw, d, coll, cname, False,
                                               dscale=10 ** rng.uniform(-3, 2), tier=3))
                for via in ("first_vertex", "center"):
                    n += 1
                    recs.append(point_record(f"s{n}", s, unit, R, tw, coll, cname, via, tier=3))
    return recs


def run(tier, seed):
    env.setup()
    res = Result("C03", tier, seed)
    recs = gen(tier, seed)
    byid = {r["id"]: r for r in recs}
    rejects = trace.judge(recs, "shapes", "ShapeTrace", "ShapeTrace.cfg", "c03", res)
    for rid, clauses in sorted(rejects.items(), key=lambda kv: int(kv[0][1:])):
        r = byid[rid]
        key = f"{r['cls']}:{r['shape']['kind']}:{r['via']}:{'+'.join(sorted(clauses))}:{chash([r['shape'], r['d'], r['tier']])}"
        res.violation(key, "+".join(sorted(clauses)), f"{r['cls']} {r['shape']} via={r['via']} d={r['d']} tier={r['tier']} "
                      f"p={r['pn']}/{r['pd']} mem={r['memticks']} ext={r['extticks']} exc={r['exc']}", {"record": r, "seed": seed})
    mc(res, tier)
    res.coverage["evaluations"] = len(recs)
    res.coverage["distinct_nontrivial"] = len({chash([r["cls"], r["shape"], r["d"], r["via"]]) for r in recs if r["tier"] == 1})
    res.coverage["exact"] = sum(1 for r in recs if r["closed"])
    res.coverage["float"] = sum(1 for r in recs if not r["closed"])
    res.coverage["rule"] = ("every collider class (and Margin wrapper) x lattice shape catalogue x exact rotations (cube + rational) x "
                            "lattice translations x local integer directions (incl. zero components, axis-parallel); directions whose "
                            "support value is rational are judged exactly, others and random poses/directions by measured residuals; "
                            "MeshGraph objects are queried in shuffled order on one object; distinct by (class, shape, direction, entry point)")
    res.coverage["samples"] = [recs[0], recs[len(recs) // 3], recs[-1]]
    res.assumptions = ["local-frame conversion uses the harness' own exact pose", "float tier: outside distance judged by a support-function lower bound"]
    return res


def mc(res, tier):
    cfg = "ShapesMC.cfg" if tier == "quick" else "ShapesMC_thorough.cfg"
    r = tlc.run("shapes", "ShapesMC", cfg=cfg, workers=16, heap="4g", timeout=3600)
    res.add_tlc(r)
    res.coverage.setdefault("mc_runs", []).append({"cfg": cfg, "states": r.distinct, "wall": round(r.wall, 1)})
    if r.invariant_violated:
        res.violation("mc:ShapesMC:" + ",".join(r.invariant_violated), "ModelInvariant",
                      "TLC: a lemma of the shape judge failed on the lattice", {"tlc_tail": r.out[-4000:]})
    elif not r.ok:
        res.machinery("TLC ShapesMC failed:\n" + r.out[-3000:])


def replay(path):
    import json
    env.setup()
    v = json.load(open(path))["replay"]
    print("re-run: ./check C03 quick with VERIF_SEED=%s; record: %s" % (v.get("seed"), json.dumps(v["record"])))
    return 1
