"""C12 - symmetry in the arguments, rigid-motion invariance, scaling (judge: DistanceJudge.tla, kind "pair")."""
import math, random
import numpy as np
from .. import env, trace, narrow as NW, prims as PR, shapes as S
from ..ratio import ticks
from ..result import Result, chash
from . import c10

STRICT = ("sphere", "ellipsoid")


def compose(g, lift):
    """similarity g = (k, Rg, tg) after lift (s, R, t): x -> k Rg (s R x + t) + tg"""
    k, Rg, tg = g
    s, R, t = lift
    return (k * s, Rg @ R, k * (Rg @ t) + tg)


def rand_motion(rng, rel, room):
    if rel == "scale":
        k = 10 ** rng.uniform(math.log10(room[0]), math.log10(room[1]))
        return (k, np.eye(3), np.zeros(3))
    R = S.random_rotation(rng) if rng.random() < 0.8 else np.array(rng.choice(S.CUBE)[0], dtype=float)
    t = np.array([rng.uniform(-1, 1) for _ in range(3)]) * rng.choice((1.0, 30.0, 400.0))
    return (1.0, R, t)


def pair_record(rid, rel, tol, L, d1, d2_expected_from, pts, unique, bools, band, exc):
    rec = {"id": rid, "kind": "pair", "rel": rel, "exc": exc, "dticks": 0, "pticks": 0, "unique": bool(unique), "boolSame": True, "band": bool(band)}
    if exc != "none":
        return rec
    rec["dticks"] = max([ticks(abs(a - b), tol * L / 8) for a, b in d2_expected_from] or [0])
    # points are determined only to first order by a distance that is accurate to tol (a tangential shift delta changes the
    # distance by delta^2 / 2R), so they are compared at 100 * tol: frame and ordering errors are O(1)
    rec["pticks"] = max([ticks(float(np.linalg.norm(np.asarray(a) - np.asarray(b))), 100 * tol * L / 8) for a, b in pts] or [0])
    rec["boolSame"] = all(a == b for a, b in bools)
    return rec


def narrow_queries():
    from distance3d import gjk, mpr, epa

    def q_gjk(a, b):
        d, p, q, _ = gjk.gjk_distance_jolt(a, b, max_distance_squared=float("inf"))
        return {"scalars": [d], "pointsA": [p], "pointsB": [q], "vectors": [], "bools": [d == 0.0]}

    def q_orig(a, b):
        d, p, q = gjk.gjk_distance_original(a, b)[:3]
        return {"scalars": [d], "pointsA": [p], "pointsB": [q], "vectors": [], "bools": []}

    def q_bool(fn):
        return lambda a, b: {"scalars": [], "pointsA": [], "pointsB": [], "vectors": [], "bools": [bool(fn(a, b))]}

    def q_mpr(a, b):
        hit, depth, direction, pos = mpr.mpr_penetration(a, b)
        if not hit:
            return {"scalars": [], "pointsA": [], "pointsB": [], "vectors": [], "bools": [False]}
        # MPR's depth is measured along its own origin ray (C08 bounds it from below only), so it is not a function
        # of the scene alone: only the boolean answer is related
        return {"scalars": [], "pointsA": [], "pointsB": [], "vectors": [], "bools": [True]}

    def q_epa(a, b):
        d, p, q, Y = gjk.gjk_distance_jolt(a, b, max_distance_squared=float("inf"))
        if d > 0.0:
            return {"scalars": [], "pointsA": [], "pointsB": [], "vectors": [], "bools": [False]}
        mtv, _, ok = epa.epa(Y, a, b)
        if not ok:
            return {"scalars": [], "pointsA": [], "pointsB": [], "vectors": [], "bools": [True]}
        return {"scalars": [float(np.linalg.norm(mtv))], "pointsA": [], "pointsB": [], "vectors": [mtv], "bools": [True]}
    return {"gjk": (q_gjk, 1e-5), "gjk_distance_original": (q_orig, 1e-3), "gjk_intersection": (q_bool(gjk.gjk_intersection), 1e-3),
            "gjk_intersection_libccd": (q_bool(gjk.gjk_intersection_libccd), 1e-3), "mpr_intersection": (q_bool(mpr.mpr_intersection), 1e-3),
            "gjk_nesterov_accelerated_distance": (lambda a, b: {"scalars": [gjk.gjk_nesterov_accelerated_distance(a, b)], "pointsA": [], "pointsB": [],
                                                                  "vectors": [], "bools": []}, 1e-3),
            "mpr_penetration": (q_mpr, 2e-3)}


def relate_narrow(rid, name, q, tol, A, B, lift, rel, rng, band, unique, polytopes):
    """run q on the scene and on its related scene; returns the pair record"""
    s = lift[0]
    L = NW.scene_L(A, B, lift)
    try:
        with NW.time_limit(30.0):
            r1 = q(A.build(lift), B.build(lift))
            if rel == "swap":
                r2 = q(B.build(lift), A.build(lift))
                g = (1.0, np.eye(3), np.zeros(3))
            else:
                size = max(A.size(), B.size(), 1.0) * s
                room = (max(2.5e-2 / (min(NW._minfeat(A), NW._minfeat(B)) * s), 0.05), min(100.0 / size, 20.0))
                g = rand_motion(rng, rel, room)
                l2 = compose(g, lift)
                r2 = q(A.build(l2), B.build(l2))
    except NW.Hang:
        return pair_record(rid, rel, tol, L, None, [], [], False, [], band, "Hang")
    except AssertionError:
        # EPA's documented capacity assertion on smooth shapes: no relation to judge
        return pair_record(rid, rel, tol, L, None, [], [], False, [], True, "none")
    except Exception as e:
        return pair_record(rid, rel, tol, L, None, [], [], False, [], band, type(e).__name__)
    k, Rg, tg = g
    L2 = max(L, k * L)
    mp = lambda p: k * (Rg @ np.asarray(p, dtype=float)) + tg
    mv = lambda v: k * (Rg @ np.asarray(v, dtype=float))
    if len(r1["scalars"]) != len(r2["scalars"]) or len(r1["vectors"]) != len(r2["vectors"]):
        # one run produced a result the other did not (e.g. overlap decision): a boolean disagreement
        return pair_record(rid, rel, tol, L2, None, [], [], False, list(zip(r1["bools"], r2["bools"])) or [(True, False)], band, "none")
    scal = [(k * a, b) for a, b in zip(r1["scalars"], r2["scalars"])]
    if rel == "swap":
        pts = list(zip(r1["pointsA"], r2["pointsB"])) + list(zip(r1["pointsB"], r2["pointsA"])) + \
              [(-np.asarray(a), np.asarray(b)) for a, b in zip(r1["vectors"], r2["vectors"])]
    else:
        pts = [(mp(a), b) for a, b in zip(r1["pointsA"], r2["pointsA"])] + [(mp(a), b) for a, b in zip(r1["pointsB"], r2["pointsB"])] + \
              [(mv(a), b) for a, b in zip(r1["vectors"], r2["vectors"])]
    uq = unique if name in ("gjk", "gjk_distance_original") else (unique and name in ("mpr_penetration", "epa") and False)
    return pair_record(rid, rel, tol, L2, None, scal, pts, uq, list(zip(r1["bools"], r2["bools"])), band, "none")


def gen(tier, seed):
    rng = random.Random(seed)
    from .c02 import warmup
    warmup()
    recs, meta, n = [], {}, 0
    Q = narrow_queries()
    for A, B in NW.gen_scenes(rng, 220 if tier == "quick" else 4000):
        lift = NW.random_lift(rng, A, B, rng.choice(("id", "scale", "rigid")))
        L = NW.scene_L(A, B, lift)
        cert = NW.exact_certificate(A, B)
        # decision band: unless the scene is clearly overlapping or clearly separated, booleans are not compared
        dl = 2e-3 * L / lift[0]
        fo, fg = NW.float_flags(A, B, dl / 10 * 1.0)
        clear = NW.deep_overlap(A, B, cert, dl) or fg
        disjoint = fg
        unique = disjoint and (A.spec["kind"] in STRICT or B.spec["kind"] in STRICT) and not A.margin and not B.margin
        for name, (q, tol) in Q.items():
            if rng.random() < 0.4:
                continue
            for rel in ("swap", "rigid", "scale"):
                if rng.random() < 0.35:
                    continue
                n += 1
                rid = f"r{n}"
                recs.append(relate_narrow(rid, name, q, tol, A, B, lift, rel, rng, not clear, unique, cert is not None))
                meta[rid] = {"fn": name, "rel": rel, "A": A.describe(), "B": B.describe(), "lift": [lift[0], lift[1].tolist(), lift[2].tolist()]}
    # primitives: rigid motion and scaling of every function; swap for the symmetric ones
    from distance3d import distance as D
    per = 20 if tier == "quick" else 400
    for fname in PR.FUNCTIONS:
        ka, kb = PR.kinds_of(fname)
        for _ in range(per):
            A, B, _ = c10.make_pair(ka, kb, rng)
            lift = c10.prim_lift(rng, A, B, rng.choice(("id", "rigid1")))
            L = max(1.0, lift[0] * A.size(), lift[0] * B.size(), lift[0] * float(np.linalg.norm(A.anchor() - B.anchor())))
            for rel in (("rigid", "scale", "swap") if ka == kb else ("rigid", "scale")):
                n += 1
                rid = f"r{n}"
                exc, scal, pts, uq = "none", [], [], ka == "point" and kb != "circle"
                try:
                    o1 = getattr(D, fname)(*(A.args(lift) + B.args(lift)))
                    if rel == "swap":
                        o2 = getattr(D, fname)(*(B.args(lift) + A.args(lift)))
                        scal = [(float(o1[0]), float(o2[0]))]
                        L2 = L
                    else:
                        size = max(A.size(), B.size(), 1.0) * lift[0]
                        room = (max(0.21 / (min(A.minfeat(), B.minfeat()) * lift[0]), 0.05), min(100.0 / size, 20.0))
                        g = rand_motion(rng, rel, room)
                        l2 = compose(g, lift)
                        o2 = getattr(D, fname)(*(A.args(l2) + B.args(l2)))
                        k, Rg, tg = g
                        L2 = max(L, k * L)
                        scal = [(k * float(o1[0]), float(o2[0]))]
                        pts = [(k * (Rg @ np.asarray(a)) + tg, np.asarray(b)) for a, b in zip(o1[1:], o2[1:])]
                except Exception as e:
                    exc = type(e).__name__
                    L2 = L
                tol = 5e-3 if fname == "line_to_circle" else 1e-6
                recs.append(pair_record(rid, rel, tol, L2, None, scal, pts, uq, [], False, exc))
                meta[rid] = {"fn": fname, "rel": rel, "A": A.describe(), "B": B.describe(), "lift": [lift[0], lift[1].tolist(), lift[2].tolist()]}
    # pinned scene of the known finding (line_segment_to_circle returns a local minimum in this pose)
    import json, os
    m = json.load(open(os.path.join(os.path.dirname(__file__), "..", "pinned", "c11_segcircle.json")))
    da, db = dict(m["A"]), dict(m["B"])
    A, B = PR.Prim(da.pop("kind"), **da), PR.Prim(db.pop("kind"), **db)
    lift = (m["lift"][0], np.array(m["lift"][1]), np.array(m["lift"][2]))
    g = (1.0, np.eye(3), np.array([1.0, 2.0, 3.0]))
    o1 = D.line_segment_to_circle(*(A.args(NW.IDENT) + B.args(NW.IDENT)))
    o2 = D.line_segment_to_circle(*(A.args(lift) + B.args(lift)))
    n += 1
    recs.append(pair_record(f"r{n}", "rigid", 1e-6, 10.0, None, [(float(o1[0]), float(o2[0]))], [], False, [], False, "none"))
    meta[f"r{n}"] = {"fn": "line_segment_to_circle", "rel": "rigid", "A": A.describe(), "B": B.describe(), "lift": m["lift"], "pinned": True}
    A, B = PR.Prim("disk", c=[4, 0, 0], r=3, n=[-1, -2, -2]), PR.Prim("disk", c=[7, 1, -3], r=3, n=[-4, 1, 1])
    o1 = D.disk_to_disk(*(A.args(NW.IDENT) + B.args(NW.IDENT)))
    o2 = D.disk_to_disk(*(B.args(NW.IDENT) + A.args(NW.IDENT)))
    n += 1
    recs.append(pair_record(f"r{n}", "swap", 1e-6, 8.0, None, [(float(o1[0]), float(o2[0]))], [], False, [], False, "none"))
    meta[f"r{n}"] = {"fn": "disk_to_disk", "rel": "swap", "A": A.describe(), "B": B.describe(), "lift": [1.0, np.eye(3).tolist(), [0, 0, 0]], "pinned": True}
    return recs, meta


def run(tier, seed):
    env.setup()
    res = Result("C12", tier, seed)
    recs, meta = gen(tier, seed)
    byid = {r["id"]: r for r in recs}
    rejects = trace.judge(recs, "narrow", "NarrowTrace", "NarrowTrace.cfg", "c12", res)
    for rid, clauses in sorted(rejects.items(), key=lambda kv: int(kv[0][1:])):
        m, r = meta[rid], byid[rid]
        key = f"{m['fn']}:{m['rel']}:{'+'.join(sorted(clauses))}:{chash([m['A'], m['B'], m['lift']])}"
        res.violation(key, "+".join(sorted(clauses)), f"{m['fn']} {m['rel']} ({m['A']}, {m['B']}) lift_s={m['lift'][0]:.4g} dticks={r['dticks']} "
                      f"pticks={r['pticks']} unique={r['unique']} boolSame={r['boolSame']} band={r['band']} exc={r['exc']}", {"meta": m, "record": r, "seed": seed})
    res.coverage["evaluations"] = len(recs)
    res.coverage["by_relation"] = {rel: sum(1 for r in recs if r["rel"] == rel) for rel in ("swap", "rigid", "scale")}
    res.coverage["points_compared"] = sum(1 for r in recs if r["unique"])
    res.coverage["distinct_nontrivial"] = len({chash([m["fn"], m["rel"], m["A"], m["B"]]) for m in meta.values()})
    res.coverage["rule"] = ("queries of C01, C02, C07-C11 (Jolt and original GJK distance, three boolean tests, Nesterov distance, MPR penetration, "
                            "EPA, all 34 primitive functions) on lattice scenes; each run is paired with the run on the swapped / rigidly moved / "
                            "uniformly scaled scene; scalars always compared, booleans outside the decision band, points only where the optimum "
                            "is unique (a strictly convex body and a clear gap; point-to-convex-primitive queries)")
    res.coverage["samples"] = [meta[recs[0]["id"]], recs[0], recs[-1]]
    res.assumptions = ["relations need no oracle; uniqueness and the decision band are established by sufficient conditions of the harness"]
    return res


def replay(path):
    import json
    v = json.load(open(path))["replay"]
    print(json.dumps(v["meta"]))
    return 1
