"""C14 - collider life cycle (explorer specs/c14/ColliderLife.tla, trace spec ColliderLifeTrace.tla)."""
import json, math, os, random, re
import numpy as np
from .. import env, tlc, shapes as S
from ..ratio import ticks
from ..result import Result, chash
from ..env import WORK

TOL = 1e-9
STORAGE = {"Box": "refcache", "MeshGraph": "refcache", "Capsule": "ref", "Cylinder": "ref", "Cone": "ref", "Ellipsoid": "ref",
           "Sphere": "view", "Disk": "view", "Ellipse": "view"}


def spec_histories(res, tier):
    """model checking of the explorer for every storage kind; returns the caller histories TLC visited"""
    hists = {}
    cfgs = ["Life_ref_FALSE.cfg", "Life_refcache_FALSE.cfg", "Life_view_FALSE.cfg", "Life_copy_FALSE.cfg", "Life_emit.cfg"]
    for cfg in cfgs:
        if tier == "quick" and cfg in ("Life_copy_FALSE.cfg", "Life_refcache_FALSE.cfg"):
            continue
        r = tlc.run("c14", "ColliderLife", cfg=cfg, workers=16, heap="6g", timeout=3600)
        res.add_tlc(r)
        res.coverage.setdefault("mc_runs", []).append({"cfg": cfg, "states": r.distinct, "wall": round(r.wall, 1)})
        if r.invariant_violated:
            res.violation(f"mc:{cfg}:{','.join(r.invariant_violated)}", "ModelInvariant",
                          f"TLC: {r.invariant_violated} violated on the collider storage model {cfg}", {"tlc_tail": r.out[-4000:]})
        elif not r.ok:
            res.machinery(f"TLC ColliderLife {cfg} failed:\n" + r.out[-2000:])
        for m in re.finditer(r'<<"HIST", "(.*)">>', r.out):
            js = m.group(1).encode().decode("unicode_escape")
            hists[js] = json.loads(js)
    # the write-through design (update_pose copies into the array taken at construction) must fail: vacuity guard
    r = tlc.run("c14", "ColliderLife", cfg="Life_writethrough_FALSE.cfg", workers=4, heap="2g", timeout=3600)
    res.add_tlc(r)
    if "Equivalent" not in r.invariant_violated:
        res.machinery("the write-through storage design did not violate Equivalent in ColliderLife (vacuous model)")
    return list(hists.values())


def rand_pose(rng, kind):
    if kind == "lattice":
        M, N = rng.choice(S.ROTS)
        R = np.array(M, dtype=float) / N
        t = np.array([rng.randint(-5, 5) for _ in range(3)], dtype=float)
    else:
        R = S.random_rotation(rng)
        t = np.array([rng.uniform(-1, 1) for _ in range(3)]) * rng.choice((1.0, 20.0, 300.0))
    T = np.eye(4); T[:3, :3] = R; T[:3, 3] = t
    return T


def make(cls, s, unit, T):
    """a collider of class cls constructed 'directly at pose T' with fresh arrays"""
    R, tw = T[:3, :3].copy(), T[:3, 3].copy()
    return S.build(s, unit, R, tw, cls)[cls]


def construct_from_array(cls, s, unit, arr, cbuf=None):
    """construction that hands the caller's 4x4 array itself to the constructor where the class takes a pose matrix"""
    from distance3d import colliders as C
    k = s["kind"]
    if cls == "Box":
        return C.Box(arr, unit * np.array([s["a"], s["b"], s["c"]], dtype=float))
    if cls == "Capsule":
        return C.Capsule(arr, unit * s["r"], unit * s["h"])
    if cls == "Cylinder":
        return C.Cylinder(arr, unit * s["r"], unit * s["h"])
    if cls == "Cone":
        return C.Cone(arr, unit * s["r"], unit * s["h"])
    if cls == "Ellipsoid":
        return C.Ellipsoid(arr, unit * np.array([s["a"], s["b"], s["c"]], dtype=float))
    if cls == "MeshGraph":
        return C.MeshGraph(arr, np.ascontiguousarray(np.array(s["V"], dtype=float) * unit), S.hull_triangles(s["V"]))
    # Sphere, Disk, Ellipse take centre / normal / axes, not a matrix: the centre is handed over as the caller's own contiguous
    # buffer (a row of a centre table that goes with the pose array), so that colliders constructed "from one array" share it
    R = np.array(arr[:3, :3], dtype=float)
    if cbuf is None:
        return make(cls, s, unit, arr)
    if cls == "Sphere":
        return C.Sphere(cbuf, unit * s["r"])
    if cls == "Disk":
        return C.Disk(cbuf, unit * s["r"], np.ascontiguousarray(R[:, 2]).copy())
    if cls == "Ellipse":
        ref = make(cls, s, unit, arr)
        return C.Ellipse(cbuf, np.ascontiguousarray(ref.axes).copy(), np.ascontiguousarray(ref.radii).copy())
    return make(cls, s, unit, arr)


FIXED_DIRS = [np.array(v, dtype=float) for v in ((0.3, -0.5, 0.8), (1, 0, 0), (0, -1, 0), (0, 0, 1), (-1, 1, 0), (2, 1, -2))]


PRIM = ("Sphere", "Capsule", "Box", "Ellipsoid", "Cylinder")


def alt_queries(c, twin, probe, probe2, L):
    """the other distance / collision algorithms on (collider, probe) in both argument orders, against the fresh twin.  Every
    function is asked (collider, box probe) first and again last, so that across a pose update the first call of an observation
    repeats the last call of the previous one with the very same objects (a per-function 'last pair' memo would be hit).  Differences in ticks of 1e-3*L/8 (tolerance of C09 / C08)."""
    from distance3d import gjk, mpr
    prim = lambda x: type(x).__name__ in PRIM
    fns = [("orig", lambda a, b: float(gjk.gjk_distance_original(a, b)[0]), lambda a, b: True),
           ("nest", lambda a, b: float(gjk.gjk_nesterov_accelerated_distance(a, b)), lambda a, b: True),
           ("nestp", lambda a, b: float(gjk.gjk_nesterov_accelerated_primitives_distance(a, b)), lambda a, b: prim(a) and prim(b)),
           ("libccd", lambda a, b: 1.0 * bool(gjk.gjk_intersection_libccd(a, b)), lambda a, b: True),
           ("mpr", lambda a, b: 1.0 * bool(mpr.mpr_intersection(a, b)), lambda a, b: True)]
    d0 = float(gjk.gjk(twin, probe2)[0])
    worst = 0
    for pr in (probe2, probe):
        for name, f, ok in fns:
            for swap in (False, True):
                args = (lambda x: (pr, x)) if swap else (lambda x: (x, pr))
                if not ok(*args(c)):
                    continue
                def call(x):
                    try:
                        return f(*args(x)), None
                    except Exception as e:            # an algorithm that does not accept the pair must refuse both alike
                        return None, type(e).__name__
                (v1, e1), (v2, e2) = call(c), call(twin)
                if e1 or e2:
                    if e1 != e2:
                        worst = max(worst, 100)
                    continue
                if name in ("libccd", "mpr"):
                    dref = float(gjk.gjk(twin, pr)[0])
                    if v1 != v2 and dref > 2e-3 * L:          # booleans are compared for clear gaps only (band of C02)
                        worst = max(worst, 100)
                else:
                    worst = max(worst, ticks(abs(v1 - v2), 1e-3 * L / 8))
    for name, f, ok in fns:
        # the last call of every function is the first call of the next observation: (collider, box probe)
        if ok(c, probe2):
            try:
                f(c, probe2)
            except Exception:
                pass
    return worst


def compare(c, twin, probe, L, rng, probe2=None):
    """measured differences between a collider and its fresh twin, in ticks of 1e-9*L/8"""
    from distance3d import gjk
    tick = TOL * L / 8
    out = {"support": 0, "aabb": 0, "center": 0, "first": 0, "pose": 0, "gjk": 0, "alt": 0, "exc": "none"}
    try:
        queries_first = rng.random() < 0.5
        if queries_first:             # narrow-phase queries first, so that the support queries below come last
            d1 = gjk.gjk(c, probe)[0]
            d2 = gjk.gjk(twin, probe)[0]
            i1, i2 = gjk.gjk_intersection(c, probe), gjk.gjk_intersection(twin, probe)
            out["gjk"] = ticks(abs(d1 - d2), 1e-5 * L / 8) + (0 if i1 == i2 or min(d1, d2) < 1e-3 * L else 100)
            out["alt"] = alt_queries(c, twin, probe, probe2, L)
        worst = 0.0
        # a fixed direction list that starts and ends with the same direction: the last query before a pose update
        # and the first query after it ask the same direction
        dirs = [FIXED_DIRS[0]] + [FIXED_DIRS[1 + rng.randrange(len(FIXED_DIRS) - 1)] for _ in range(3)] + \
               [np.array([rng.gauss(0, 1) for _ in range(3)])] + [FIXED_DIRS[0]]
        for d in dirs:
            d = np.ascontiguousarray(d, dtype=float)
            p1, p2 = np.asarray(c.support_function(d)), np.asarray(twin.support_function(d))
            worst = max(worst, abs(float(d @ p1) - float(d @ p2)) / float(np.linalg.norm(d)))
        out["support"] = ticks(worst, tick)
        out["aabb"] = ticks(float(np.max(np.abs(np.asarray(c.aabb()) - np.asarray(twin.aabb())))), tick)
        out["center"] = ticks(float(np.max(np.abs(np.asarray(c.center()) - np.asarray(twin.center())))), tick)
        out["first"] = ticks(float(np.max(np.abs(np.asarray(c.first_vertex()) - np.asarray(twin.first_vertex())))), tick)
        out["pose"] = ticks(float(np.max(np.abs(np.asarray(c.collider2origin()) - np.asarray(twin.collider2origin())))), tick)
        if not queries_first:
            # support queries were the first thing asked (right after a pose update the very direction asked last before it);
            # the other algorithms follow, and the last support direction is restored for the next observation
            out["alt"] = alt_queries(c, twin, probe, probe2, L)
            c.support_function(np.ascontiguousarray(FIXED_DIRS[0], dtype=float))
    except Exception as e:
        out["exc"] = type(e).__name__
    return out


def replay_history(hid, hist, cls, s, unit, posevals, rng, margin):
    """run one caller history on real colliders of one class; returns trace events"""
    from distance3d import colliders as C
    ev = [{"ev": "new", "id": hid}]
    arrays, cols, lastval = {}, {}, {}
    stack = np.zeros((64, 4, 4))            # arrays are items of one pose stack
    ctable = np.zeros((64, 3))              # the caller's centre table: row k goes with pose array k
    cent, written = {}, {}
    slot = {}

    def intact():
        """every array the caller owns still holds what the caller wrote last (the library must not write into them)"""
        return all(np.array_equal(arrays[a], written[a]) and np.array_equal(cent[a], written[a][:3, 3]) for a in arrays)
    probe = C.Sphere(np.array([0.3, -0.2, 0.1]), 0.5)
    Tp = np.eye(4); Tp[:3, 3] = [-0.4, 0.6, -0.2]
    probe2 = C.Box(Tp, np.array([0.6, 0.4, 0.5]))
    L = max(1.0, unit * S.feature_size(s), max(float(np.linalg.norm(P[:3, 3])) for P in posevals.values()))
    k = 0
    for step, h in enumerate(hist):
        op, c = h["op"], h["c"]
        if op in ("construct", "update"):
            a, p = h["a"], h["p"]
            if a not in arrays:
                slot[a] = len(slot)
                arrays[a] = stack[slot[a]] if len(slot) % 2 else np.zeros((4, 4))     # stack item or stand-alone array
            if a not in cent:
                cent[a] = ctable[slot[a]]
            arrays[a][:, :] = posevals[p]                        # (re)written in place by the caller
            cent[a][:] = posevals[p][:3, 3]
            written[a] = np.array(posevals[p], dtype=float)
            if op == "construct":
                obj = construct_from_array(cls, s, unit, arrays[a], cent[a])
                cols[c] = C.Margin(obj, margin) if margin else obj
            else:
                try:
                    cols[c].update_pose(arrays[a])
                except Exception as e:
                    ev.append({"ev": "observe", "id": f"{hid}.{step}", "c": c, "twinPose": p, "support": 0, "aabb": 0, "center": 0,
                               "first": 0, "pose": 0, "gjk": 0, "alt": 0, "callerIntact": True, "exc": "update_pose:" + type(e).__name__})
            lastval[c] = p
            ev.append({"ev": op, "id": f"{hid}.{step}", "c": c, "a": a, "p": p})
        else:
            twin = make(cls, s, unit, posevals[lastval[c]])
            if margin:
                twin = C.Margin(twin, margin)
            o = compare(cols[c], twin, probe, L, rng, probe2)
            o.update({"ev": "observe", "id": f"{hid}.{step}", "c": c, "twinPose": lastval[c], "callerIntact": bool(intact())})
            ev.append(o)
    return ev


def judge_events(res, per_history, name):
    os.makedirs(os.path.join(WORK, "traces"), exist_ok=True)
    nsh = max(1, min(16, len(per_history) // 50 + 1))
    paths, counts = [], []
    for sh in range(nsh):
        p = os.path.join(WORK, "traces", f"{name}_{os.getpid()}_{sh}.ndjson")
        n = 0
        with open(p, "w") as fh:
            for evs in per_history[sh::nsh]:
                for e in evs:
                    fh.write(json.dumps(e, separators=(",", ":")) + "\n")
                    n += 1
            fh.write(json.dumps({"ev": "end", "id": "end", "count": n}) + "\n")
        paths.append(p); counts.append(n + 1)
    outs = tlc.run_many([dict(spec_dir="c14", module="ColliderLifeTrace", cfg="ColliderLifeTrace.cfg", workers=1,
                              env={"TRACE_FILE": p}, heap="2g", timeout=3600, tag=f"{name}_{i}") for i, p in enumerate(paths)])
    rejects = {}
    for r, p, n in zip(outs, paths, counts):
        res.add_tlc(r)
        if not r.ok or "JUDGED" not in r.out:
            res.machinery(f"ColliderLifeTrace did not consume {p}:\n" + r.out[-2500:])
            continue
        try:
            from ..trace import parse_rejects
            rejects.update(parse_rejects(r.out))
        except ValueError as e:
            res.machinery(f"{e} for {p}")
        res.coverage["traces_validated_against_impl"] += n
        os.remove(p)
    return rejects


def long_histories(rng, n):
    """harness-driven histories beyond the model's bound: many small steps, revisits, two colliders"""
    out = []
    for _ in range(n):
        h = [{"op": "construct", "c": "c1", "a": "a1", "p": "P1"}]
        if rng.random() < 0.5:
            h.append({"op": "construct", "c": "c2", "a": rng.choice(("a1", "a2")), "p": "P1"})
        alive = {x["c"] for x in h}
        for _ in range(rng.randint(3, 12)):
            c = rng.choice(sorted(alive))
            if rng.random() < 0.55:
                h.append({"op": "update", "c": c, "a": rng.choice(("a3", "a4", "a5")) + c, "p": rng.choice(("P1", "P2", "P3", "P4"))})
            else:
                h.append({"op": "observe", "c": c, "a": "-", "p": "-"})
        for c in sorted(alive):
            h.append({"op": "observe", "c": c, "a": "-", "p": "-"})
        out.append(h)
    return out


def run(tier, seed):
    env.setup()
    rng = random.Random(seed)
    res = Result("C14", tier, seed)
    hists = spec_histories(res, tier)
    res.coverage["spec_histories"] = len(hists)
    rng.shuffle(hists)

    def features(h):
        """coarse pattern class of a caller history; the selection takes equally many of every class"""
        holders, lastp, seen_arr = {}, {}, set()
        shared_then_update = obs_other = rewrite = False
        nupd, lastupd = 0, None
        for x in h:
            if x["op"] == "construct":
                holders.setdefault(x["a"], set()).add(x["c"])
            if x["op"] == "update":
                nupd += 1
                if any(len(v) == 2 for v in holders.values()) and lastp.get(x["c"]) != x["p"]:
                    shared_then_update = True
                if x["a"] in seen_arr:
                    rewrite = True
                for v in holders.values():
                    v.discard(x["c"])
                holders.setdefault(x["a"], set()).add(x["c"])
                lastupd = x["c"]
            if x["op"] in ("construct", "update"):
                lastp[x["c"]] = x["p"]; seen_arr.add(x["a"])
            if x["op"] == "observe" and lastupd is not None and x["c"] != lastupd and shared_then_update:
                obs_other = True
        return (shared_then_update, obs_other, rewrite, min(nupd, 2))
    buckets = {}
    for h in hists:
        buckets.setdefault(features(h), []).append(h)
    nsel = 270 if tier == "quick" else 3000
    sel, k = [], 0
    keys = sorted(buckets)
    while len(sel) < nsel and any(buckets.values()):
        b = buckets[keys[k % len(keys)]]
        if b:
            sel.append(b.pop())
        k += 1
    hists = sel
    res.coverage["history_classes"] = len(keys)
    hists = hists + long_histories(rng, 60 if tier == "quick" else 1500)
    cat = {c: [s for s in S.catalogue() if c in {"hull": ["MeshGraph"], "box": ["Box"], "sphere": ["Sphere"], "capsule": ["Capsule"],
           "cylinder": ["Cylinder"], "cone": ["Cone"], "ellipsoid": ["Ellipsoid"], "disk": ["Disk"], "ellipse": ["Ellipse"]}[s["kind"]]]
           for c in STORAGE}
    # memo patterns for EVERY class (with and without Margin): observe, pose rewritten in place and passed again, observe - the
    # first query after the update repeats the last query before it with the very same collider and array objects
    O = {"op": "observe", "c": "c1", "a": "-", "p": "-"}
    memo = [[{"op": "construct", "c": "c1", "a": "a1", "p": "P1"}, O, {"op": "update", "c": "c1", "a": "a1", "p": "P2"}, O],
            [{"op": "construct", "c": "c1", "a": "a1", "p": "P1"}, O, {"op": "update", "c": "c1", "a": "a2", "p": "P2"}, O,
             {"op": "update", "c": "c1", "a": "a2", "p": "P3"}, O, {"op": "update", "c": "c1", "a": "a1", "p": "P1"}, O]]
    forced = []
    for cls0 in sorted(STORAGE):
        for mg in (False, True):
            for h in memo:
                forced.append((h, cls0, mg, None))
        # the same pattern with pose values that differ by a rotation of about 1e-6 rad (seeds C03-8, C14-9: cached axes /
        # vertices that are refreshed only when the new pose is not "close" to the old one)
        forced.append((memo[1], cls0, False, "rot"))
    hists = [(h, None, None, None) for h in hists] + forced
    events, meta = [], {}
    for i, (h, cls0, mg0, drift0) in enumerate(hists):
        cls = cls0 or rng.choice(sorted(STORAGE))
        s = rng.choice(cat[cls])
        unit = rng.choice((1.0, 0.3, 2.0))
        margin = unit * 0.5 if (rng.random() < 0.25 if mg0 is None else mg0) else 0.0
        kind = "lattice" if rng.random() < 0.5 else "float"
        posevals = {p: rand_pose(rng, kind) for p in ("P1", "P2", "P3", "P4")}
        if drift0 is not None or rng.random() < 0.3:
            # a long drift by small steps: consecutive pose values that differ only slightly - by a translation, by a rotation
            # of about 1e-6 rad about a generic axis, or both
            base = posevals["P1"]
            if drift0 == "rot" and kind == "lattice":
                base = rand_pose(rng, "float"); posevals["P1"] = base      # a generic orientation: no component of an axis near 0
            mode = drift0 or rng.choice(("trans", "rot", "both"))
            ax = np.array([rng.gauss(0, 1) for _ in range(3)]); ax /= np.linalg.norm(ax)
            K = np.array([[0, -ax[2], ax[1]], [ax[2], 0, -ax[0]], [-ax[1], ax[0], 0]])
            step = 10 ** rng.uniform(-6.5, -5.5)
            for j, p in enumerate(("P2", "P3", "P4"), 1):
                Tn = base.copy()
                if mode in ("trans", "both"):
                    Tn[:3, 3] += j * 1e-6 * np.array([1.0, -2.0, 0.5]) * rng.choice((1.0, 100.0))
                if mode in ("rot", "both"):
                    ang = j * step
                    Tn[:3, :3] = (np.eye(3) + math.sin(ang) * K + (1 - math.cos(ang)) * (K @ K)) @ base[:3, :3]
                posevals[p] = np.ascontiguousarray(Tn)
        hid = f"h{i}"
        events.append(replay_history(hid, h, cls, s, unit, posevals, rng, margin))
        meta[hid] = {"cls": cls + ("+Margin" if margin else ""), "shape": {k: v for k, v in s.items() if k != "name"}, "history": h}
    rejects = judge_events(res, events, "c14")
    evbyid = {e["id"]: e for evs in events for e in evs if "id" in e}
    for eid, clauses in sorted(rejects.items()):
        hid = eid.split(".")[0]
        m = meta[hid]
        e = evbyid.get(eid, {})
        res.violation(f"{m['cls']}:{'+'.join(sorted(clauses))}:{chash(m['history'])}", "+".join(sorted(clauses)),
                      f"{m['cls']} {m['shape']} event {eid}: {({k: e.get(k) for k in ('support', 'aabb', 'center', 'first', 'pose', 'gjk', 'alt', 'exc')})} "
                      f"history={json.dumps(m['history'])[:300]}", {"meta": m, "event": e, "seed": seed})
    res.coverage["evaluations"] = sum(len(e) for e in events)
    res.coverage["distinct_nontrivial"] = len({chash([m["cls"], m["history"]]) for m in meta.values() if sum(1 for x in m["history"] if x["op"] == "update") >= 1})
    res.coverage["rule"] = ("caller histories = every history TLC visits in the storage model (2 colliders, 2 arrays, 2 pose values, <= 5 calls: "
                            "fresh arrays, stack items, arrays rewritten in place and passed again, two colliders built from one array) plus "
                            "longer random histories incl. drifts by tiny steps; replayed on each of the nine collider classes and Margin "
                            "wrappers; every observation compared with a fresh twin at the last pose value; non-trivial = at least one update")
    res.coverage["samples"] = [meta["h0"], events[0][:3]]
    res.assumptions = ["rewriting an array that another collider still references without updating that collider is caller aliasing, outside the quantifier"]
    return res


def replay(path):
    v = json.load(open(path))["replay"]
    print(json.dumps(v["meta"]))
    return 1
