"""C16 - hydroelastic forces: relations and session histories.
Explorer specs/hydro/HydroSession.tla (+ one config per design regression), trace spec HydroSessionTrace.tla."""
import json, os, random, re, math, glob
import numpy as np
from .. import env, tlc, shapes as S
from ..ratio import ticks
from ..result import Result, chash
from ..env import WORK, VERIF

TICK = 0.05 / 8
KINDS = ("sphere", "ellipsoid", "cube", "box", "cylinder", "capsule")
NAMES = ("A", "B", "C")
MUTANTS = ("tp", "com", "aabbs", "tree", "treerule", "bary", "alias", "details", "boxcache")


def make_body(kind, T, E):
    from distance3d.hydroelastic_contact import RigidBody
    T = np.ascontiguousarray(np.array(T, dtype=float))
    if kind == "cube":
        b = RigidBody.make_cube(T, 1.0)
    elif kind == "box":
        b = RigidBody.make_box(T, np.array([1.0, 0.7, 1.3]))
    elif kind == "sphere":
        b = RigidBody.make_sphere(T[:3, 3].copy(), 0.6, 1)
        b.body2origin_[:3, :3] = T[:3, :3]                     # a rotated sphere frame (the factory only takes a centre)
    elif kind == "ellipsoid":
        b = RigidBody.make_ellipsoid(T, np.array([0.5, 0.7, 0.45]), 1)
    elif kind == "cylinder":
        b = RigidBody.make_cylinder(T, 0.5, 1.0, 0.7)
    else:
        b = RigidBody.make_capsule(T, 0.4, 0.8, 0.7)
    b.youngs_modulus = E
    return b


def world_vertices(b):
    return b.vertices_ @ b.body2origin_[:3, :3].T + b.body2origin_[:3, 3]


def rel(a, b, scale=None):
    m = max(float(np.linalg.norm(a)), float(np.linalg.norm(b))) if scale is None else scale
    return 0.0 if m == 0.0 else float(np.linalg.norm(np.asarray(a) - np.asarray(b))) / m


def rand_pose(rng, base, spread=0.35, general=0.85):
    T = np.eye(4)
    T[:3, :3] = S.random_rotation(rng) if rng.random() < general else np.eye(3)
    T[:3, 3] = base + np.array([rng.gauss(0, 1) for _ in range(3)]) * spread
    return T


def stale_caches(b, which=("tetrahedra_points", "com", "aabbs", "aabb_tree")):
    """names of the public lazily computed properties of a RigidBody whose value does not match its current vertices"""
    from distance3d.hydroelastic_contact._mesh_processing import center_of_mass_tetrahedral_mesh, tetrahedral_mesh_aabbs
    bad = []
    tp = b.vertices_[b.tetrahedra_]
    if "tetrahedra_points" in which and not np.allclose(b.tetrahedra_points, tp, atol=1e-9):
        bad.append("tetrahedra_points")
    if "com" in which and not np.allclose(b.com, center_of_mass_tetrahedral_mesh(tp), atol=1e-9):
        bad.append("com")
    if "aabbs" in which and not np.allclose(b.aabbs, tetrahedral_mesh_aabbs(tp), atol=1e-9):
        bad.append("aabbs")
    if "aabb_tree" in which:
        root = np.asarray(b.aabb_tree.get_root_aabb())
        used = b.vertices_[np.unique(b.tetrahedra_)]
        if not (np.allclose(root[:, 0], used.min(axis=0), atol=1e-9) and np.allclose(root[:, 1], used.max(axis=0), atol=1e-9)):
            bad.append("aabb_tree")
    return bad


def forces_of(b1, b2, bp, det):
    """the session call: contact_forces, or its tree-based equivalent; returns flag, w12, w21, pair set"""
    from distance3d.hydroelastic_contact import contact_forces, find_contact_surface
    from distance3d.hydroelastic_contact._forces import accumulate_wrenches
    if bp == "tree":
        cs = find_contact_surface(b1, b2, use_aabb_trees=True)
        w12, w21 = accumulate_wrenches(cs, b1, b2)
        flag = cs.intersection
        if det:
            cs.make_details(b1.tetrahedra_points, b2.tetrahedra_points)
    else:
        out = contact_forces(b1, b2, return_details=det)
        flag, w12, w21 = out[0], out[1], out[2]
        cs = find_contact_surface(b1, b2)
    pairs = pair_areas(cs)
    return bool(flag), np.array(w12, dtype=float), np.array(w21, dtype=float), pairs


def pair_areas(cs):
    """intersecting tetrahedron pairs -> area of their contact polygon"""
    if not cs.intersection:
        return {}
    return {(int(i), int(j)): float(a) for i, j, a in zip(cs.intersecting_tetrahedra1, cs.intersecting_tetrahedra2, cs.contact_areas)}


def same_pairs(p, q):
    """the two runs report the same pairs; a pair whose polygon has (numerically) no area may appear in only one of them when
    the two runs were given vertex arrays that differ by rounding (identity re-expression)"""
    return all(max(p.get(k, 0.0), q.get(k, 0.0)) <= 1e-9 for k in set(p) ^ set(q))


def session(args):
    """one session: three factory bodies at general poses driven through a history of the session model"""
    sid, seed, hist = args[:3]
    env.setup()
    from distance3d.hydroelastic_contact import contact_forces, find_contact_surface
    rng = random.Random(seed)
    base = np.array([rng.uniform(-3, 3) for _ in range(3)])
    spec = {nm: [rng.choice(KINDS), rand_pose(rng, base), 10 ** rng.uniform(-2, 2)] for nm in NAMES}
    if rng.random() < 0.4:
        # parallel placement: all three bodies share one orientation (relative rotations are the identity)
        R = spec[NAMES[0]][1][:3, :3].copy() if rng.random() < 0.6 else np.eye(3)
        for nm in NAMES:
            spec[nm][1][:3, :3] = R
    if rng.random() < 0.4:
        # one body far away: no contact with it, but bodies re-expressed in its frame get large coordinates
        d = np.array([rng.gauss(0, 1) for _ in range(3)])
        spec[rng.choice(NAMES)][1][:3, 3] += d / np.linalg.norm(d) * 10 ** rng.uniform(0.7, 1.8)
    light = len(args) > 4                                        # only drive the session (used by the C04 check)
    if len(args) > 3 and args[3] is not None:                    # pinned session: explicit bodies
        spec = {nm: [args[3][nm][0], np.array(args[3][nm][1], dtype=float), args[3][nm][2]] for nm in NAMES}
    bodies = {nm: make_body(*spec[nm]) for nm in NAMES}
    user_arr = {nm: bodies[nm].body2origin_ for nm in NAMES}        # the pose arrays the "user" owns
    ver = {nm: 0 for nm in NAMES}
    poses = {(nm, 0): np.array(spec[nm][1]) for nm in NAMES}         # pose label -> own-frame pose of the body (where a fresh twin is built)
    frame_pose = {(nm, 0): np.array(spec[nm][1]) for nm in NAMES}    # pose label -> matrix held in body2origin_ by bodies in that frame
    size = 1.3
    ev = [{"ev": "new", "id": sid}]
    aabb_obs = []

    def fresh(nm, G=None):
        T = poses[(nm, ver[nm])]
        return make_body(spec[nm][0], T if G is None else G @ T, spec[nm][2])

    def observe(e):
        e["ofr"], e["arr"], e["world"] = {}, {}, {}
        bad = []
        for nm in NAMES:
            b = bodies[nm]
            labs = [[pn, pv] for (pn, pv), P in frame_pose.items() if np.allclose(b.body2origin_, P, atol=1e-12)]
            e["ofr"][nm] = labs or [["unknown", 0]]          # every label with that pose value (a moved-back body has two)
            own = [o for o in NAMES if np.shares_memory(b.body2origin_, user_arr[o])]
            e["arr"][nm] = own[0] if own else "private"
            e["world"][nm] = ticks(float(np.max(np.abs(world_vertices(b) - world_vertices(fresh(nm))))), 1e-9 * 10 / 8)
        e["staleCaches"] = bad + e["staleCaches"]

    def blank(op, eid, h):
        return {"ev": op, "id": eid, "b1": h["b1"], "b2": h["b2"], "bp": h["bp"], "det": bool(h["det"]), "how": h["how"], "exc": "none",
                "ar": 0, "swap": 0, "swapT": 0, "rigid": 0, "repeat": 0, "repeatT": 0, "fresh": 0, "freshT": 0, "flagsSame": True, "pairsSame": True,
                "ofr": {n: [["unknown", 0]] for n in NAMES}, "back": bool(h.get("back", False)), "arr": {n: "?" for n in NAMES}, "world": {n: 0 for n in NAMES}, "staleCaches": []}

    def pairs_of(cs):
        return set(pair_areas(cs))

    def do_cf(e, h, prev=None, full=True):
        """one contact call on the session bodies = one ContactForces action of the model; prev: the result of the same call just before"""
        b1n, b2n = h["b1"], h["b2"]
        b1, b2 = bodies[b1n], bodies[b2n]
        flag, w12, w21, pairs = forces_of(b1, b2, h["bp"], h["det"])
        f12, f21 = w12[:3], w21[:3]
        fm = max(float(np.linalg.norm(f12)), float(np.linalg.norm(f21)))
        e["fmag"] = fm
        e["ar"] = ticks(rel(f12, -f21), TICK)
        flags = [flag]
        if prev is not None:
            pflag, p12, p21, ppairs = prev
            e["repeat"] = ticks(max(rel(p12[:3], f12), rel(p21[:3], f21)), TICK)
            e["repeatT"] = ticks(max(rel(p12[3:], w12[3:], fm * size), rel(p21[3:], w21[3:], fm * size)), TICK)
            flags.append(pflag)
            if h["bp"] != prev_bp[0]:
                e["pairsSame"] = bool(same_pairs(pairs, ppairs))              # tree and brute-force broad phase on the same session bodies
        if full:
            flag_f, w12f, w21f = contact_forces(fresh(b1n), fresh(b2n))                   # fresh bodies at the same world poses
            e["fresh"] = ticks(max(rel(w12f[:3], f12), rel(w21f[:3], f21)), TICK)
            e["freshT"] = ticks(max(rel(w12f[3:], w12[3:], fm * size), rel(w21f[3:], w21[3:], fm * size)), TICK)
            flags.append(bool(flag_f))
            flag_s, s21, s12 = contact_forces(fresh(b2n), fresh(b1n))                     # swapped arguments
            e["swap"] = ticks(max(rel(s12[:3], w12f[:3]), rel(s21[:3], w21f[:3])), TICK)
            ff = max(float(np.linalg.norm(w12f[:3])), float(np.linalg.norm(s12[:3])))
            e["swapT"] = ticks(max(rel(s12[3:], w12f[3:], ff * size), rel(s21[3:], w21f[3:], ff * size)), TICK)
            flags.append(bool(flag_s))
            G = np.eye(4); G[:3, :3] = S.random_rotation(rng); G[:3, 3] = [rng.uniform(-2, 2) for _ in range(3)]
            flag_g, g12, g21 = contact_forces(fresh(b1n, G), fresh(b2n, G))               # one rigid motion of both bodies
            e["rigid"] = ticks(max(rel(g12[:3], G[:3, :3] @ w12f[:3]), rel(g21[:3], G[:3, :3] @ w21f[:3])), TICK)
            flags.append(bool(flag_g))
            pb = pairs_of(find_contact_surface(fresh(b1n), fresh(b2n), use_aabb_trees=False))
            pt = pairs_of(find_contact_surface(fresh(b1n), fresh(b2n), use_aabb_trees=True))
            e["pairsSame"] = bool(e["pairsSame"] and pt == pb)
        e["flagsSame"] = bool(len(set(flags)) == 1)
        prev_bp[0] = h["bp"]
        return flag, w12, w21, pairs

    prev_bp = [None]
    last_cf = [None]
    auto_extra = len(args) <= 3          # pinned sessions list every call explicitly
    for step, h in enumerate(hist):
        op, b1n, b2n = h["op"], h["b1"], h["b2"]
        e = blank(op, f"{sid}.{step}", h)
        extra = []
        try:
            if op == "cf":
                same = last_cf[0] is not None and last_cf[0][0] == (b1n, b2n)
                r = do_cf(e, h, prev=last_cf[0][1] if (same and not auto_extra) else None, full=not light)
                last_cf[0] = ((b1n, b2n), r)
                observe(e)
                if not auto_extra:
                    ev.append(e)
                    continue
                # the same call again (Repeatable), and for the tree-based broad phase the same call with the brute-force one:
                # each is one more ContactForces action of the model and is logged as its own event
                e2 = blank("cf", f"{sid}.{step}r", h)
                extra.append(e2)
                r2 = do_cf(e2, h, prev=r, full=False)
                observe(e2)
                if h["bp"] == "tree":
                    h3 = dict(h, bp="brute", det=False)
                    e3 = blank("cf", f"{sid}.{step}b", h3)
                    extra.append(e3)
                    do_cf(e3, h3, prev=r2, full=False)
                    observe(e3)
            elif op == "move":
                last_cf[0] = None
                b = bodies[b1n]
                F = np.array(b.body2origin_, dtype=float)          # the frame the vertices are expressed in right now
                if h.get("back", False):
                    new = np.array(frame_pose[(b1n, 0)])           # moved back: the matrix the body had at the start of the session
                else:
                    new = rand_pose(rng, F[:3, 3], spread=0.12, general=1.0)
                own = new @ np.linalg.inv(F) @ poses[(b1n, ver[b1n])]    # the vertices keep their numbers: the new pose defines the placement
                ver[b1n] += 1
                poses[(b1n, ver[b1n])] = own
                frame_pose[(b1n, ver[b1n])] = new
                if h["how"] == "inplace":
                    b.body2origin_[...] = new                      # the user mutates the body's pose array in place
                else:
                    user_arr[b1n] = np.ascontiguousarray(new.copy())
                    b.body2origin_ = user_arr[b1n]                 # what update_pose does (update_pose itself needs open3d)
            elif op == "tree":
                e["staleCaches"] = [f"{b1n}.{c}" for c in stale_caches(bodies[b1n], ("aabb_tree",))]
            elif op == "inspect":
                e["staleCaches"] = [f"{b1n}.{c}" for c in stale_caches(bodies[b1n])]
            elif op == "aabb":
                box = np.asarray(bodies[b1n].aabb(), dtype=float)
                W = world_vertices(fresh(b1n))
                aabb_obs.append({"id": e["id"], "kind": spec[b1n][0], "L": max(1.0, float(np.max(np.abs(W)))), "lo": [float(x) for x in box[:, 0] - W.min(axis=0)],
                                 "hi": [float(x) for x in box[:, 1] - W.max(axis=0)], "hist": hist[:step + 1]})
            if op != "cf":
                observe(e)
        except Exception as ex:
            (extra[-1] if extra else e)["exc"] = type(ex).__name__ + ":" + str(ex)[:80]
        ev.append(e)
        ev.extend(extra)
    return ev, {nm: [spec[nm][0], np.array(spec[nm][1]).tolist(), spec[nm][2]] for nm in NAMES}, aabb_obs


def judge_events(res, sessions, name):
    from ..trace import parse_rejects
    os.makedirs(os.path.join(WORK, "traces"), exist_ok=True)
    nsh = max(1, min(16, len(sessions)))
    paths, counts = [], []
    for sh in range(nsh):
        p = os.path.join(WORK, "traces", f"{name}_{os.getpid()}_{sh}.ndjson")
        n = 0
        with open(p, "w") as fh:
            for evs in sessions[sh::nsh]:
                for e in evs:
                    fh.write(json.dumps({k: v for k, v in e.items() if k != "fmag"}, separators=(",", ":")) + "\n")
                    n += 1
            fh.write(json.dumps({"ev": "end", "id": "end", "count": n}) + "\n")
        paths.append(p); counts.append(n + 1)
    outs = tlc.run_many([dict(spec_dir="hydro", module="HydroSessionTrace", cfg="HydroSessionTrace.cfg", workers=1, env={"TRACE_FILE": p},
                              heap="1g", timeout=3600, tag=f"{name}_{i}") for i, p in enumerate(paths)])
    rejects = {}
    for r, p, n in zip(outs, paths, counts):
        res.add_tlc(r)
        if not r.ok or "JUDGED" not in r.out:
            i = r.out.find("Error")
            res.machinery(f"HydroSessionTrace did not consume {p} (an event is not a step of the session model):\n" + r.out[i:i + 2000])
            continue
        try:
            rejects.update(parse_rejects(r.out))
        except ValueError as e:
            res.machinery(f"{e} for {p}")
        res.coverage["traces_validated_against_impl"] += n
        os.remove(p)
    return rejects


def witnesses(res, mutant, workers=2):
    """WITNESS histories that TLC prints for one single-fault configuration HydroSession_mut_<mutant>.cfg"""
    r = tlc.run("hydro", "HydroSession", cfg=f"HydroSession_mut_{mutant}.cfg", workers=workers, heap="1g", tag=f"hsw_{mutant}_{os.getpid()}")
    res.add_tlc(r)
    hs = {}
    for m in re.finditer(r'<<"WITNESS",\s*"((?:[^"\\]|\\.)*)">>', r.out, re.S):
        js = re.sub(r"\s*\n\s*", "", m.group(1)).encode().decode("unicode_escape")
        hs[js] = json.loads(js)
    if not hs:
        res.machinery(f"design regression '{mutant}' has no witness history in the model (vacuous):\n" + r.out[-1500:])
    return sorted(hs.values(), key=lambda h: (len(h), json.dumps(h)))


def histories(res, tier, rng):
    """behaviours of the session model: exhaustive check of the library design, TLC-simulated behaviours,
    and the shortest histories TLC finds to expose each single design regression"""
    out = []
    jobs = [dict(spec_dir="hydro", module="HydroSession", cfg="HydroSession.cfg" if tier == "quick" else "HydroSession4.cfg", workers=4, heap="3g", tag="hs_main"),
            dict(spec_dir="hydro", module="HydroSession", cfg="HydroSession_sim.cfg", workers=1, heap="1g", tag="hs_sim",
                 simulate=f"num={60 if tier == 'quick' else 1500}", depth=5, extra=("-seed", str(rng.randrange(1 << 30))))]
    jobs += [dict(spec_dir="hydro", module="HydroSession", cfg=f"HydroSession_mut_{m}.cfg", workers=2, heap="1g", tag=f"hs_{m}") for m in MUTANTS]
    rs = tlc.run_many(jobs)
    main, sim, muts = rs[0], rs[1], rs[2:]
    res.add_tlc(main)
    if main.invariant_violated:
        res.violation("mc:HydroSession", "ModelInvariant", f"TLC: {main.invariant_violated} violated on the session model of the library's design", {"tlc_tail": main.out[-3000:]})
    elif not main.ok:
        res.machinery("TLC HydroSession failed:\n" + main.out[-2000:])
    def parse(r, tag):
        hs = {}
        for m in re.finditer(r'<<"%s",\s*"((?:[^"\\]|\\.)*)">>' % tag, r.out, re.S):
            js = re.sub(r"\s*\n\s*", "", m.group(1)).encode().decode("unicode_escape")
            hs[js] = json.loads(js)
        return list(hs.values())
    sims = parse(sim, "HIST")
    if not sims:
        res.machinery("TLC simulation produced no behaviours:\n" + sim.out[-1500:])
    res.coverage["simulated_behaviours"] = len(sims)
    for h in sims:
        out.append(("sim", h))
    per = 6 if tier == "quick" else 120
    for m, r in zip(MUTANTS, muts):
        res.add_tlc(r)
        ws = parse(r, "WITNESS")
        if not ws:
            res.machinery(f"design regression '{m}' has no witness history in the model (vacuous):\n" + r.out[-1500:])
            continue
        res.coverage[f"witnesses_{m}"] = len(ws)
        ws.sort(key=lambda h: (len(h), json.dumps(h)))
        short = [h for h in ws if len(h) == len(ws[0])]
        pick = rng.sample(short, min(per // 2, len(short))) + rng.sample(ws, min(per - per // 2, len(ws)))
        for h in pick:
            out.append((m, h))
    return out


def run(tier, seed):
    env.setup()
    rng = random.Random(seed)
    res = Result("C16", tier, seed)
    hl = histories(res, tier, rng)
    jobs = [(f"s{i}", seed * 7919 + i, h) for i, (src, h) in enumerate(hl)]
    pinned = json.load(open(os.path.join(VERIF, "harness", "pinned", "c16_sessions.json")))
    for i, pz in enumerate(pinned):
        hl.insert(0, ("pinned:" + pz["name"], pz["history"]))
        jobs.insert(0, (f"p{i}", 0, pz["history"], pz["bodies"]))
    from concurrent.futures import ProcessPoolExecutor
    with ProcessPoolExecutor(max_workers=16) as ex:
        out = list(ex.map(session, jobs, chunksize=1))
    sessions = [o[0] for o in out]
    specs = {o[0][0]["id"]: o[1] for o in out}
    rejects = judge_events(res, sessions, "c16")
    evby = {e["id"]: e for evs in sessions for e in evs}
    hby = {j[0]: j[2] for j in jobs}
    src = {j[0]: s for j, (s, h) in zip(jobs, hl)}
    for eid, clauses in sorted(rejects.items()):
        sid = eid.split(".")[0]
        e = evby[eid]
        res.violation(f"{'+'.join(sorted(clauses))}:{chash([specs[sid], hby[sid]])}:{eid.split('.')[1]}", "+".join(sorted(clauses)),
                      f"event {eid} {e['ev']} {e['b1']}->{e['b2']} bp={e['bp']} det={e['det']} " +
                      str({k: e[k] for k in ('ar', 'swap', 'swapT', 'rigid', 'repeat', 'repeatT', 'fresh', 'freshT', 'flagsSame', 'pairsSame', 'world', 'staleCaches', 'ofr', 'arr', 'exc')}) +
                      f" bodies={ {k: v[0] for k, v in specs[sid].items()} } history[{src[sid]}]={hby[sid]}", {"bodies": specs[sid], "history": hby[sid], "event": e, "seed": seed})
    res.coverage["evaluations"] = sum(len(s) - 1 for s in sessions)
    res.coverage["contacts"] = sum(1 for evs in sessions for e in evs if e.get("fmag", 0) > 0)
    res.coverage["calls"] = sum(1 for evs in sessions for e in evs if e["ev"] == "cf")
    res.coverage["distinct_nontrivial"] = len({chash([specs[s[0]["id"]], hby[s[0]["id"]]]) for s in sessions if any(e.get("fmag", 0) > 0 for e in s)})
    res.coverage["rule"] = ("sessions of three factory bodies (sphere, ellipsoid, cube, box, cylinder, capsule; general rotations, Young's moduli in "
                            "[1e-2, 1e2]) driven through behaviours of the session model: TLC-simulated behaviours of the library design and the "
                            "shortest histories TLC finds to expose each single design regression (a cache not invalidated, the frame not copied, "
                            "another tree rebuild rule, barycentric transforms cached); every event is one action of the model, each contact call is "
                            "compared with its repetition, with fresh bodies at the same world poses, with swapped arguments, with a rigidly moved "
                            "copy and with both broad phases; non-trivial = session with at least one contact")
    res.coverage["samples"] = [hl[0][1], sessions[0][1]]
    res.assumptions = ["5% relative tolerance (8 ticks of 0.625%) as stated by the property; torques are compared relative to force magnitude x 1.3 (body size)",
                       "update_pose is replaced by the attribute assignment it performs (its artist update needs open3d, which cannot load here)"]
    return res


def replay(path):
    v = json.load(open(path))["replay"]
    print(json.dumps(v["history"]), json.dumps(v["event"]))
    return 1


def timed_session(a):
    import time
    t = time.time(); session(a)
    return round(time.time() - t, 2)
