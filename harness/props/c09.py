"""C09 - alternative distance algorithms (judge specs/narrow/DistanceJudge.tla with Tol = 1e-3)."""
import math, random
import numpy as np
from .. import env, trace, narrow as NW
from ..result import Result, chash
from . import c01

TOL = 1e-3
PRIM = ("Sphere", "Capsule", "Box", "Ellipsoid", "Cylinder")


def algos():
    from distance3d import gjk
    from distance3d.gjk import _gjk_original as O, _gjk_nesterov_accelerated as N, _gjk_nesterov_accelerated_primitives as NP
    return {
        # name: (call -> (d, a, b), proxy, scalar_only, allowed classes, helper check)
        "gjk_distance_original": (lambda a, b: gjk.gjk_distance_original(a, b)[:3], True, False, None,
                                  lambda mk: O.gjk_distance_iterations(*mk()) == gjk.gjk_distance_original(*mk())[4]),
        "nesterov_distance": (lambda a, b: (gjk.gjk_nesterov_accelerated_distance(a, b), None, None), False, True, None,
                              lambda mk: N.gjk_nesterov_accelerated_iterations(*mk()) == gjk.gjk_nesterov_accelerated(*mk())[3]),
        "nesterov_distance[acc]": (lambda a, b: (max(gjk.gjk_nesterov_accelerated(a, b, use_nesterov_acceleration=True)[1], 0.0), None, None),
                                   False, True, None, None),
        "nesterov_primitives_distance": (lambda a, b: (gjk.gjk_nesterov_accelerated_primitives_distance(a, b), None, None), False, True, PRIM,
                                         lambda mk: NP.gjk_nesterov_accelerated_primitives_iterations(*mk()) == gjk.gjk_nesterov_accelerated_primitives(*mk())[3]),
        "nesterov_primitives_distance[acc]": (lambda a, b: (max(gjk.gjk_nesterov_accelerated_primitives(a, b, use_nesterov_acceleration=True)[1], 0.0), None, None),
                                              False, True, PRIM, None),
    }


PINNED_SEED = 909     # the acceleration variants are driven through a deterministic corpus (known findings are pinned by scene)


def _drive(recs, meta, n, scene_list, rng, al, names, pinned):
    for A, B in scene_list:
        for lk in ["id", rng.choice(("scale", "rigid"))]:
            lift = NW.random_lift(rng, A, B, lk)
            L = NW.scene_L(A, B, lift)
            fo, fg = NW.float_flags(A, B, TOL * L / lift[0])
            for X, Y in ((A, B), (B, A)):
                clsX, clsY = rng.choice(X.classes()), rng.choice(Y.classes())
                shared = (X.build(lift, clsX), Y.build(lift, clsY))      # all algorithms query the same collider objects
                order = list(names) + [rng.choice(names)]      # random order, one algorithm asked twice
                rng.shuffle(order)
                for name in order:
                    call, proxy, scalar, only, helper = al[name]
                    if only is not None and (clsX not in only or clsY not in only or X.margin or Y.margin):
                        continue
                    if rng.random() < 0.35:
                        continue
                    n += 1
                    rid = f"d{n}"
                    rec, out = NW.measure_distance(rid, X, Y, lift, call, TOL, clsX, clsY,
                                                   extra={"floatOverlap": fo and not scalar, "floatGap": fg, "fn": name, "helperSame": True},
                                                   proxy=proxy, scalar_only=scalar, zero_exact=False, colliders=shared)
                    if scalar and not rec["exact"] and rec["exc"] == "none" and rec["finite"]:
                        # scalar-only algorithms on round shapes: judged against the certified Jolt reference (or not at all)
                        if not rec.get("refOK", False):
                            rec["cert"] = 0
                            rec["notJudged"] = True
                        elif fo and out is not None:
                            rec["floatOverlap"] = True
                    if helper is not None and rng.random() < 0.25:
                        try:
                            rec["helperSame"] = bool(helper(lambda: (X.build(lift, clsX), Y.build(lift, clsY))))   # fresh colliders per call
                        except Exception as e:
                            rec["helperSame"] = False
                    recs.append(rec)
                    meta[rid] = {"A": X.describe(), "B": Y.describe(), "clsA": clsX, "clsB": clsY, "fn": name,
                                 "lift": [lift[0], lift[1].tolist(), lift[2].tolist()], "out": None if out is None else float(out[0]),
                                 "pinned": pinned}
    return n


def gen(tier, seed):
    rng = random.Random(seed)
    al = algos()
    # compile before the watchdog applies
    from .c02 import warmup
    warmup()
    recs, meta = [], {}
    plain = [k for k in al if "[acc]" not in k]
    acc = [k for k in al if "[acc]" in k]
    scenes = NW.gen_scenes(rng, 450 if tier == "quick" else 8000) + NW.gen_prim_scenes(rng, 600 if tier == "quick" else 12000)
    scenes += NW.general_scenes(random.Random(seed * 13 + 2), 200 if tier == "quick" else 4000)      # general relative orientations (float tier)
    scenes += NW.vertex_to_side_scenes(random.Random(seed * 13 + 3), 150 if tier == "quick" else 3000)  # a vertex facing a curved side
    n = _drive(recs, meta, 0, scenes, rng, al, plain, False)
    # acceleration on: fixed corpus (the thorough corpus extends the quick one)
    prng = random.Random(PINNED_SEED)
    pscenes = NW.gen_scenes(prng, 450) + NW.gen_prim_scenes(prng, 600)
    n = _drive(recs, meta, n, pscenes, prng, al, acc, True)
    if tier != "quick":
        pscenes = NW.gen_scenes(prng, 3000) + NW.gen_prim_scenes(prng, 4000)
        n = _drive(recs, meta, n, pscenes, prng, al, acc, True)
    return recs, meta


def run(tier, seed):
    env.setup()
    res = Result("C09", tier, seed)
    recs, meta = gen(tier, seed)
    c01.judge(res, recs, meta, "c09", seed)
    res.coverage["evaluations"] = len(recs)
    res.coverage["exact"] = sum(1 for r in recs if r["exact"])
    res.coverage["not_judged"] = sum(1 for r in recs if r.get("notJudged"))
    res.coverage["distinct_nontrivial"] = len({chash([m["A"], m["B"], m["fn"]]) for m in meta.values()})
    res.coverage["rule"] = ("scenes of C01 plus a sweep of aligned primitive pairs through gjk_distance_original (points and distance), "
                            "the Nesterov distance with and without acceleration (generic and primitives-only; scalar), both orders, "
                            "lifts; iteration-count helpers compared with the full result on a quarter of the calls")
    res.coverage["samples"] = [meta[recs[0]["id"]], recs[0], recs[len(recs) // 2]]
    res.assumptions = ["scalar-only results on round shapes are compared with the Jolt distance only where its witness points pass the "
                       "separating-plane certificate at 1e-5*L; otherwise not judged (counted)"]
    return res


def replay(path):
    import json
    v = json.load(open(path))["replay"]
    print(json.dumps(v["meta"]))
    return 1
