"""C01 - GJK distance query (Jolt flavour): judge specs/narrow/DistanceJudge.tla."""
import math, random
import numpy as np
from .. import env, tlc, trace, narrow as NW
from ..result import Result, chash

TOL = 1e-5


def call_gjk(maxd):
    def f(ca, cb):
        from distance3d import gjk
        if maxd is None:
            out = gjk.gjk(ca, cb)
        else:
            out = gjk.gjk_distance_jolt(ca, cb, max_distance_squared=maxd)
        return out[0], out[1], out[2]
    return f


def gen(tier, seed, tol=TOL, calls=None, tag="gjk"):
    rng = random.Random(seed)
    scenes = NW.gen_scenes(rng, 700 if tier == "quick" else 12000)
    scenes += NW.general_scenes(random.Random(seed * 13 + 1), 120 if tier == "quick" else 3000)      # general relative orientations (float tier)
    scenes += NW.vertex_to_side_scenes(random.Random(seed * 13 + 4), 60 if tier == "quick" else 1500)   # a vertex facing a curved side
    recs, meta, n = [], {}, 0
    calls = calls or [("gjk", call_gjk(None)), ("gjk_inf", call_gjk(float("inf")))]
    for A, B in scenes:
        lifts = ["id", rng.choice(("scale", "rigid"))] if tier == "quick" else ["id", "scale", "rigid", "rigid"]
        for lk in lifts:
            lift = NW.random_lift(rng, A, B, lk)
            L = NW.scene_L(A, B, lift)
            fo, fg = NW.float_flags(A, B, tol * L / lift[0])
            for X, Y, order in ((A, B, "AB"), (B, A, "BA")):
                for clsX in X.classes():
                    for clsY in Y.classes():
                        if rng.random() < 0.5 and (len(X.classes()) > 1 or len(Y.classes()) > 1):
                            continue
                        fname, call = rng.choice(calls)
                        n += 1
                        rid = f"d{n}"
                        rec, out = NW.measure_distance(rid, X, Y, lift, call, tol, clsX, clsY,
                                                       extra={"floatOverlap": fo, "floatGap": fg, "fn": fname,
                                                              "clipLimit": math.sqrt(1e5) if fname == "gjk" else 0.0})
                        recs.append(rec)
                        meta[rid] = {"A": X.describe(), "B": Y.describe(), "clsA": clsX, "clsB": clsY, "fn": fname,
                                     "lift": [lift[0], lift[1].tolist(), lift[2].tolist()], "out": None if out is None else float(out[0])}
    if tag == "gjk":
        import json, os
        for k, m in enumerate(json.load(open(os.path.join(os.path.dirname(__file__), "..", "pinned", "c01_flat.json")))):
            A = NW.Body(dict(m["A"]["shape"]), m["A"]["M"], m["A"]["t"], m["A"]["margin"])
            B = NW.Body(dict(m["B"]["shape"]), m["B"]["M"], m["B"]["t"], m["B"]["margin"])
            lift = (m["lift"][0], np.array(m["lift"][1]), np.array(m["lift"][2]))
            n += 1
            rid = f"d{n}"
            rec, out = NW.measure_distance(rid, A, B, lift, call_gjk(float("inf")), tol, m["clsA"], m["clsB"], extra={"fn": "gjk_inf"})
            recs.append(rec)
            meta[rid] = dict(m, out=None if out is None else float(out[0]), pinned=True)
    return recs, meta


def judge(res, recs, meta, name, pid_seed):
    rejects = trace.judge(recs, "narrow", "NarrowTrace", "NarrowTrace.cfg", name, res)
    for rid, clauses in sorted(rejects.items(), key=lambda kv: int(kv[0][1:])):
        m = meta[rid]
        if "ORACLE_CertInvalid" in clauses:
            res.machinery(f"exact oracle certificate rejected by TLC for {m}")
            continue
        if "ZONE_FlatSimplex" in clauses:
            clauses = clauses - {"ZONE_FlatSimplex"}
            key = "gjk_jolt:flat-final-simplex"
        elif m.get("pinned") is True and "[acc]" in m["fn"]:
            key = f"{m['fn']}:pinned:{chash([m['A'], m['B'], m['clsA'], m['clsB'], m['lift']])}"
        else:
            key = f"{m['fn']}:{m['clsA']}-{m['clsB']}:{'+'.join(sorted(clauses))}:{chash([m['A'], m['B'], m['lift']])}"
        r = next(x for x in recs if x["id"] == rid)
        res.violation(key, "+".join(sorted(clauses)),
                      f"{m['fn']}({m['clsA']} {m['A']}, {m['clsB']} {m['B']}) lift_s={m['lift'][0]:.4g} d={m['out']} "
                      f"ticks feasA={r['feasA']} feasB={r['feasB']} consist={r['consist']} dErr={r['dErr']} cert={r['cert']} "
                      f"dzero={r['dzero']} aeqb={r['aeqb']} calls={r['supportCalls']} exc={r['exc']} finite={r['finite']}",
                      {"meta": m, "record": r, "seed": pid_seed})


def run(tier, seed):
    env.setup()
    res = Result("C01", tier, seed)
    recs, meta = gen(tier, seed)
    judge(res, recs, meta, "c01", seed)
    from .. import gjkloop
    gjkloop.run(res, tier, seed)          # loop explorer GjkJolt.tla: model checking + stateful trace validation of real runs
    res.coverage["evaluations"] = len(recs)
    res.coverage["exact"] = sum(1 for r in recs if r["exact"])
    res.coverage["float"] = sum(1 for r in recs if not r["exact"])
    res.coverage["distinct_nontrivial"] = len({chash([m["A"], m["B"]]) for m in meta.values()})
    res.coverage["rule"] = ("pairs of catalogue bodies (vertex hulls incl. off-centre, boxes, spheres, capsules, Margin wrappers; "
                            "cylinder, cone, ellipsoid, disk, ellipse) at lattice poses (24 cube rotations, offsets covering disjoint, "
                            "touching, overlapping, nested, identical), both argument orders, every collider class encoding, "
                            "identity / scaled / rigidly moved lifts; distinct by ordered body pair")
    res.coverage["samples"] = [meta[recs[0]["id"]], recs[0], recs[len(recs) // 2]]
    res.assumptions = ["exact tier: cores are lattice polytopes, oracle certificate verified by TLC (CertOK)",
                       "float tier: optimality by the separating-plane certificate from the float mirror of Shapes"]
    return res


def replay(path):
    import json
    v = json.load(open(path))["replay"]
    print(json.dumps(v["meta"]))
    print("re-run: VERIF_SEED=%s ./check C01 quick" % v.get("seed"))
    return 1
