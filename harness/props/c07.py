"""C07 (EPA) and C08 (MPR penetration): judge DistanceJudge.tla, kind "pen"."""
import math, random, itertools
import numpy as np
from .. import env, trace, narrow as NW, shapes as S
from ..ratio import ticks
from ..result import Result, chash

SMOOTH = ("sphere", "capsule", "cylinder", "cone", "ellipsoid", "disk", "ellipse")
_DIRS = None


def sample_dirs():
    global _DIRS
    if _DIRS is None:
        rs = np.random.RandomState(12345)
        D = rs.randn(700, 3)
        D /= np.linalg.norm(D, axis=1)[:, None]
        axes = np.array([v for v in itertools.product((-1, 0, 1), repeat=3) if any(v)], dtype=float)
        axes /= np.linalg.norm(axes, axis=1)[:, None]
        _DIRS = np.vstack([D, axes])
    return _DIRS


_HINT = []       # extra candidate directions for the scene being measured (e.g. the direction a grazing pair was pushed along)


def extent_min(A, B, shift):
    """min over sampled unit n of the extent of A (-) (B + shift) along n: an upper bound of the penetration depth if all
    extents are >= 0, otherwise -min is a lower bound of the gap.  Returns (min extent, argmin direction)."""
    best, bn = 1e300, None
    for n in list(sample_dirs()) + [h for v in _HINT for h in (v, -v)]:
        e = A.support(n) + B.support(-n) - float(n @ shift)
        if e < best:
            best, bn = e, n
    # local refinement around the best direction
    for it in range(3):
        rs = np.random.RandomState(it)
        for _ in range(40):
            n = bn + (0.05 / (it + 1) ** 2) * rs.randn(3)
            n /= np.linalg.norm(n)
            e = A.support(n) + B.support(-n) - float(n @ shift)
            if e < best:
                best, bn = e, n
    return best, bn


def polytope_pen(A, B):
    """exact tier: (depth, integer facet normal, integer offset) of the closest facet of conv(VA) (-) conv(VB), or None"""
    ca, cb = A.core(), B.core()
    if ca is None or cb is None or ca[1] or cb[1] or len(ca[0]) < 4 or len(cb[0]) < 1:
        return None
    VA, VB = np.array(ca[0], dtype=np.int64), np.array(cb[0], dtype=np.int64)
    Mk = (VA[:, None, :] - VB[None, :, :]).reshape(-1, 3)
    Mk = np.unique(Mk, axis=0)
    try:
        from scipy.spatial import ConvexHull
        hull = ConvexHull(Mk.astype(float))
    except Exception:
        return None
    best = None
    for simp, eq in zip(hull.simplices, hull.equations):
        p0, p1, p2 = Mk[simp[0]], Mk[simp[1]], Mk[simp[2]]
        n = np.cross(p1 - p0, p2 - p0)
        if not n.any():
            continue
        if float(n @ eq[:3]) < 0:
            n = -n
        g = math.gcd(math.gcd(abs(int(n[0])), abs(int(n[1]))), abs(int(n[2])))
        n = n // g
        c = int(n @ p0)
        if c < 0:
            return None           # origin outside: not overlapping
        d = c / math.sqrt(float(n @ n))
        if best is None or d < best[0]:
            best = (d, [int(x) for x in n], c)
    if best is None or max(abs(x) for x in best[1]) > 20000:
        return None
    return best + (ca[0], cb[0])


def sep_after(A, B, shift, exact):
    """(residual overlap, gap) of A and B + shift, each >= 0 and one of them 0, in lattice units"""
    if exact:
        ca, cb = A.core(), B.core()
        VA = np.array(ca[0], dtype=float)
        VB = np.array(cb[0], dtype=float) + shift
        Mk = np.unique((VA[:, None, :] - VB[None, :, :]).reshape(-1, 3), axis=0)
        from scipy.spatial import ConvexHull
        try:
            eq = ConvexHull(Mk).equations
        except Exception:
            return None
        off = -eq[:, 3]                       # distance of the origin to each facet plane (positive = inside)
        if np.all(off >= 0):
            return float(np.min(off)), 0.0
        # outside: the distance to the hull is at least the largest violated plane distance and at most ... use exact GJK
        from ..prims import _dist_point_hull
        return 0.0, _dist_point_hull(np.zeros(3), Mk)
    e, n = extent_min(A, B, shift)
    if e >= 0:
        return e, 0.0                         # e is an upper bound of the residual overlap
    return 0.0, -e                            # -e is a lower bound of the gap


_DEPTH = {}


def infl_depth(A, B, rec):
    """exact depth of two ball-inflated lattice polytopes with disjoint cores (fills the certificate fields of rec), or None"""
    if rec.get("infl"):
        return _DEPTH[rec["id"]]
    cert = NW.exact_certificate(A, B)
    if not cert or cert["rA"] + cert["rB"] == 0:
        return None
    dc = math.sqrt(sum(c * c for c in cert["xn"])) / cert["W"]
    RR = cert["rA"] + cert["rB"]
    if dc <= 1e-9 or RR - dc <= 1e-6:
        return None
    rec.update({"infl": True, "VA": cert["VA"], "VB": cert["VB"], "xn": cert["xn"], "W": cert["W"], "wa": cert["wa"], "wb": cert["wb"],
                "rA": cert["rA"], "rB": cert["rB"], "G": cert["G"]})
    _DEPTH[rec["id"]] = RR - dc
    return RR - dc


_DECOY = []


def decoy_pair():
    if not _DECOY:
        from distance3d import colliders as C
        T1, T2 = np.eye(4), np.eye(4)
        T1[:3, 3] = [40.0, -30.0, 20.0]; T2[:3, 3] = [40.6, -29.7, 20.4]
        _DECOY.extend([C.Box(T1, np.array([1.0, 2.0, 1.5])), C.Ellipsoid(T2, np.array([0.7, 1.1, 0.9]))])
    return _DECOY[0], _DECOY[1]


def measure_epa(rid, A, B, lift, clsA, clsB):
    from distance3d import gjk, epa
    s = lift[0]
    L = NW.scene_L(A, B, lift)
    tick = 1e-6 * L / 8
    smooth = A.spec["kind"] in SMOOTH or B.spec["kind"] in SMOOTH or bool(A.margin) or bool(B.margin)
    pp = polytope_pen(A, B)
    rec = base_rec(rid, "epa", pp, smooth)
    rec["general"] = bool(getattr(A, "general", False) or getattr(B, "general", False))
    try:
        with NW.time_limit(30.0):
            ca, cb = A.build(lift, clsA), B.build(lift, clsB)
            NW.install_observers()
            NW._OBS["rows"] = 4
            d, p, q, Y = gjk.gjk_distance_jolt(ca, cb, max_distance_squared=float("inf"))
            rec["simplexRows"] = int(NW._OBS["rows"])
            if d > 0.0:
                return None
            if int(rid[1:]) % 2 == 0:
                # two-pass narrow phase: the distance query of another pair runs before this pair's simplex is handed to EPA
                gjk.gjk_distance_jolt(*decoy_pair(), max_distance_squared=float("inf"))
            mtv, _, ok = epa.epa(Y, ca, cb)
    except NW.Hang:
        rec["exc"] = "Hang"
        return rec
    except Exception as e:
        rec["exc"] = type(e).__name__
        return rec
    rec["success"] = bool(ok)
    if not ok:
        return rec
    mt = np.asarray(mtv, dtype=float)
    if not np.all(np.isfinite(mt)):
        rec["exc"] = "NonFinite"
        return rec
    sh = lift[1].T @ mt / s                       # the translation in lattice units
    if pp:
        rec["judged"] = True
        rec["depthErr"] = ticks(abs(float(np.linalg.norm(mt)) - s * pp[0]), tick)
        sa = sep_after(A, B, sh, True)
        if sa:
            rec["residual"], rec["gap"] = ticks(sa[0] * s, tick), ticks(sa[1] * s, tick)
    elif infl_depth(A, B, rec) is not None:
        # ball-inflated lattice polytopes with disjoint cores: the depth is rA + rB - dist(cores), certified by TLC (InflOK)
        depth = infl_depth(A, B, rec)
        rec["judged"] = True
        rec["depthErr"] = ticks(abs(float(np.linalg.norm(mt)) - s * depth), tick)
        e, _ = extent_min(A, B, sh)
        rec["gap"] = ticks(max(0.0, -e) * s, tick)
    else:
        U, _ = extent_min(A, B, np.zeros(3))
        if U >= 0:
            rec["judged"] = True
            rec["depthErr"] = ticks(max(0.0, float(np.linalg.norm(mt)) - s * U), tick)     # upper-bound form of minimality
            e, _ = extent_min(A, B, sh)
            rec["gap"] = ticks(max(0.0, -e) * s, tick)                                      # a certain remaining gap
    return rec


def base_rec(rid, algo, pp, smooth):
    rec = {"id": rid, "kind": "pen", "algo": algo, "exact": pp is not None, "exc": "none", "smooth": bool(smooth), "judged": False,
           "VA": [[0, 0, 0]], "VB": [[0, 0, 0]], "fn": [0, 0, 1], "fc": 0, "success": False, "hit": False, "deep": False,
           "depthErr": 0, "below": 0, "residual": 0, "gap": 0, "posA": 0, "posB": 0, "unit": 0, "depthNeg": False, "simplexRows": 4, "coincident": False, "prevChanged": False,
           "infl": False, "xn": [0, 0, 0], "W": 1, "wa": [1], "wb": [1], "rA": 0, "rB": 0, "G": 1, "general": False}
    if pp:
        rec.update({"VA": pp[3], "VB": pp[4], "fn": pp[1], "fc": pp[2]})
    return rec


_PREV = {"out": None, "copy": None}


def measure_mpr(rid, A, B, lift, clsA, clsB):
    from distance3d import mpr
    s = lift[0]
    L = NW.scene_L(A, B, lift)
    tick = 2e-3 * L / 8
    smooth = A.spec["kind"] in SMOOTH or B.spec["kind"] in SMOOTH or bool(A.margin) or bool(B.margin)
    pp = polytope_pen(A, B)
    rec = base_rec(rid, "mpr", pp, smooth)
    cert = NW.exact_certificate(A, B)
    rec["deep"] = NW.deep_overlap(A, B, cert, 2e-3 * L / s)
    try:
        with NW.time_limit(30.0):
            hit, depth, direction, pos = mpr.mpr_penetration(A.build(lift, clsA), B.build(lift, clsB))
    except NW.Hang:
        rec["exc"] = "Hang"
        return rec
    except Exception as e:
        rec["exc"] = type(e).__name__
        return rec
    rec["hit"] = bool(hit)
    # the arrays returned by the PREVIOUS query must not have changed (results that alias internal buffers)
    if _PREV["out"] is not None:
        rec["prevChanged"] = bool(any(not np.array_equal(a, b) for a, b in zip(_PREV["out"], _PREV["copy"])))
    _PREV["out"] = [x for x in (direction, pos) if isinstance(x, np.ndarray)] if hit else None
    _PREV["copy"] = [x.copy() for x in _PREV["out"]] if hit else None
    if not hit:
        return rec
    depth = float(depth); u = np.asarray(direction, dtype=float); pos = np.asarray(pos, dtype=float)
    if not (np.isfinite(depth) and np.all(np.isfinite(u)) and np.all(np.isfinite(pos))):
        rec["exc"] = "NonFinite"
        return rec
    rec["depthNeg"] = bool(depth < 0)
    nu = float(np.linalg.norm(u))
    rec["unit"] = 0 if (abs(depth) <= 1e-9 * L and nu == 0.0) else ticks(abs(nu - 1.0), 1e-9 / 8)
    cA = A.t + A.R @ NW.center_local(A.spec); cB = B.t + B.R @ NW.center_local(B.spec)
    rec["coincident"] = bool(np.all(cA == cB) or np.all(A.t == B.t))
    pl = NW.to_lattice(lift, pos)
    rec["posA"] = ticks(A.outside(pl) * s, tick)
    rec["posB"] = ticks(B.outside(pl) * s, tick)
    sh = lift[1].T @ (depth * u) / s
    if pp:
        rec["judged"] = True
        rec["below"] = ticks(max(0.0, s * pp[0] - depth), tick)
        sa = sep_after(A, B, sh, True)
        if sa:
            rec["residual"] = ticks(sa[0] * s, tick)
    else:
        e, _ = extent_min(A, B, sh)
        # e > 0 is only an upper bound of the residual overlap: a certain violation needs a lower bound, which the
        # sampled directions cannot give for round shapes -> judged only through the witness depth below
        w = NW.deep_overlap(A, NW.Body(B.spec, B.M, B.t + sh, B.margin, B.cls, R=(B.R if getattr(B, "general", False) else None)), None,
                            2e-3 * L / s * 1.25)
        rec["judged"] = True
        rec["residual"] = 1000 if w else 0            # a point 2.5e-3*L inside both after the translation: certain residual overlap
    return rec


def gen(tier, seed, algo):
    rng = random.Random(seed)
    from .c02 import warmup
    warmup()
    recs, meta, n = [], {}, 0
    scenes = NW.gen_scenes(rng, 900 if tier == "quick" else 20000)
    for A, B in scenes:
        # overlapping candidates only
        if float(np.linalg.norm(A.t - B.t)) > (A.size() + B.size()) / 2 + 1:
            continue
        # a third of the scenes is also placed small and far from the origin (300 .. 900 units: absolute tolerances that are
        # scaled with the magnitude of the coordinates - seed C08-9 - or lost in their rounding)
        for lk in ("id", rng.choice(("scale", "rigid"))) + (("farsmall",) if rng.random() < 0.33 else ()):
            lift = NW.random_lift(rng, A, B, lk)
            for X, Y in ((A, B), (B, A)):
                clsX, clsY = rng.choice(X.classes()), rng.choice(Y.classes())
                n += 1
                rid = f"e{n}"
                rec = measure_epa(rid, X, Y, lift, clsX, clsY) if algo == "epa" else measure_mpr(rid, X, Y, lift, clsX, clsY)
                if rec is None:
                    continue
                recs.append(rec)
                meta[rid] = {"algo": algo, "A": X.describe(), "B": Y.describe(), "clsA": clsX, "clsB": clsY,
                             "lift": [lift[0], lift[1].tolist(), lift[2].tolist()]}
    # ball-inflated bodies (sphere, capsule, Margin wrappers) overlapping a polytope with disjoint cores at the smallest feature sizes
    # of the domain: the depth is exact (rA + rB - core distance), the expanding polytope gets faces far below 1e-4 wide
    poly_s, _ = NW.spec_pool()
    rounds_s = [x for x in poly_s if x["kind"] in ("sphere", "capsule")]
    flats_s = [x for x in poly_s if x["kind"] in ("box", "hull")]
    for i in range(160 if tier == "quick" else 4000):
        MA, _ = rng.choice(S.CUBE); MB, _ = rng.choice(S.CUBE)
        A = NW.Body(rng.choice(rounds_s), MA, [rng.randint(-2, 2) for _ in range(3)], rng.choice((0, 0, 1)))
        B0 = NW.Body(rng.choice(flats_s), MB, [rng.randint(-2, 2) for _ in range(3)], rng.choice((0, 0, 0, 1)))
        rr = float(A.spec["r"]) + A.margin + B0.margin
        B, _ = NW.graze(A, B0, rng, 0.1 * rr, ks=(-1, -3, -5, -8))
        lift = NW.random_lift(rng, A, B, "tiny")
        for X, Y in ((A, B), (B, A)):
            n += 1
            rid = f"e{n}"
            rec = measure_epa(rid, X, Y, lift, None, None) if algo == "epa" else measure_mpr(rid, X, Y, lift, None, None)
            if rec is None:
                continue
            recs.append(rec)
            meta[rid] = {"algo": algo, "A": X.describe(), "B": Y.describe(), "clsA": X.classes()[0], "clsB": Y.classes()[0],
                         "lift": [lift[0], lift[1].tolist(), lift[2].tolist()], "family": "tiny-inflated"}
    # polytopes that barely overlap: a disjoint pair pushed together along its witness direction until the depth is 1e-7 .. 1e-5
    # (below and just above EPA's own thresholds of 1e-6: seed C07-7 flips every face whose plane is within 1e-6 of the origin);
    # judged in the upper-bound form with the push direction among the candidates
    if algo == "epa":
        for i in range(120 if tier == "quick" else 3000):
            MA, _ = rng.choice(S.CUBE); MB, _ = rng.choice(S.CUBE)
            general = rng.random() < 0.4
            A = NW.Body(rng.choice(flats_s), MA, [rng.randint(-2, 2) for _ in range(3)], 0)
            off = [rng.randint(-6, 6) for _ in range(3)]
            if general:
                B0 = NW.Body(rng.choice(flats_s), np.eye(3, dtype=int), A.t + np.array(off, dtype=float), 0, None, R=S.random_rotation(rng))
                B0.general = True
            else:
                B0 = NW.Body(rng.choice(flats_s), MB, [int(A.t[k]) + off[k] for k in range(3)], 0)
            eps = rng.choice((1e-7, 3e-7, 8e-7, 3e-6, 1e-5))
            B = NW.near_touch(A, B0, -eps)
            if B is None:
                continue
            if general:
                B.general = True
            nd = np.asarray(B.t, dtype=float) - np.asarray(B0.t, dtype=float)
            if not np.linalg.norm(nd) > 0:
                continue
            _HINT[:] = [nd / np.linalg.norm(nd)]
            for X, Y in ((A, B), (B, A)):
                n += 1
                rid = f"e{n}"
                clsX, clsY = rng.choice(X.classes()), rng.choice(Y.classes())
                rec = measure_epa(rid, X, Y, NW.IDENT, clsX, clsY)
                if rec is None:
                    continue
                recs.append(rec)
                meta[rid] = {"algo": algo, "A": X.describe(), "B": Y.describe(), "clsA": clsX, "clsB": clsY,
                             "lift": [1.0, np.eye(3).tolist(), [0, 0, 0]], "family": f"grazing-polytope eps={eps}"}
            _HINT[:] = []
    # skinny and flat polytopes in general relative orientation, overlapping: the portal discovery of MPR takes its rarely used
    # replacement branches there (a rod through a plate, two rods, a triangle / segment hull through a box)
    skinny = [{"kind": "box", "a": 16, "b": 0.2, "c": 0.2}, {"kind": "box", "a": 10, "b": 10, "c": 0.2}, {"kind": "box", "a": 0.2, "b": 0.2, "c": 20},
              {"kind": "box", "a": 6, "b": 12, "c": 0.1}, {"kind": "box", "a": 16, "b": 2, "c": 2},
              {"kind": "hull", "V": [[0, 0, 0], [8, 0, 0], [0, 6, 0]]}, {"kind": "hull", "V": [[-5, 0, 0], [5, 0, 0]]},
              {"kind": "hull", "V": [[0, 0, 0], [12, 0, 0], [0, 2, 0], [0, 0, 2]]}, {"kind": "box", "a": 4, "b": 4, "c": 4}]
    for i in range(260 if tier == "quick" else 6000):
        c = np.array([rng.uniform(-2, 2) for _ in range(3)])
        # piercing placement: the centres are close, the orientations independent
        A = NW.Body(rng.choice(skinny), np.eye(3, dtype=int), c, 0, None, R=S.random_rotation(rng))
        B = NW.Body(rng.choice(skinny), np.eye(3, dtype=int), c + np.array([rng.uniform(-1.2, 1.2) for _ in range(3)]), 0, None,
                    R=S.random_rotation(rng))
        for X, Y in ((A, B), (B, A)):
            n += 1
            rid = f"e{n}"
            clsX = "ConvexHullVertices" if X.spec["kind"] == "hull" else None
            clsY = "ConvexHullVertices" if Y.spec["kind"] == "hull" else None
            rec = measure_epa(rid, X, Y, NW.IDENT, clsX, clsY) if algo == "epa" else measure_mpr(rid, X, Y, NW.IDENT, clsX, clsY)
            if rec is None:
                continue
            recs.append(rec)
            meta[rid] = {"algo": algo, "A": X.describe(), "B": Y.describe(), "clsA": clsX or X.classes()[0], "clsB": clsY or Y.classes()[0],
                         "lift": [1.0, np.eye(3).tolist(), [0, 0, 0]], "family": "skinny"}
    # pinned scenes of the known findings (deterministic)
    OCT = {"kind": "hull", "V": S.HULLS["octa"]}
    if algo == "epa":
        pinned = [(NW.Body(OCT, [[0, -1, 0], [1, 0, 0], [0, 0, 1]], [1, 1, -1]), NW.Body({"kind": "box", "a": 2, "b": 2, "c": 2}, [[0, 0, 1], [-1, 0, 0], [0, -1, 0]], [0, -1, -1]), "ConvexHullVertices", "Box"),
                  (NW.Body({"kind": "hull", "V": S.HULLS["cube"]}, [[0, 0, -1], [0, -1, 0], [-1, 0, 0]], [1, 3, -3]), NW.Body({"kind": "capsule", "r": 2, "h": 2}, S.CUBE[0][0], [2, 4, -3]), "ConvexHullVertices", "Capsule")]
    else:
        pinned = [(NW.Body(OCT, [[0, 0, -1], [0, -1, 0], [-1, 0, 0]], [0, -2, 3]), NW.Body({"kind": "box", "a": 8, "b": 2, "c": 2}, [[0, 1, 0], [0, 0, 1], [1, 0, 0]], [1, 1, -1]), "MeshGraph", "Box"),
                  (NW.Body({"kind": "cylinder", "r": 3, "h": 2}, [[0, 0, 1], [1, 0, 0], [0, 1, 0]], [-3, 3, 3]), NW.Body({"kind": "sphere", "r": 2}, [[0, 0, 1], [1, 0, 0], [0, 1, 0]], [-3, 3, 3], 2), "Cylinder", "Sphere"),
                  (NW.Body({"kind": "disk", "r": 3}, [[1, 0, 0], [0, -1, 0], [0, 0, -1]], [1, -3, -2]), NW.Body({"kind": "cylinder", "r": 1, "h": 8}, [[0, 1, 0], [1, 0, 0], [0, 0, -1]], [3, -3, 0], 2), "Disk", "Cylinder")]
    if algo == "epa":
        RA = [[0.027859613933053584, 0.9557074755033577, 0.2929966948252156], [0.050351140263472705, -0.2940800626210388, 0.9544536025616825],
              [0.9983429293512673, -0.011837991206502252, -0.056313918159949405]]
        RB = [[-0.6487458944889415, 0.3689167996631424, -0.665604356438604], [0.7173270969567134, 0.004394878892104992, -0.6967227002266957],
              [-0.25410745828369025, -0.9294520320951635, -0.26748517655895254]]
        pinned.append((NW.Body({"kind": "box", "a": 4, "b": 4, "c": 4}, np.eye(3, dtype=int), [0.07439738817376806, -1.5806603281462928, 0.4506200896625163], 0, None, R=RA),
                       NW.Body({"kind": "box", "a": 16, "b": 2, "c": 2}, np.eye(3, dtype=int), [-0.7544579391510768, -0.6988587308722798, 0.10524843354558888], 0, None, R=RB),
                       "Box", "Box"))
    if algo == "mpr":
        # pinned inputs of the C08 finding "contact position outside a collider for deep overlaps" (thorough tier, identity lift)
        import json as _json, os as _os
        for m in _json.load(open(_os.path.join(_os.path.dirname(__file__), "..", "pinned", "c08_deep_contact.json"))):
            pinned.append((NW.Body(dict(m["A"]["shape"]), m["A"]["M"], m["A"]["t"], m["A"]["margin"]), NW.Body(dict(m["B"]["shape"]), m["B"]["M"], m["B"]["t"], m["B"]["margin"]),
                           m["clsA"], m["clsB"]))
    for X, Y, clsX, clsY in pinned:
        n += 1
        rid = f"e{n}"
        rec = measure_epa(rid, X, Y, NW.IDENT, clsX, clsY) if algo == "epa" else measure_mpr(rid, X, Y, NW.IDENT, clsX, clsY)
        if rec is not None:
            recs.append(rec)
            meta[rid] = {"algo": algo, "A": X.describe(), "B": Y.describe(), "clsA": clsX, "clsB": clsY, "lift": [1.0, np.eye(3).tolist(), [0, 0, 0]], "pinned": True}
    return recs, meta


def run_algo(pid, algo, tier, seed):
    env.setup()
    res = Result(pid, tier, seed)
    recs, meta = gen(tier, seed, algo)
    byid = {r["id"]: r for r in recs}
    rejects = trace.judge(recs, "narrow", "NarrowTrace", "NarrowTrace.cfg", pid.lower(), res)
    for rid, clauses in sorted(rejects.items(), key=lambda kv: int(kv[0][1:])):
        m, r = meta[rid], byid[rid]
        if "ORACLE_FacetInvalid" in clauses:
            res.machinery(f"facet certificate rejected by TLC for {m}")
            continue
        if "ZONE_CoincidentCentres" in clauses:
            clauses = clauses - {"ZONE_CoincidentCentres"}
            key = "mpr:coincident-centres"
        elif "ZONE_Grazing" in clauses:
            clauses = clauses - {"ZONE_Grazing"}
            key = "mpr:grazing-contact-position"
        elif "ZONE_SeparatingNotMinimal" in clauses:
            clauses = clauses - {"ZONE_SeparatingNotMinimal"}
            key = "epa:separating-not-minimal"
        elif "ZONE_IncompleteSimplex" in clauses:
            clauses = clauses - {"ZONE_IncompleteSimplex"}
            key = "epa:incomplete-gjk-simplex"
        else:
            key = f"{algo}:{m['clsA']}-{m['clsB']}:{'+'.join(sorted(clauses))}:{chash([m['A'], m['B'], m['lift']])}"
        res.violation(key, "+".join(sorted(clauses)), f"{algo}({m['clsA']} {m['A']}, {m['clsB']} {m['B']}) lift_s={m['lift'][0]:.4g} " +
                      str({k: r[k] for k in ('exact', 'success', 'hit', 'deep', 'depthErr', 'below', 'residual', 'gap', 'posA', 'posB', 'unit', 'exc')}),
                      {"meta": m, "record": r, "seed": seed})
    res.coverage["evaluations"] = len(recs)
    res.coverage["exact"] = sum(1 for r in recs if r["exact"])
    res.coverage["judged"] = sum(1 for r in recs if r["judged"])
    res.coverage["distinct_nontrivial"] = len({chash([m["A"], m["B"]]) for m in meta.values()})
    res.coverage["rule"] = ("overlapping pairs of the C01 scene generator (lattice polytopes: exact facet oracle; round shapes and Margin "
                            "wrappers: sampled-direction bounds), both orders, lifts; distinct by ordered body pair")
    res.coverage["samples"] = [meta[recs[0]["id"]], recs[0], recs[len(recs) // 2]]
    return res


def run(tier, seed):
    res = run_algo("C07", "epa", tier, seed)
    from .. import epaloop
    epaloop.run(res, tier, seed)          # composite explorer GjkEpa.tla: model checking + stateful trace validation of real runs
    res.assumptions = ["complete facet list of the Minkowski difference from scipy/Qhull on integer input (trusted base); the facet used is certified by TLC (FacetOK)",
                       "round shapes: minimality in upper-bound form over 3000 sampled and locally refined directions"]
    return res


def replay(path):
    import json
    v = json.load(open(path))["replay"]
    print(json.dumps(v["meta"]))
    return 1
