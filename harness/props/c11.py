"""C11 - primitive distance functions return the global minimum (shares the generator of C10)."""
from .c10 import run_prop, replay  # noqa


def run(tier, seed):
    res = run_prop("C11", tier, seed)
    res.assumptions = ["polyhedral pairs: exact distance certified by TLC (lines / planes as long segments / large rectangles containing the optimum)",
                       "convex round pairs: separating-plane certificate; circle: closed form / Lipschitz grid with stated slack; "
                       "pairs without an applicable oracle are counted as not_judged"]
    return res
