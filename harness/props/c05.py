"""C05 - AABB tree (judge specs/c05/AabbTree.tla, explorer AabbTreeImpl.tla, trace AabbTreeTrace.tla)."""
import json, os, random, re, sys, itertools
import numpy as np
from concurrent.futures import ProcessPoolExecutor
from concurrent.futures.process import BrokenProcessPool
from .. import env, tlc
from ..result import Result, chash
from ..env import WORK

# strictly monotone lifts of lattice coordinates to floats (order-isomorphisms leave the closed
# overlap relation unchanged, so the integer lattice judge applies verbatim)
LIFTS = {
    "id": lambda c: float(c),
    "tenth": lambda c: c / 10.0,                 # non-dyadic touching coordinates
    "third": lambda c: 1000.0 + c / 3.0,
    "tiny": lambda c: -5.0 + 1e-2 * c,
    "big": lambda c: 100.0 * c - 1e3 + 0.1,
    "farfine": lambda c: 25000.0 + 0.01 * c,     # far from the origin with fine differences (4e-7 relative): relative tolerances
}


def lift_box(b, f):
    return np.array([[f(b[k][0]), f(b[k][1])] for k in range(3)], dtype=float)


def probes_for(boxes):
    """probe lattice for a set of inserted lattice boxes (coordinates even): the boxes, face-touching and
    just-disjoint neighbours, corner points, a midpoint-shrunk copy, the union and a far box."""
    P, seen = [], set()

    def add(b):
        t = tuple(map(tuple, b))
        if t not in seen and all(lo <= hi for lo, hi in b):
            seen.add(t)
            P.append([list(x) for x in b])
    for b in boxes:
        add(b)
        for k in range(3):
            lo, hi = b[k]
            for nlo, nhi in ((hi, hi + 2), (hi + 1, hi + 3), (lo - 2, lo), (lo - 3, lo - 1), (hi, hi), (lo, lo)):
                nb = [list(x) for x in b]
                nb[k] = [nlo, nhi]
                add(nb)
        add([[b[0][0], b[0][0]], [b[1][0], b[1][0]], [b[2][0], b[2][0]]])
        add([[b[0][1], b[0][1]], [b[1][1], b[1][1]], [b[2][1], b[2][1]]])
        add([[min(b[k][0] + 1, b[k][1]), max(b[k][1] - 1, b[k][0])] if b[k][1] - b[k][0] >= 2 else list(b[k]) for k in range(3)])
    if boxes:
        u = [[min(b[k][0] for b in boxes), max(b[k][1] for b in boxes)] for k in range(3)]
        add(u)
        add([[u[0][1] + 5, u[0][1] + 7], u[1], u[2]])
    else:
        add([[0, 2], [0, 2], [0, 2]])
    return P


OTHERS = [[], [[[0, 2], [0, 2], [0, 2]]],
          [[[2, 4], [0, 2], [0, 2]], [[-4, -2], [0, 0], [0, 2]], [[2, 2], [2, 2], [2, 2]]]]


def replay_history(args):
    """Run one history on the real AabbTree; returns the event list (dicts)."""
    hid, hist, liftname, npseed = args
    env.setup()
    from distance3d.aabb_tree import AabbTree
    f = LIFTS[liftname]
    np.random.seed(npseed)
    ev = [{"ev": "new", "id": f"{hid}"}]
    tree = AabbTree()
    inserted = []

    def lookup(tree, idx):
        return [{"ins": -9 if tree.insert_index_list[i] is None else int(tree.insert_index_list[i]),
                 "data": -1 if tree.external_data_list[i] is None else int(tree.external_data_list[i])} for i in idx]

    def observe(step):
        pr = []
        P = probes_for(inserted)
        if len(inserted) > 40:          # long chains: the union (every leaf is reached), the far box and a thin sample of the probe lattice
            P = P[-2:] + P[::max(1, len(P) // 12)]
        for j, q in enumerate(P):
            p = {"id": f"{hid}.{step}.q{j}", "q": q, "res": [], "flag": False, "exc": "none"}
            try:
                flag, idx = tree.overlaps_aabb(lift_box(q, f))
                p["flag"] = bool(flag)
                p["res"] = lookup(tree, [int(i) for i in idx])
            except Exception as e:
                p["exc"] = type(e).__name__
            pr.append(p)
        ev.append({"ev": "probe", "id": f"{hid}.{step}", "probes": pr})
        for oi, ob in enumerate(OTHERS + ["self"]):
            # "self": the tree queried against itself (the case model-checked as TreeQueryExact); for the judge this is
            # another tree holding the inserted boxes in insertion order
            me = ob == "self"
            if me:
                ob = [list(map(list, b)) for b in inserted]
            e = {"ev": "tree", "id": f"{hid}.{step}.t{oi}", "other": ob, "pairs": [], "u1": [], "u2": [],
                 "flag": False, "exc": "none"}
            try:
                other = tree if me else AabbTree()
                if ob and not me:
                    other.insert_aabbs(np.array([lift_box(b, f) for b in ob]))
                flag, u1, u2, pairs = tree.overlaps_aabb_tree(other)
                e["flag"] = bool(flag)
                m1 = lambda i: -9 if tree.insert_index_list[int(i)] is None else int(tree.insert_index_list[int(i)])
                m2 = lambda i: -9 if other.insert_index_list[int(i)] is None else int(other.insert_index_list[int(i)])
                e["pairs"] = [[m1(a), m2(b)] for a, b in pairs]
                e["u1"] = [m1(i) for i in u1]
                e["u2"] = [m2(i) for i in u2]
            except Exception as ex:
                e["exc"] = type(ex).__name__
            ev.append(e)
        if inserted:
            e = {"ev": "rootbox", "id": f"{hid}.{step}.r", "box": [[0, 0]] * 3, "exc": "none"}
            try:
                rb = np.asarray(tree.get_root_aabb())
                # map back to the lattice through the (monotone) lift: exact match of one of the lifted coordinates
                inv = {}
                for b in inserted:
                    for k in range(3):
                        for c in b[k]:
                            inv[f(c)] = c
                e["box"] = [[inv.get(float(rb[k, 0]), -99999), inv.get(float(rb[k, 1]), 99999)] for k in range(3)]
            except Exception as ex:
                e["exc"] = type(ex).__name__
            ev.append(e)

    observe(0)           # the never-filled tree
    for step, call in enumerate(hist, 1):
        boxes = call["boxes"]
        data = call["data"]
        arr = np.array([lift_box(b, f) for b in boxes]).reshape(len(boxes), 3, 2)
        try:
            if call["mode"] == "single":
                tree.insert_aabb(arr[0], data[0] if data else None)
            else:
                tree.insert_aabbs(arr, list(data) if data else None, pre_insertion_methode=call["mode"])
            exc = "none"
        except Exception as ex:
            exc = type(ex).__name__
        ev.append({"ev": "insert", "id": f"{hid}.{step}", "boxes": boxes, "data": data if data else [],
                   "mode": call["mode"], "exc": exc})
        inserted += boxes
        observe(step)
    return ev


def mc_histories(res, cfgs, workers=16, heap="4g"):
    """TLC model checking of the explorer against the judge; returns the histories TLC visited
    (lattice coordinates doubled so that midpoints are integers)."""
    hists = {}
    for cfg in cfgs:
        r = tlc.run("c05", "AabbMC", cfg=cfg, workers=workers, heap=heap, timeout=7200)
        res.add_tlc(r)
        res.coverage.setdefault("mc_runs", []).append({"cfg": cfg, "states": r.distinct, "wall": round(r.wall, 1)})
        if r.invariant_violated:
            res.violation(f"mc:{cfg}:{','.join(r.invariant_violated)}", "ModelInvariant",
                          f"TLC: invariant {r.invariant_violated} violated on the explorer model (design-level finding; "
                          "reproduce on the implementation before reporting)", {"tlc_tail": r.out[-6000:]})
        elif not r.ok:
            res.machinery(f"TLC AabbMC {cfg} failed:\n" + r.out[-3000:])
        for m in re.finditer(r'<<"HIST", "(.*)">>', r.out):
            js = m.group(1).encode().decode("unicode_escape")
            h = json.loads(js)
            key = js
            if key not in hists:
                hists[key] = [{"boxes": [[[2 * c for c in ax] for ax in b] for b in call["boxes"]],
                               "data": call["data"], "mode": call["mode"]} for call in h]
    return list(hists.values())


def random_histories(n, rng):
    """harness-driven histories over larger pools (even lattice coordinates), incl. insert_aabb calls,
    empty batches and long flat / duplicate families"""
    out = []
    for _ in range(n):
        kind = rng.choice(("generic", "flat", "dup", "line", "nested"))
        def rbox():
            if kind == "flat":
                x, z = rng.randrange(-4, 10, 2), rng.randrange(-4, 10, 2)
                return [[x, x + rng.choice((0, 2, 4))], [0, 0], [z, z + rng.choice((0, 2))]]
            if kind == "line":
                x = rng.randrange(-6, 12, 2)
                return [[x, x + rng.choice((0, 2, 6))], [2, 2], [4, 4]]
            if kind == "dup":
                return rng.choice(([[0, 2], [0, 2], [0, 2]], [[2, 4], [0, 2], [0, 2]], [[0, 0], [0, 0], [0, 0]]))
            if kind == "nested":
                s = rng.choice((0, 2, 4, 6))
                return [[-s, s + 2], [-s, s + 2], [-s, s + 2]]
            lo = [rng.randrange(-6, 8, 2) for _ in range(3)]
            return [[lo[k], lo[k] + rng.choice((0, 2, 2, 4, 8))] for k in range(3)]
        h, k = [], 0
        for _ in range(rng.randint(1, 5)):
            nb = rng.choice((0, 1, 1, 2, 3, 4, 6))
            mode = rng.choice(("none", "sort", "shuffle", "single"))
            if mode == "single":
                nb = 1
            boxes = [rbox() for _ in range(nb)]
            withdata = rng.random() < 0.5
            h.append({"boxes": boxes, "data": [100 + k + i for i in range(nb)] if withdata else [], "mode": mode})
            k += nb
        out.append(h)
    # long chains: 70 .. 160 boxes inserted in spatial order (each overlaps its neighbours), as ordered batches (plus single
    # insertions) or sorted: a tree of linear depth, whose traversal keeps dozens of pending nodes for a query that covers the whole chain
    for c in range(max(2, n // 60)):
        m = rng.randint(70, 160)
        boxes = [[[2 * i, 2 * i + 4], [0, 2], [0, 2 + 2 * (i % 2)]] for i in range(m)]
        mode = ("mixed", "none", "sort")[c % 3]
        if mode == "mixed":
            h = [{"boxes": boxes[:m - 8], "data": [], "mode": "none"}] + [{"boxes": [b], "data": [], "mode": "single"} for b in boxes[m - 8:]]
        else:
            h = [{"boxes": boxes[:m // 2], "data": [], "mode": mode}, {"boxes": boxes[m // 2:], "data": [], "mode": mode}]
        out.append(h)
    return out


def judge_events(res, per_history, name):
    """shard whole histories over JVMs, validate with AabbTreeTrace; returns {event id: clauses}"""
    os.makedirs(os.path.join(WORK, "traces"), exist_ok=True)
    nsh = max(1, min(16, len(per_history)))
    paths, counts = [], []
    for s in range(nsh):
        p = os.path.join(WORK, "traces", f"{name}_{os.getpid()}_{s}.ndjson")
        n = 0
        with open(p, "w") as fh:
            for evs in per_history[s::nsh]:
                for e in evs:
                    if e["ev"] == "insert" and e["exc"] != "none":
                        # an insertion that raised: reported directly (the judge has no clause to evaluate)
                        res.violation(f"insert-raised:{e['mode']}:{e['exc']}", "NoException",
                                      f"insert ({e['mode']}) raised {e['exc']} in history {e['id']}", {"event": e})
                    fh.write(json.dumps(e, separators=(",", ":")) + "\n")
                    n += 1
            fh.write(json.dumps({"ev": "end", "id": "end", "count": n}) + "\n")
        paths.append(p)
        counts.append(n + 1)
    jobs = [dict(spec_dir="c05", module="AabbTreeTrace", cfg="AabbTreeTrace.cfg", workers=1,
                 env={"TRACE_FILE": p}, heap="2g", timeout=3600, tag=f"{name}_{i}") for i, p in enumerate(paths)]
    outs = tlc.run_many(jobs)
    rejects = {}
    for r, p, n in zip(outs, paths, counts):
        res.add_tlc(r)
        if not r.ok or "JUDGED" not in r.out:
            res.machinery(f"AabbTreeTrace did not consume {p} ({n} events):\n" + r.out[-3000:])
            continue
        try:
            from ..trace import parse_rejects
            rejects.update(parse_rejects(r.out))
        except ValueError as e:
            res.machinery(f"{e} for {p}")
        res.coverage["traces_validated_against_impl"] += n
        os.remove(p)
    return rejects


def run_replays(jobs):
    try:
        with ProcessPoolExecutor(max_workers=16) as ex:
            return list(ex.map(replay_history, jobs, chunksize=4))
    except BrokenProcessPool:
        # a worker died (e.g. out-of-bounds read under numba): isolate each history in its own process
        out = []
        for j in jobs:
            try:
                with ProcessPoolExecutor(max_workers=1) as ex:
                    out.append(ex.submit(replay_history, j).result())
            except BrokenProcessPool:
                out.append([{"ev": "new", "id": j[0]},
                            {"ev": "probe", "id": f"{j[0]}.crash", "probes": [
                                {"id": f"{j[0]}.crash", "q": [[0, 0]] * 3, "res": [], "flag": False, "exc": "crashed"}]}])
        return out


def run(tier, seed):
    env.setup()
    rng = random.Random(seed)
    res = Result("C05", tier, seed)
    cfgs = ["AabbMC_A3.cfg", "AabbMC_F3.cfg"] if tier == "quick" else ["AabbMC_A4.cfg", "AabbMC_F4.cfg"]
    hists = mc_histories(res, cfgs, heap="4g" if tier == "quick" else "12g")
    res.coverage["spec_histories"] = len(hists)
    if tier == "quick" and len(hists) > 400:
        rng.shuffle(hists)
        keep = [h for h in hists if len(h) >= 2][:400]
        hists = keep
    elif len(hists) > 6000:
        rng.shuffle(hists)
        hists = hists[:6000]
    rnd = random_histories(150 if tier == "quick" else 3000, rng)
    jobs, meta = [], {}
    for i, h in enumerate(hists):
        lift = ("id", "tenth", "third", "tiny", "big", "farfine")[i % 6]
        hid = f"s{i}"
        jobs.append((hid, h, lift, seed + i))
        meta[hid] = (h, lift, seed + i)
    for i, h in enumerate(rnd):
        for lift in (("id", "tenth", "farfine") if tier == "quick" else tuple(LIFTS)):
            hid = f"r{i}{lift[:2]}"
            jobs.append((hid, h, lift, seed + i))
            meta[hid] = (h, lift, seed + i)
    events = run_replays(jobs)
    rejects = judge_events(res, events, "c05")
    for eid, clauses in sorted(rejects.items()):
        hid = eid.split(".")[0]
        h, lift, nps = meta.get(hid, (None, None, None))
        res.violation(f"{chash([h, lift])}:{'+'.join(sorted(clauses))}", "+".join(sorted(clauses)),
                      f"event {eid} lift={lift} history={json.dumps(h)[:300]}",
                      {"history": h, "lift": lift, "npseed": nps, "event": eid})
    nontriv = {chash(h) for h, _, _ in meta.values() if sum(len(c["boxes"]) for c in h) >= 2}
    res.coverage["evaluations"] = sum(len(e) for e in events)
    res.coverage["distinct_nontrivial"] = len(nontriv)
    res.coverage["rule"] = ("histories = (a) every call history TLC visits in the explorer model (pools A: touching/nested/"
                            "duplicate/point boxes, F: coplanar zero-volume boxes; all batchings, modes none/sort/shuffle, "
                            "payload on/off), (b) seeded random histories over larger pools incl. insert_aabb and empty batches; "
                            "each replayed on the real tree under monotone coordinate lifts; after every call the tree is probed "
                            "with a probe lattice (touching / just-disjoint / corner / union boxes), three other trees and "
                            "get_root_aabb; non-trivial = history with >= 2 inserted boxes, distinct by content")
    res.coverage["exhaustive"] = False
    res.coverage["samples"] = [{"history": meta[j[0]][0], "lift": j[2]} for j in jobs[:2]] + \
                              [e for e in events[len(events) // 2][:3]]
    res.assumptions = ["coordinate lifts are strictly monotone on the lattice values used (asserted by the harness)",
                       "shuffle mode uses numpy's global RNG: the permutation is not controlled, several seeds are replayed"]
    return res


def replay(path):
    env.setup()
    v = json.load(open(path))["replay"]
    evs = replay_history(("x", v["history"], v["lift"], v["npseed"]))
    res = Result("C05", "quick", 0)
    rej = judge_events(res, [evs], "c05r")
    print("history:", json.dumps(v["history"]))
    print("rejected:", rej or "none", res.machinery_errors)
    return 1 if rej else 0
