"""C06 - BVH broad phase + self collision (judge specs/c06/Bvh.tla, explorer SelfCollision.tla, trace BvhTrace.tla)."""
import json, os, random, re, math
import numpy as np
from .. import env, tlc
from ..ratio import ticks
from ..result import Result, chash
from ..env import WORK

SCALE = 20          # lattice = 1/20 length unit (geometry of rotating robots uses tenths so that boxes never touch exactly)


def make_robot(rng, rotating):
    """a random kinematic tree as URDF text; returns (urdf, joints {name: (type, lower, upper)}, n_links)"""
    n = rng.randint(2, 5)
    parents = [None] + [rng.randrange(i) if rng.random() < 0.6 else i - 1 for i in range(1, n)]
    fr = [0.1, 0.2, 0.3, 0.35, 0.45]
    links, joints, jinfo = [], [], {}
    order = list(range(n))
    if rng.random() < 0.4:
        rng.shuffle(order)               # links declared in arbitrary (not topological) order
    for i in range(n):
        geoms = []
        for g in range(rng.choice((1, 1, 2))):
            f = fr[i] if rotating else 0.0
            kind = rng.choice(("box", "sphere", "cylinder"))
            o = [rng.randint(-1, 1) for _ in range(3)]
            if kind == "box":
                sz = [2 * (rng.randint(0, 2) + f) if rng.random() < 0.9 or rotating else 0.0 for _ in range(3)]
                if not rotating and rng.random() < 0.15:
                    sz[rng.randrange(3)] = 0.0          # zero-thickness plate
                if max(sz) == 0:
                    sz[0] = 2.0
                geo = f'<box size="{sz[0]} {sz[1]} {sz[2]}"/>'
            elif kind == "sphere":
                geo = f'<sphere radius="{rng.randint(1, 2) + f}"/>'
            else:
                geo = f'<cylinder radius="{rng.randint(1, 2) + f}" length="{2 * (rng.randint(1, 2) + f)}"/>'
            geoms.append(f'<collision><origin xyz="{o[0]} {o[1]} {o[2]}" rpy="0 0 0"/><geometry>{geo}</geometry></collision>')
        links.append((i, f'<link name="l{i}">' + "".join(geoms) + "</link>"))
    for i in range(1, n):
        jt = rng.choice(("prismatic", "prismatic", "fixed") + (("revolute", "revolute") if rotating else ()))
        ax = [0, 0, 0]; ax[rng.randrange(3)] = 1
        o = [rng.randint(-3, 3) for _ in range(3)]
        name = f"j{i}"
        lim = '<limit lower="-4" upper="4"/>' if jt == "prismatic" else ('<limit lower="-3.2" upper="3.2"/>' if jt == "revolute" else "")
        joints.append(f'<joint name="{name}" type="{jt}"><parent link="l{parents[i]}"/><child link="l{i}"/>'
                      f'<origin xyz="{o[0]} {o[1]} {o[2]}" rpy="0 0 0"/><axis xyz="{ax[0]} {ax[1]} {ax[2]}"/>{lim}</joint>')
        if jt != "fixed":
            jinfo[name] = jt
    body = "".join(l for _, l in sorted(links, key=lambda t: order.index(t[0]))) + "".join(joints)
    return f'<?xml version="1.0"?><robot name="r">{body}</robot>', jinfo, n


def lattice_box(aabb, strict=True):
    a = np.asarray(aabb, dtype=float) * SCALE
    r = np.round(a)
    if np.max(np.abs(a - r)) > 1e-6:
        if strict:
            return None
    return [[int(r[k, 0]), int(r[k, 1])] for k in range(3)]


def observe_all(ev, hid, rng, tm, bvh, frames, wl, mover, nsteps, other, oframes):
    """after construction and after every pose change: log the abstract state and the five public calls"""
    from distance3d import self_collision, gjk, colliders as C
    for step in range(nsteps + 1):
        exc = "none"
        if step > 0:
            try:
                mover(step)
            except Exception as e:
                exc = type(e).__name__
        sid = f"{hid}.{step}"
        L = max(1.0, max(float(np.linalg.norm(tm.get_transform(f, "origin")[:3, 3])) for f in frames))
        box, hit, pt, bad = {}, {f: [] for f in frames}, {}, False
        for f in frames:
            c = bvh.colliders_[f]
            b = lattice_box(c.aabb())
            if b is None:
                bad = True
                b = [[0, 0]] * 3
            box[f] = b
            dp = np.asarray(c.collider2origin()) - tm.get_transform(f, "origin")
            if isinstance(c, C.Sphere):
                dp = dp[:3, 3]              # a sphere collider has no orientation
            pt[f] = ticks(float(np.max(np.abs(dp))), 1e-9 * L / 8)
        for i, f in enumerate(frames):
            for g in frames[i + 1:]:
                if gjk.gjk_intersection(bvh.colliders_[f], bvh.colliders_[g]):
                    hit[f].append(g); hit[g].append(f)
        ev.append({"ev": "state", "id": sid, "box": box, "hit": hit, "poseTicks": pt, "exc": exc, "offLattice": bad})
        if bad or exc != "none":
            continue
        # queries: every collider of the robot as query, plus obstacle boxes
        for qi, f in enumerate(frames):
            e = {"ev": "qcollider", "id": f"{sid}.q{qi}", "q": box[f], "whitelist": wl[f] if qi % 2 else [], "result": [], "exc": "none"}
            try:
                e["result"] = sorted(bvh.aabb_overlapping_colliders(bvh.colliders_[f], whitelist=e["whitelist"]).keys())
            except Exception as ex:
                e["exc"] = type(ex).__name__
            ev.append(e)
        for k, of in enumerate(oframes):
            oc = other.colliders_[of]
            e = {"ev": "qcollider", "id": f"{sid}.o{k}", "q": lattice_box(oc.aabb(), False), "whitelist": [], "result": [], "exc": "none"}
            try:
                e["result"] = sorted(bvh.aabb_overlapping_colliders(oc).keys())
            except Exception as ex:
                e["exc"] = type(ex).__name__
            ev.append(e)
        if other is None:
            oframes = []
        e = {"ev": "qother", "id": f"{sid}.ob", "other": [lattice_box(other.colliders_[of].aabb(), False) for of in oframes], "pairs": [], "exc": "none"}
        if other is not None:
            try:
                e["pairs"] = [[a[0], oframes.index(b[0]) + 1] for a, b in bvh.aabb_overlapping_with_other_bvh(other)]
            except Exception as ex:
                e["exc"] = type(ex).__name__
            ev.append(e)
        e = {"ev": "qself", "id": f"{sid}.sf", "pairs": [], "exc": "none"}
        try:
            e["pairs"] = [[a[0], b[0]] for a, b in bvh.aabb_overlapping_with_self()]
        except Exception as ex:
            e["exc"] = type(ex).__name__
        ev.append(e)
        e = {"ev": "detect", "id": f"{sid}.dt", "marked": [], "colliding": [], "exc": "none"}
        try:
            c = self_collision.detect(bvh)
            e["marked"] = sorted(c.keys()); e["colliding"] = sorted(k for k, v in c.items() if v)
        except Exception as ex:
            e["exc"] = type(ex).__name__
        ev.append(e)
        e = {"ev": "detectany", "id": f"{sid}.da", "any": False, "exc": "none"}
        try:
            e["any"] = bool(self_collision.detect_any(bvh))
        except Exception as ex:
            e["exc"] = type(ex).__name__
        ev.append(e)


def setup_manual(rng):
    """a hierarchy assembled with add_collider: coplanar zero-thickness plates, boxes, spheres, capsules,
    cones, cylinders and small meshes at lattice poses; whitelists supplied by hand (possibly asymmetric)"""
    from pytransform3d.transform_manager import TransformManager
    from distance3d.broad_phase import BoundingVolumeHierarchy
    from distance3d import colliders as C
    from .. import shapes as S
    tm = TransformManager()
    bvh = BoundingVolumeHierarchy(tm, "base")
    n = rng.randint(3, 8)
    plane = rng.randrange(3)
    frames = []
    for k in range(n):
        f = f"c{k}"
        T = np.eye(4)
        T[:3, 3] = [rng.randint(-4, 4) for _ in range(3)]
        kind = rng.choice(("plate", "plate", "plate", "box", "sphere", "capsule", "cone", "cylinder", "mesh"))
        if kind == "plate":
            T[plane, 3] = 0.0
            size = np.array([2.0 * rng.randint(1, 2)] * 3); size[plane] = 0.0
        tm.add_transform(f, "base", T)
        A2B = tm.get_transform(f, "origin")
        if kind == "plate":
            col = C.Box(A2B, size)
        elif kind == "box":
            col = C.Box(A2B, np.array([2.0 * rng.randint(1, 2) for _ in range(3)]))
        elif kind == "sphere":
            col = C.Sphere(A2B[:3, 3].copy(), float(rng.randint(1, 2)))
        elif kind == "capsule":
            col = C.Capsule(A2B, float(rng.randint(1, 2)), 2.0 * rng.randint(1, 2))
        elif kind == "cone":
            col = C.Cone(A2B, float(rng.randint(1, 2)), float(rng.randint(1, 3)))
        elif kind == "cylinder":
            col = C.Cylinder(A2B, float(rng.randint(1, 2)), 2.0 * rng.randint(1, 2))
        else:
            V = np.ascontiguousarray(np.array(S.CUBE_V, dtype=float))
            col = C.MeshGraph(A2B, V, S.hull_triangles(S.CUBE_V))
        bvh.add_collider(f, col)
        frames.append(f)
    for f in frames:
        bvh.self_collision_whitelists_[f] = sorted({f} | {g for g in frames if rng.random() < 0.25})
    bvh.update_collider_poses()
    return tm, bvh, frames


def run_history(args):
    hid, seed = args
    env.setup()
    if seed % 4 == 3:
        return run_manual_history(hid, seed)
    return run_urdf_history(hid, seed)


def run_manual_history(hid, seed):
    from distance3d import colliders as C
    rng = random.Random(seed)
    tm, bvh, frames = setup_manual(rng)
    frames = sorted(frames)
    wl = {f: sorted(bvh.self_collision_whitelists_[f]) for f in frames}
    ev = [{"ev": "robot", "id": hid, "frames": frames, "wl": wl, "urdf": "manual:" + str(seed)}]

    def mover(step):
        for f in frames:
            if rng.random() < 0.4:
                T = tm.get_transform(f, "base").copy()
                ax = rng.randrange(3)
                if not (isinstance(bvh.colliders_[f], C.Box) and min(bvh.colliders_[f].size) == 0.0 and rng.random() < 0.7):
                    T[ax, 3] += rng.randint(-2, 2)
                else:
                    pl = int(np.argmin(bvh.colliders_[f].size))
                    T[(pl + 1) % 3, 3] += rng.randint(-2, 2)          # plates slide within their plane
                tm.add_transform(f, "base", T)
        bvh.update_collider_poses()
    observe_all(ev, hid, rng, tm, bvh, frames, wl, mover, rng.randint(1, 4), None, [])
    return ev


def run_urdf_history(hid, seed):
    from pytransform3d.urdf import UrdfTransformManager
    from distance3d.broad_phase import BoundingVolumeHierarchy
    from distance3d import self_collision, gjk, colliders as C
    rng = random.Random(seed)
    rotating = rng.random() < 0.4
    urdf, jinfo, n = make_robot(rng, rotating)
    ev = []
    tm = UrdfTransformManager()
    tm.load_urdf(urdf)
    base2origin = np.eye(4)
    moved_base = rng.random() < 0.3
    bvh = BoundingVolumeHierarchy(tm, "r", base2origin)
    bvh.fill_tree_with_colliders(tm, fill_self_collision_whitelists=True)
    frames = sorted(bvh.colliders_.keys())
    wl = {f: sorted(set(bvh.self_collision_whitelists_[f]) & set(frames)) for f in frames}
    ev.append({"ev": "robot", "id": hid, "frames": frames, "wl": wl, "urdf": urdf})
    # a second, static hierarchy of obstacles
    from pytransform3d.transform_manager import TransformManager
    tm2 = TransformManager()
    other = BoundingVolumeHierarchy(tm2, "world")
    oboxes = []
    for k in range(rng.randint(0, 3)):
        T = np.eye(4); T[:3, 3] = [rng.randint(-5, 5) for _ in range(3)]
        tm2.add_transform(f"o{k}", "world", T)
        size = np.array([2.0 * (rng.randint(1, 2) + (0.15 if rotating else 0.0))] * 3)
        other.add_collider(f"o{k}", C.Box(tm2.get_transform(f"o{k}", "origin"), size))
    other.update_collider_poses()
    oframes = [d[0] for d in other.aabbtree_.external_data_list if d is not None]
    moving_obstacles = rng.random() < 0.6

    def mover(step):
        micro = rng.random() < 0.25          # a tiny motion (1e-6 units / radians) on top of the lattice configuration: the colliders must follow
        for name, jt in jinfo.items():
            if rng.random() < 0.7:
                val = float(rng.randint(-4, 4)) if jt == "prismatic" else rng.randint(-2, 2) * math.pi / 2
                tm.set_joint(name, val + (1e-6 * rng.choice((-1, 1, 3)) if micro else 0.0))
        if moved_base and rng.random() < 0.6:
            T = np.eye(4); T[:3, 3] = [rng.randint(-3, 3) for _ in range(3)]
            tm.add_transform("r", "origin", T)            # the mobile base moves
        bvh.update_collider_poses()
        if moving_obstacles:
            # the second hierarchy moves too; the cross-hierarchy query that follows is the first query after its update
            for k in range(len(oframes)):
                if rng.random() < 0.7:
                    T = np.eye(4); T[:3, 3] = [rng.randint(-5, 5) for _ in range(3)]
                    tm2.add_transform(f"o{k}", "world", T)
            other.update_collider_poses()
    observe_all(ev, hid, rng, tm, bvh, frames, wl, mover, rng.randint(1, 4), other, oframes)
    return ev


def life_histories(res, tier, rng):
    """behaviours of the life-cycle explorer BvhLife.tla: exhaustive check of the library design, simulated behaviours of it, and
    the histories TLC finds against the lazy-rebuild design (which must exist)"""
    import re
    jobs = [dict(spec_dir="c06", module="BvhLife", cfg="BvhLife.cfg", workers=4, heap="2g", tag="bl_main"),
            dict(spec_dir="c06", module="BvhLife", cfg="BvhLife_sim.cfg", workers=1, heap="1g", tag="bl_sim",
                 simulate=f"num={40 if tier == 'quick' else 1000}", depth=7, extra=("-seed", str(rng.randrange(1 << 30)))),
            dict(spec_dir="c06", module="BvhLife", cfg="BvhLife_lazy.cfg", workers=2, heap="1g", tag="bl_lazy")]
    main, sim, lazy = tlc.run_many(jobs)
    res.add_tlc(main); res.add_tlc(lazy)
    if main.invariant_violated:
        res.violation("mc:BvhLife", "ModelInvariant", f"TLC: {main.invariant_violated} violated on the BVH life-cycle model", {"tlc_tail": main.out[-3000:]})
    elif not main.ok:
        res.machinery("TLC BvhLife failed:\n" + main.out[-2000:])

    def parse(r, tag):
        hs = {}
        for m in re.finditer(r'<<"%s",\s*"((?:[^"\\]|\\.)*)">>' % tag, r.out, re.S):
            js = re.sub(r"\s*\n\s*", "", m.group(1)).encode().decode("unicode_escape")
            hs[js] = json.loads(js)
        return list(hs.values())
    sims, wit = parse(sim, "HIST"), parse(lazy, "WITNESS")
    if not sims:
        res.machinery("TLC simulation of BvhLife produced no behaviours:\n" + sim.out[-1500:])
    if not wit:
        res.machinery("the lazy-rebuild design has no witness history in BvhLife (vacuous model)")
    res.coverage["bvhlife_behaviours"] = len(sims)
    res.coverage["bvhlife_witnesses"] = len(wit)
    rng.shuffle(wit)
    return sims + wit[:(12 if tier == "quick" else 56)]


def run_life(args):
    """replay one BvhLife behaviour on two real hierarchies of two lattice boxes each; every query is judged by BvhTrace"""
    hid, seed, hist = args
    env.setup()
    from pytransform3d.transform_manager import TransformManager
    from distance3d.broad_phase import BoundingVolumeHierarchy
    from distance3d import colliders as C, gjk
    rng = random.Random(seed)
    hs, ev = {}, []
    for h in ("r", "o"):
        tm = TransformManager()
        bvh = BoundingVolumeHierarchy(tm, "base")
        for c in ("c1", "c2"):
            T = np.eye(4); T[:3, 3] = [rng.randint(-3, 3) for _ in range(3)]
            tm.add_transform(c, "base", T)
            bvh.add_collider(c, C.Box(tm.get_transform(c, "origin"), np.array([2.0 * rng.randint(1, 2) for _ in range(3)])))
        hs[h] = (tm, bvh)

    def state(h, sid):
        tm, bvh = hs[h]
        frames = ["c1", "c2"]
        box = {f: lattice_box(bvh.colliders_[f].aabb()) or [[0, 0]] * 3 for f in frames}
        pt = {f: ticks(float(np.max(np.abs(np.asarray(bvh.colliders_[f].collider2origin()) - tm.get_transform(f, "origin")))), 1e-9 / 8) for f in frames}
        hit = {f: [] for f in frames}
        if gjk.gjk_intersection(bvh.colliders_["c1"], bvh.colliders_["c2"]):
            hit = {"c1": ["c2"], "c2": ["c1"]}
        ev.append({"ev": "robot", "id": sid + ".rb", "frames": frames, "wl": {f: [] for f in frames}, "urdf": "life"})
        ev.append({"ev": "state", "id": sid, "box": box, "hit": hit, "poseTicks": pt, "exc": "none", "offLattice": False})
        return box
    ev.append({"ev": "robot", "id": hid, "frames": ["c1", "c2"], "wl": {"c1": [], "c2": []}, "urdf": "life:" + json.dumps(hist)})
    for k, x in enumerate(hist):
        sid = f"{hid}.{k}"
        tm, bvh = hs[x["h"]]
        try:
            if x["op"] == "move":
                T = np.eye(4); T[:3, 3] = [rng.randint(-3, 3) for _ in range(3)]
                tm.add_transform(x["c"], "base", T)
            elif x["op"] == "update":
                bvh.update_collider_poses()
            elif x["op"] == "qown":
                box = state(x["h"], sid)
                e = {"ev": "qself", "id": sid + ".sf", "pairs": [[a[0], b[0]] for a, b in bvh.aabb_overlapping_with_self()], "exc": "none"}
                ev.append(e)
                for f in ("c1", "c2"):
                    ev.append({"ev": "qcollider", "id": f"{sid}.q{f}", "q": box[f], "whitelist": [], "exc": "none",
                               "result": sorted(bvh.aabb_overlapping_colliders(bvh.colliders_[f]).keys())})
            else:
                state(x["h"], sid)
                other = hs[x["g"]][1]
                of = ["c1", "c2"]
                ev.append({"ev": "qother", "id": sid + ".ob", "other": [lattice_box(other.colliders_[f].aabb(), False) for f in of], "exc": "none",
                           "pairs": [[a[0], of.index(b[0]) + 1] for a, b in bvh.aabb_overlapping_with_other_bvh(other)]})
        except Exception as ex:
            ev.append({"ev": "qself", "id": sid + ".exc", "pairs": [], "exc": type(ex).__name__})
    return ev


def judge_events(res, per_history, name):
    from ..trace import parse_rejects
    os.makedirs(os.path.join(WORK, "traces"), exist_ok=True)
    nsh = max(1, min(16, len(per_history) // 10 + 1))
    paths, counts = [], []
    for sh in range(nsh):
        p = os.path.join(WORK, "traces", f"{name}_{os.getpid()}_{sh}.ndjson")
        n = 0
        with open(p, "w") as fh:
            for evs in per_history[sh::nsh]:
                for e in evs:
                    e = {k: v for k, v in e.items() if k != "urdf"}
                    fh.write(json.dumps(e, separators=(",", ":")) + "\n")
                    n += 1
            fh.write(json.dumps({"ev": "end", "id": "end", "count": n}) + "\n")
        paths.append(p); counts.append(n + 1)
    outs = tlc.run_many([dict(spec_dir="c06", module="BvhTrace", cfg="BvhTrace.cfg", workers=1, env={"TRACE_FILE": p},
                              heap="2g", timeout=3600, tag=f"{name}_{i}") for i, p in enumerate(paths)])
    rejects = {}
    for r, p, n in zip(outs, paths, counts):
        res.add_tlc(r)
        if not r.ok or "JUDGED" not in r.out:
            res.machinery(f"BvhTrace did not consume {p}:\n" + r.out[-2500:])
            continue
        try:
            rejects.update(parse_rejects(r.out))
        except ValueError as e:
            res.machinery(f"{e} for {p}")
        res.coverage["traces_validated_against_impl"] += n
        os.remove(p)
    return rejects


def run(tier, seed):
    env.setup()
    res = Result("C06", tier, seed)
    for cfg in (["SelfCollision3.cfg"] if tier == "quick" else ["SelfCollision3.cfg", "SelfCollision4.cfg"]):
        r = tlc.run("c06", "SelfCollision", cfg=cfg, workers=16, heap="8g", timeout=7200)
        res.add_tlc(r)
        res.coverage.setdefault("mc_runs", []).append({"cfg": cfg, "states": r.distinct, "wall": round(r.wall, 1)})
        if r.invariant_violated:
            res.violation(f"mc:{cfg}:{','.join(r.invariant_violated)}", "ModelInvariant", f"TLC: {r.invariant_violated} violated on the detect model",
                          {"tlc_tail": r.out[-4000:]})
        elif not r.ok:
            res.machinery(f"TLC SelfCollision {cfg} failed:\n" + r.out[-2000:])
    from concurrent.futures import ProcessPoolExecutor
    jobs = [(f"h{i}", seed * 100003 + i) for i in range(160 if tier == "quick" else 4000)]
    with ProcessPoolExecutor(max_workers=16) as ex:
        events = list(ex.map(run_history, jobs, chunksize=4))
    # unbounded safety of the eager life cycle: Apalache checks that IndInv of BvhLifeInd.tla is inductive (and refutes a control)
    from concurrent.futures import ThreadPoolExecutor
    with ThreadPoolExecutor(max_workers=3) as tex:
        a0, a1, a2 = list(tex.map(lambda a: tlc.apalache("c06", "BvhLifeInd", a, tag="bli_" + a[-1][-1]),
                                  [["--cinit=CInit", "--init=Init", "--inv=IndInv", "--length=0"],
                                   ["--cinit=CInit", "--init=IndInit", "--inv=IndInv", "--length=1"],
                                   ["--cinit=CInit", "--init=IndInit", "--inv=NotInductive", "--length=1", "--max-error=1"]]))
    res.coverage["apalache_inductive"] = {"init_implies_inv": a0[0], "inv_is_inductive": a1[0], "control_refuted": a2[0] == "ERROR"}
    if a0[0] != "OK" or a1[0] != "OK":
        if "EXITCODE: ERROR (12)" in a0[1] + a1[1]:
            res.violation("apalache:BvhLifeInd", "ModelInvariant", "Apalache: IndInv of the eager BVH life cycle is not inductive", {"tail": (a0[1] + a1[1])[-3000:]})
        else:
            res.machinery("Apalache failed on BvhLifeInd:\n" + (a0[1] + a1[1])[-2000:])
    if a2[0] == "OK":
        res.machinery("Apalache accepted the non-inductive control invariant of BvhLifeInd (vacuous check)")
    # life-cycle explorer BvhLife.tla: model checking, simulated behaviours and witness histories replayed on real hierarchies
    lrng = random.Random(seed * 59 + 1)
    lh = life_histories(res, tier, lrng)
    with ProcessPoolExecutor(max_workers=16) as ex:
        events += list(ex.map(run_life, [(f"L{i}", seed * 977 + i, h) for i, h in enumerate(lh)], chunksize=4))
    jobs += [(f"L{i}", seed * 977 + i) for i in range(len(lh))]
    rejects = judge_events(res, events, "c06")
    byh = {evs[0]["id"]: evs for evs in events}
    for eid, clauses in sorted(rejects.items()):
        hid = eid.split(".")[0]
        evs = byh[hid]
        e = next((x for x in evs if x.get("id") == eid), {})
        res.violation(f"{'+'.join(sorted(clauses))}:{chash(evs[0]['urdf'])}:{eid.split('.', 1)[1] if '.' in eid else ''}", "+".join(sorted(clauses)),
                      f"event {eid}: {json.dumps({k: v for k, v in e.items() if k not in ('box', 'hit', 'poseTicks')})[:400]} wl={json.dumps(evs[0]['wl'])[:300]}",
                      {"urdf": evs[0]["urdf"], "event": e, "seed": dict(jobs)[hid]})
    res.coverage["evaluations"] = sum(len(e) for e in events)
    res.coverage["off_lattice_states"] = sum(1 for evs in events for e in evs if e.get("offLattice"))
    res.coverage["asymmetric_whitelists"] = sum(1 for evs in events if any(g in evs[0]["wl"][f] and f not in evs[0]["wl"][g] for f in evs[0]["frames"] for g in evs[0]["frames"]))
    res.coverage["distinct_nontrivial"] = len({chash(evs[0]["urdf"]) for evs in events if len(evs[0]["frames"]) >= 2})
    res.coverage["rule"] = ("random kinematic chains and trees (2-5 links, 1-2 collision objects per link: box incl. zero-thickness plates, sphere, "
                            "cylinder; prismatic / revolute / fixed joints; links declared in arbitrary order) as URDF, loaded with "
                            "UrdfTransformManager, BVH filled with generated whitelists; histories of 1-4 joint / base changes + "
                            "update_collider_poses; after each step all five public calls are logged and judged; non-trivial = >= 2 colliders")
    res.coverage["samples"] = [events[0][0], {k: v for k, v in events[0][1].items()}]
    res.assumptions = ["narrow-phase truth = all-pairs gjk_intersection on the current colliders (the property's own reference; C02 judges it)",
                       "states whose AABBs are not on the 1/20 lattice are only checked for PoseFollowsTM (counted as off_lattice_states)"]
    return res


def replay(path):
    v = json.load(open(path))["replay"]
    print(v["urdf"]); print(json.dumps(v["event"])[:2000])
    return 1
