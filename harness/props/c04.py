"""C04 - AABBs enclose and are tight (judge specs/shapes/ShapeJudge.tla, clauses of kind "aabb")."""
import math, random
import numpy as np
from .. import env, tlc, trace, shapes as S
from ..ratio import recon_vec, ticks
from ..result import Result, chash
from .c03 import mc

TOL = 1e-9


def free_function_aabb(s, unit, R, tw):
    """the free functions of distance3d.containment, called directly"""
    from distance3d import containment as ct
    T = np.eye(4); T[:3, :3] = R; T[:3, 3] = tw
    T = np.ascontiguousarray(T)
    k = s["kind"]
    if k == "sphere":
        return ct.sphere_aabb(np.array(tw, dtype=float), unit * s["r"])
    if k == "capsule":
        return ct.capsule_aabb(T, unit * s["r"], unit * s["h"])
    if k == "cylinder":
        return ct.cylinder_aabb(T, unit * s["r"], unit * s["h"])
    if k == "cone":
        return ct.cone_aabb(T, unit * s["r"], unit * s["h"])
    if k == "ellipsoid":
        return ct.ellipsoid_aabb(T, unit * np.array([s["a"], s["b"], s["c"]], dtype=float))
    if k == "disk":
        return ct.disk_aabb(np.array(tw, dtype=float), unit * s["r"], np.ascontiguousarray(R[:, 2]))
    if k == "ellipse":
        return ct.ellipse_aabb(np.array(tw, dtype=float), np.ascontiguousarray(R[:, :2].T), unit * np.array([s["a"], s["b"]], dtype=float))
    if k == "box":
        return ct.box_aabb(T, unit * np.array([s["a"], s["b"], s["c"]], dtype=float))
    if k == "hull":
        return ct.axis_aligned_bounding_box(S.world_vertices(s, unit, R, tw))


def aabb_record(rid, s, unit, M, N, t, R, tw, getter, cname, exact, margin=0.0, tier=1):
    L = S.scale_L(s, unit, tw)
    tick = TOL * L / 8
    rows = [[int(x) for x in M[i]] for i in range(3)] if exact else [[1, 0, 0]] * 3
    ks = [S.isqrt_exact(S.radicand(s, r)) for r in rows] if exact else [None] * 3
    closed = bool(exact and all(k is not None for k in ks))
    axis_aligned = bool(np.all(np.isclose(np.abs(R), 0) | np.isclose(np.abs(R), 1)))
    rec = {"id": rid, "kind": "aabb", "tier": tier, "cls": cname, "shape": {kk: v for kk, v in s.items() if kk != "name"},
           "rows": rows, "N": int(N) if exact else 1, "t": [int(x) for x in t] if exact else [0, 0, 0],
           "k": [int(k) if k is not None else 0 for k in ks], "closed": closed, "recon": False,
           "lon": [0, 0, 0], "hin": [0, 0, 0], "bd": 1, "rticks": 0, "loticks": [0, 0, 0], "hiticks": [0, 0, 0],
           "axisAligned": axis_aligned, "exc": "none"}
    try:
        out = getter()
        if isinstance(out, tuple):
            lo, hi = np.asarray(out[0], dtype=float), np.asarray(out[1], dtype=float)
        else:
            out = np.asarray(out, dtype=float)
            lo, hi = out[:, 0], out[:, 1]
        lo, hi = lo + margin, hi - margin
    except Exception as e:
        rec["exc"] = type(e).__name__
        return rec
    if not (np.all(np.isfinite(lo)) and np.all(np.isfinite(hi))):
        rec["exc"] = "NonFinite"
        return rec
    if closed:
        v = np.concatenate([lo, hi]) / unit
        ok, vn, vd = recon_vec(v, 2 * int(N) * 2, TOL * L / unit)
        if ok and max(abs(c) for c in vn) < 100000:
            rec["recon"], rec["lon"], rec["hin"], rec["bd"] = True, vn[:3], vn[3:], vd
            rec["rticks"] = ticks(float(np.max(np.abs(v - np.array(vn) / vd))) * unit, tick)
        else:
            closed = False
            rec["closed"] = False
    if not closed:
        for i in range(3):
            hp = tw[i] + unit * S.support_val(s, R[i, :])
            hm = tw[i] - unit * S.support_val(s, -R[i, :])
            rec["hiticks"][i] = ticks(abs(hi[i] - hp), tick)
            rec["loticks"][i] = ticks(abs(lo[i] - hm), tick)
    return rec


def gen(tier, seed):
    from distance3d import colliders as C
    rng = random.Random(seed)
    recs, n = [], 0
    cat = S.catalogue()
    nrot = 10 if tier == "quick" else 32
    for s in cat:
        rots = S.ROTS if nrot >= len(S.ROTS) else ([S.ROTS[0]] + rng.sample(S.ROTS[1:24], nrot // 2) + S.RATIONAL[:nrot - 1 - nrot // 2])
        for ri, (M, N) in enumerate(rots):
            unit = rng.choice((1.0, 0.5, 0.05, 4.0)) if S.feature_size(s) * 4.0 <= 100 else rng.choice((1.0, 0.5, 0.05))
            t = [rng.randint(-8, 8) for _ in range(3)] if ri else [0, 0, 0]
            R = np.array(M, dtype=float) / N
            tw = unit * np.array(t, dtype=float)
            for cname, coll in S.build(s, unit, R, tw).items():
                n += 1
                recs.append(aabb_record(f"a{n}", s, unit, M, N, t, R, tw, coll.aabb, cname, True))
                m = unit * rng.choice((1, 3))
                mc = C.Margin(coll, m)
                for rep in range(2):       # repeated queries on the same objects: answers must not drift
                    n += 1
                    recs.append(aabb_record(f"a{n}", s, unit, M, N, t, R, tw, mc.aabb, f"Margin({cname})", True, margin=m))
                n += 1
                recs.append(aabb_record(f"a{n}", s, unit, M, N, t, R, tw, coll.aabb, cname, True))
            n += 1
            recs.append(aabb_record(f"a{n}", s, unit, M, N, t, R, tw, lambda: free_function_aabb(s, unit, R, tw),
                                    "containment." + s["kind"] + "_aabb", True))
    nfl = 12 if tier == "quick" else 150
    for s in cat:
        for fi in range(nfl):
            R = S.random_rotation(rng)
            if fi % 3 == 0:
                # nearly axis-aligned: a lattice rotation tilted by a tiny angle about a random axis
                ax = np.array([rng.gauss(0, 1) for _ in range(3)]); ax /= np.linalg.norm(ax)
                ang = 10 ** rng.uniform(-9, -3)
                K = np.array([[0, -ax[2], ax[1]], [ax[2], 0, -ax[0]], [-ax[1], ax[0], 0]])
                Rt = np.eye(3) + math.sin(ang) * K + (1 - math.cos(ang)) * (K @ K)
                # 40 % of them tilt the identity itself (a fast path for "axis-aligned" poses tests the diagonal of R: seed C04-8)
                R = Rt @ (np.eye(3) if rng.random() < 0.4 else np.array(rng.choice(S.CUBE)[0], dtype=float))
            fs = S.feature_size(s)
            unit = 10 ** rng.uniform(math.log10(2e-2), math.log10(100.0 / fs))
            tw = np.array([rng.uniform(-1, 1) for _ in range(3)]) * rng.choice((0.0, 1.0, 100.0, 500.0))
            for cname, coll in S.build(s, unit, R, tw).items():
                n += 1
                recs.append(aabb_record(f"a{n}", s, unit, None, 1, None, R, tw, coll.aabb, cname, False, tier=3))
            n += 1
            recs.append(aabb_record(f"a{n}", s, unit, None, 1, None, R, tw, lambda: free_function_aabb(s, unit, R, tw),
                                    "containment." + s["kind"] + "_aabb", False, tier=3))
    return recs


def rigid_body_records(tier, seed, n0, res):
    """RigidBody.aabb() must bound the body's vertices in the world frame: fresh factory bodies at general poses and
    bodies with a history of contact queries (sessions of the hydroelastic session model, harness/props/c16.py)"""
    from . import c16
    rng = random.Random(seed * 31 + 5)
    recs, n = [], n0

    def rec_of(kind, lo, hi, L, tag, exc="none"):
        nonlocal n
        n += 1
        tick = TOL * L / 8
        return {"id": f"a{n}", "kind": "aabb", "tier": 3, "cls": f"RigidBody.{kind}[{tag}]", "shape": {"kind": "rigidbody", "factory": kind},
                "rows": [[1, 0, 0]] * 3, "N": 1, "t": [0, 0, 0], "k": [0, 0, 0], "closed": False, "recon": False, "lon": [0, 0, 0], "hin": [0, 0, 0],
                "bd": 1, "rticks": 0, "loticks": [ticks(abs(x), tick) for x in lo], "hiticks": [ticks(abs(x), tick) for x in hi],
                "axisAligned": False, "exc": exc}
    for i in range(18 if tier == "quick" else 300):
        kind = rng.choice(c16.KINDS)
        T = c16.rand_pose(rng, np.array([rng.uniform(-1, 1) for _ in range(3)]) * rng.choice((0.0, 1.0, 100.0)), general=0.9)
        try:
            b = c16.make_body(kind, T, 1.0)
            W = c16.world_vertices(b)
            box = np.asarray(b.aabb(), dtype=float)
            recs.append(rec_of(kind, box[:, 0] - W.min(axis=0), box[:, 1] - W.max(axis=0), max(1.0, float(np.max(np.abs(W)))), "fresh"))
        except Exception as ex:
            recs.append(rec_of(kind, [0] * 3, [0] * 3, 1.0, "fresh", type(ex).__name__))
    ops = []
    wit = [c16.witnesses(res, "boxcache"), c16.witnesses(res, "boxcache2")]
    for i in range(12 if tier == "quick" else 150):
        h = []
        for _ in range(4):
            b1, b2 = rng.sample(c16.NAMES, 2)
            h.append(rng.choice(({"op": "cf", "b1": b1, "b2": b2, "bp": rng.choice(("brute", "tree")), "det": False, "how": "-"},
                                 {"op": "tree", "b1": b1, "b2": b1, "bp": "-", "det": False, "how": "-"},
                                 {"op": "aabb", "b1": b1, "b2": b1, "bp": "-", "det": False, "how": "-"})))
            if rng.random() < 0.35:      # the user moves a body (possibly back to the pose it had at the start)
                h.append({"op": "move", "b1": b1, "b2": b1, "bp": "-", "det": False, "how": rng.choice(("inplace", "assign")), "back": rng.random() < 0.5})
        if i % 3 != 2 and wit[i % 3]:
            # a history TLC finds against a kept world box: per pose value (HydroSession, BoxCache = "by_pose_value": aabb, query as
            # body 1, moved back, aabb) or until update_pose / express_in (BoxCache = "until_update": aabb, move, aabb - seed C04-7)
            ws = wit[i % 3]
            short = [w for w in ws if len(w) == len(ws[0])]
            h = [dict(x) for x in (rng.choice(short) if rng.random() < 0.5 else rng.choice(ws))]
        h += [{"op": "aabb", "b1": nm, "b2": nm, "bp": "-", "det": False, "how": "-"} for nm in c16.NAMES]
        ops.append((f"h{i}", seed * 104729 + i, h, None, True))
    from concurrent.futures import ProcessPoolExecutor
    with ProcessPoolExecutor(max_workers=16) as ex:
        for evs, spec, obs in ex.map(c16.session, ops, chunksize=1):
            for o in obs:
                recs.append(rec_of(o["kind"], o["lo"], o["hi"], o["L"], "after " + "/".join(f"{x['op']}:{x['b1']}{x['b2']}" for x in o["hist"][:4])))
    return recs


def run(tier, seed):
    env.setup()
    res = Result("C04", tier, seed)
    recs = gen(tier, seed)
    recs += rigid_body_records(tier, seed, len(recs), res)
    byid = {r["id"]: r for r in recs}
    rejects = trace.judge(recs, "shapes", "ShapeTrace", "ShapeTrace.cfg", "c04", res)
    for rid, clauses in sorted(rejects.items(), key=lambda kv: int(kv[0][1:])):
        r = byid[rid]
        if r["shape"]["kind"] == "ellipsoid" and not r["axisAligned"] and clauses <= {"Tight", "FloatTight"}:
            key = "ellipsoid_aabb:rotated"          # input pattern of known_findings.json
        else:
            key = f"{r['cls']}:{'+'.join(sorted(clauses))}:{chash([r['shape'], r['rows'], r['tier'], rid if r['tier'] == 3 else 0])}"
        res.violation(key, "+".join(sorted(clauses)), f"{r['cls']} {r['shape']} rows={r['rows']}/{r['N']} lo={r['lon']} hi={r['hin']} /{r['bd']} "
                      f"loticks={r['loticks']} hiticks={r['hiticks']} exc={r['exc']}", {"record": r, "seed": seed})
    mc(res, tier)
    res.coverage["evaluations"] = len(recs)
    res.coverage["distinct_nontrivial"] = len({chash([r["cls"], r["shape"], r["rows"]]) for r in recs if r["tier"] == 1})
    res.coverage["exact"] = sum(1 for r in recs if r["closed"])
    res.coverage["float"] = sum(1 for r in recs if not r["closed"])
    res.coverage["rule"] = ("aabb() of every collider class and Margin wrapper and every containment.*_aabb free function x shape "
                            "catalogue x exact rotations (24 cube + 8 rational) x lattice translations, judged exactly where the three "
                            "support values are rational, otherwise and for random poses by the measured difference to the float mirror "
                            "of SupportVal; distinct by (class, shape, rotation rows)")
    res.coverage["samples"] = [recs[0], recs[len(recs) // 2], recs[-1]]
    res.assumptions = ["float mirror of SupportVal is checked against TLC by C03's MirrorExact clause"]
    return res


def replay(path):
    import json
    v = json.load(open(path))["replay"]
    print("re-run: VERIF_SEED=%s ./check C04 quick; record: %s" % (v.get("seed"), json.dumps(v["record"])))
    return 1
