"""C10 / C11 - primitive distance functions (judge: DistanceJudge.tla, kind "prim")."""
import math, random
import numpy as np
from .. import env, trace, narrow as NW, prims as PR, shapes as S
from ..exactmn import exact_gjk
from ..ratio import ticks
from ..result import Result, chash

CONVEX_BOUNDED = ("point", "line_segment", "triangle", "rectangle", "box", "disk", "ellipsoid", "cylinder")


def prim_lift(rng, A, B, kind):
    if kind == "id":
        return NW.IDENT
    size = max(A.size(), B.size(), 1.0)
    minf = min(A.minfeat(), B.minfeat())
    far = max(float(np.max(np.abs(A.anchor()))), float(np.max(np.abs(B.anchor()))), 1.0)
    smin, smax = 0.2 / minf, min(100.0 / size, 500.0 / far)
    s = min(max(10 ** rng.uniform(math.log10(smin), math.log10(smax)), smin), smax) if kind != "rigid1" else 1.0
    s = max(s, smin)
    R = S.random_rotation(rng) if kind != "scale" else np.eye(3)
    t = np.array([rng.uniform(-1, 1) for _ in range(3)]) * rng.choice((0.0, 1.0, 30.0, 300.0)) if kind != "scale" else np.zeros(3)
    return (s, R, t)


def certificate(A, B):
    ca, cb = A.core(), B.core()
    if ca is None or cb is None:
        return None
    xn, W, wa, wb = exact_gjk(ca, cb)
    big = max(max(abs(c) for v in ca + cb for c in v), 1)
    if max(abs(c) for c in xn) * big * 3 * W >= 2 ** 30 or W > 40000 or sum(c * c for c in xn) >= 2 ** 30:
        return None
    # a stand-in for a line / plane is only exact if the optimum is not at its artificial boundary
    for P, core, w in ((A, ca, wa), (B, cb, wb)):
        if P.kind == "line" and not (w[0] > 0 and w[1] > 0) and len(core) == 2:
            q = sum(wi * np.array(v, dtype=float) for wi, v in zip(w, core)) / W
            if np.linalg.norm(q - np.array(P.p["x"], dtype=float)) > 0.8 * PR.KLINE * np.linalg.norm(P.p["d"]):
                return None
    return {"VA": ca, "rA": 0, "VB": cb, "rB": 0, "xn": xn, "W": W, "wa": wa, "wb": wb, "G": 1}


def circle_oracle(fname, A, B):
    """float oracle for the non-convex circle: closed form for a point, Lipschitz grid for lines / segments"""
    C = B.p
    c, n, r = np.array(C["c"], dtype=float), PR.unit(C["n"]), float(C["r"])
    if A.kind == "point":
        return B.dist_to(A.p["x"]), 0.0
    u = np.cross(n, [1.0, 0, 0]) if abs(n[0]) < 0.9 else np.cross(n, [0, 1.0, 0])
    u /= np.linalg.norm(u); v = np.cross(n, u)
    N = 4000
    th = np.linspace(0, 2 * math.pi, N, endpoint=False)
    pts = c + r * (np.cos(th)[:, None] * u + np.sin(th)[:, None] * v)
    best = min(A.dist_to(q) for q in pts[:: 1])
    return best - r * math.pi / N, r * math.pi / N            # lower bound on the true distance, grid slack


def as_collider(P, lift):
    from distance3d import colliders as C
    a = P.args(lift)
    if P.kind == "point":
        return C.ConvexHullVertices(np.ascontiguousarray(a[0][None, :]))
    if P.kind == "line_segment":
        return C.ConvexHullVertices(np.ascontiguousarray(np.array([a[0], a[1]])))
    if P.kind == "triangle":
        return C.ConvexHullVertices(a[0])
    if P.kind == "rectangle":
        c, ax, l = a
        return C.ConvexHullVertices(np.ascontiguousarray(np.array([c + x * l[0] / 2 * ax[0] + y * l[1] / 2 * ax[1] for x in (-1, 1) for y in (-1, 1)])))
    if P.kind == "box":
        return C.Box(a[0], a[1])
    if P.kind == "disk":
        return C.Disk(a[0], a[1], a[2])
    if P.kind == "ellipsoid":
        return C.Ellipsoid(a[0], a[1])
    if P.kind == "cylinder":
        return C.Cylinder(a[0], a[1], a[2])
    return None


def witness_pair(A, B, lift):
    """a candidate closer pair from the library's GJK on collider versions of the primitives; it is only used after
    its feasibility and distance have been checked independently"""
    try:
        from distance3d import gjk
        ca, cb = as_collider(A, lift), as_collider(B, lift)
        if ca is None or cb is None:
            return None
        out = gjk.gjk_distance_jolt(ca, cb, max_distance_squared=float("inf"))
        return np.asarray(out[1], dtype=float), np.asarray(out[2], dtype=float)
    except Exception:
        return None


def one(rid, fname, A, B, lift, prop):
    from distance3d import distance as D
    s = lift[0]
    L = max(1.0, s * A.size(), s * B.size(), s * float(np.linalg.norm(A.anchor() - B.anchor())))
    tolopt = 5e-3 if fname == "line_to_circle" else 1e-6
    cert = certificate(A, B)
    rec = {"id": rid, "kind": "prim", "prop": prop, "fn": fname, "exact": cert is not None, "exc": "none", "finite": True,
           "VA": [[0, 0, 0]], "rA": 0, "VB": [[0, 0, 0]], "rB": 0, "xn": [0, 0, 0], "W": 1, "wa": [1], "wb": [1], "G": 1,
           "on1": 0, "on2": 0, "consist": 0, "dneg": False, "zeroCommon": True, "dErr": 0, "cert": 0, "optJudged": False,
           "nearAxis": False}
    if B.kind == "circle" and A.kind in ("line", "line_segment") and not ((lift[1] == np.eye(3)).all() and lift[0] == 1.0):
        d0 = np.array(A.p["d"], dtype=float) if A.kind == "line" else np.array(A.p["b"], dtype=float) - np.array(A.p["a"], dtype=float)
        x0 = np.array(A.p["x"] if A.kind == "line" else A.p["a"], dtype=float)
        nn = np.array(B.p["n"], dtype=float)
        on_axis = not np.cross(d0, nn).any() and not np.cross(x0 - np.array(B.p["c"], dtype=float), nn).any()
        rec["nearAxis"] = bool(on_axis)
    if cert:
        rec.update(cert)
    try:
        with NW.time_limit(20.0):
            out = getattr(D, fname)(*(A.args(lift) + B.args(lift)))
    except NW.Hang:
        rec["exc"] = "Hang"
        return rec
    except Exception as e:
        rec["exc"] = type(e).__name__
        return rec
    d = float(out[0])
    if len(out) == 2:
        p1, p2 = A.args(lift)[0], np.asarray(out[1], dtype=float)
    else:
        p1, p2 = np.asarray(out[1], dtype=float), np.asarray(out[2], dtype=float)
    if not (np.isfinite(d) and np.all(np.isfinite(p1)) and np.all(np.isfinite(p2))):
        rec["finite"] = False
        return rec
    q1, q2 = NW.to_lattice(lift, p1), NW.to_lattice(lift, p2)
    rec["on1"] = ticks(A.dist_to(q1) * s, 1e-9 * L / 8)
    rec["on2"] = ticks(B.dist_to(q2) * s, 1e-9 * L / 8)
    rec["consist"] = ticks(abs(float(np.linalg.norm(p1 - p2)) - d), 1e-6 * L / 8)
    rec["dneg"] = bool(d < 0.0)
    rec["zeroCommon"] = bool(d != 0.0 or float(np.linalg.norm(p1 - p2)) <= 1e-9 * L)
    tick = tolopt * L / 8
    if cert:
        dtrue = s * math.sqrt(sum(c * c for c in cert["xn"])) / cert["W"]
        rec["dErr"] = ticks(max(0.0, d - dtrue), tick)
    elif "circle" in (A.kind, B.kind):
        lb, slack = circle_oracle(fname, A, B)
        if s * slack <= 0.25 * tolopt * L:
            rec["optJudged"] = True
            rec["cert"] = ticks(max(0.0, d - s * lb - s * 2 * slack), tick)
    elif A.kind in CONVEX_BOUNDED and B.kind in CONVEX_BOUNDED:
        # sufficient: the separating-plane certificate bounds d - Dist by the plane slack.  If it is not small
        # enough the result is only rejected when a closer feasible pair (a witness) is exhibited.
        slack = 0.0
        if d > tolopt * L:
            n = (q2 - q1) / float(np.linalg.norm(q2 - q1))
            slack = (max(0.0, A.support(n) - float(n @ q1)) + max(0.0, B.support(-n) + float(n @ q2))) * s
        if slack <= tolopt * L:
            rec["optJudged"] = True
        else:
            w = witness_pair(A, B, lift)
            if w is not None:
                w1, w2 = w
                if A.dist_to(NW.to_lattice(lift, w1)) * s <= 1e-9 * L and B.dist_to(NW.to_lattice(lift, w2)) * s <= 1e-9 * L:
                    better = d - float(np.linalg.norm(w1 - w2))
                    if better > tolopt * L:
                        rec["optJudged"] = True
                        rec["cert"] = ticks(better, tick)
    return rec


def make_pair(ka, kb, rng, prevB=None):
    """a random lattice pair for one function, with coincident / parallel / coplanar / perpendicular / equally posed /
    nearly parallel / same-pose-other-size variants"""
    A = PR.rand_prim(ka, rng)
    B = PR.rand_prim(kb, rng, reach=rng.choice((2, 5, 5, 8)))
    nearpar = False
    mode = rng.random()
    if mode < 0.2 and "x" in B.p and "x" in A.p:
        B.p["x"] = list(A.p["x"])                 # coincident anchors
    elif mode < (0.75 if ka == kb else 0.55):
        PR.relate(A, B, rng)                      # exactly parallel / antiparallel / coplanar / perpendicular / same pose
    elif mode < 0.9 and ka in ("line", "line_segment") and kb in ("line", "line_segment"):
        A, B = PR.near_parallel_pair(ka, kb, rng)
        nearpar = True
    elif mode < 0.75 and prevB is not None and "M" in B.p:
        if int(B.p.get("N", 1)) == int(prevB.p.get("N", 1)):
            B.p["c"], B.p["M"] = list(prevB.p["c"]), prevB.p["M"]    # the previous pose with other sizes
    return A, B, nearpar


def parallel_family():
    """exactly parallel and antiparallel line-like pairs in every overlap class of their projections, with and without a
    perpendicular offset: list of (function name, A, B)"""
    dirs = ([1, 0, 0], [0, 1, 1], [1, 2, 2])
    fam, out = [], []
    for d in dirs:
        d = np.array(d)
        u, _ = PR.ortho_int(d)
        for off in (0, 1):
            for sgn in (1, -1):
                for (a0, a1), (b0, b1) in (((0, 3), (5, 7)), ((5, 7), (0, 3)), ((0, 3), (3, 6)), ((0, 4), (2, 7)), ((2, 7), (0, 4)),
                                           ((0, 6), (2, 4)), ((2, 4), (0, 6)), ((0, 3), (0, 3)), ((4, 1), (0, 2)), ((0, 2), (4, 1))):
                    pa, pb = [int(x) for x in a0 * d], [int(x) for x in a1 * d]
                    qa, qb = (b0 * d + off * u, b1 * d + off * u) if sgn == 1 else (b1 * d + off * u, b0 * d + off * u)
                    fam.append((pa, pb, [int(x) for x in qa], [int(x) for x in qb], [int(x) for x in sgn * d]))
    for fname, mk in (("line_segment_to_line_segment", lambda f: (PR.Prim("line_segment", a=f[0], b=f[1]), PR.Prim("line_segment", a=f[2], b=f[3]))),
                      ("line_to_line_segment", lambda f: (PR.Prim("line", x=f[0], d=[f[1][i] - f[0][i] for i in range(3)]), PR.Prim("line_segment", a=f[2], b=f[3]))),
                      ("line_to_line", lambda f: (PR.Prim("line", x=f[0], d=[f[1][i] - f[0][i] for i in range(3)]), PR.Prim("line", x=f[2], d=f[4])))):
        for f in fam:
            A, B = mk(f)
            out.append((fname, A, B))
    return out


def gen(tier, seed, prop):
    rng = random.Random(seed)
    recs, meta, n = [], {}, 0
    per = 40 if tier == "quick" else 1200
    for fname in PR.FUNCTIONS:
        ka, kb = PR.kinds_of(fname)
        prevB = None
        for i in range(per):
            A, B, nearpar = make_pair(ka, kb, rng, prevB)
            prevB = B
            for lk in (("id", rng.choice(("scale", "rigid", "rigid1"))) if tier == "quick" else ("id", "scale", "rigid", "rigid1")):
                if lk == "id" and max(A.size(), B.size()) > 100.0:
                    lk = "scale"                    # the lattice scene itself is larger than the primitive domain allows
                lift = prim_lift(rng, A, B, lk)
                if nearpar and lk != "id":
                    # the smallest scale of the primitive domain P (features of 0.2): absolute thresholds vs small scenes
                    lift = (0.2 / min(A.minfeat(), B.minfeat()) * rng.choice((1.0, 1.0, 2.0)), lift[1], lift[2])
                n += 1
                rid = f"p{n}"
                recs.append(one(rid, fname, A, B, lift, prop))
                meta[rid] = {"fn": fname, "A": A.describe(), "B": B.describe(), "lift": [lift[0], lift[1].tolist(), lift[2].tolist()]}
    # systematic family (independent of the seed): exactly parallel and antiparallel line-like pairs in every overlap class of
    # their projections (disjoint on either side, touching ends, partial overlap on either side, containment, equal), with and
    # without a perpendicular offset - the arrangements in which the parallel branch of the segment routines decides alone
    for fname, A, B in parallel_family():
        if True:
            for lk in ("id", "rigid1"):
                lift = prim_lift(rng, A, B, lk)
                n += 1
                rid = f"p{n}"
                recs.append(one(rid, fname, A, B, lift, prop))
                meta[rid] = {"fn": fname, "A": A.describe(), "B": B.describe(), "lift": [lift[0], lift[1].tolist(), lift[2].tolist()], "family": "parallel"}
    # systematic family (independent of the seed): the lowest vertex of a tilted A (rational rotation) hovers one unit above the
    # interior of a face of B, one unit inside the corner of that face, and A rises away from B - the closest feature of B is the
    # interior of ONE face, every other face is farther (routines that scan faces / edges with early rejection)
    frng = random.Random(4711)
    rats = [r for r in S.RATIONAL if r[1] in (3, 5)]
    for fname in ("rectangle_to_box", "rectangle_to_rectangle", "triangle_to_rectangle", "line_segment_to_box", "line_segment_to_rectangle"):
        ka, kb = PR.kinds_of(fname)
        for rep in range(12):
            M, N = rats[rep % len(rats)]
            Mf = np.array(M, dtype=float) / N
            if ka == "rectangle":
                A = PR.Prim("rectangle", c=[0, 0, 0], M=M, N=N, l=[2 * N * frng.randint(1, 2), 2 * N * frng.randint(1, 2)])
            elif ka == "triangle":
                k = 2 * frng.randint(1, 2)
                A = PR.Prim("triangle", V=[[0, 0, 0], [int(x) for x in k * np.array(M)[:, 0]], [int(x) for x in k * np.array(M)[:, 1]]])
            else:
                k = 2 * frng.randint(1, 2)
                A = PR.Prim("line_segment", a=[0, 0, 0], b=[int(x) for x in k * np.array(M)[:, 0]])
            MB, _ = frng.choice(S.CUBE)
            if kb == "box":
                B = PR.Prim("box", c=[frng.randint(-2, 2) for _ in range(3)], M=MB, size=[2 * frng.randint(2, 4) for _ in range(3)])
            else:
                B = PR.Prim("rectangle", c=[frng.randint(-2, 2) for _ in range(3)], M=MB, l=[2 * frng.randint(2, 4), 2 * frng.randint(2, 4)])
            VB = np.array(B.core(), dtype=float)
            nrm = np.array(MB, dtype=float)[:, 2] * frng.choice((-1, 1))             # a face normal of B (for a rectangle: its plane normal)
            top = float(np.max(VB @ nrm))
            face = VB[np.abs(VB @ nrm - top) < 1e-9]
            corner = face[frng.randrange(len(face))]
            inward = (face.mean(axis=0) - corner)
            inward = np.sign(np.round(inward, 9))                                      # one unit inside along both face axes
            VA = np.array(A.core(), dtype=float)
            low = VA[int(np.argmin(VA @ nrm))]
            shift = (corner + inward + nrm) - low
            shift = np.round(shift).astype(int)
            for key in ("c", "a", "b"):
                if key in A.p:
                    A.p[key] = [int(x) for x in np.array(A.p[key]) + shift]
            if "V" in A.p:
                A.p["V"] = [[int(x) for x in np.array(v) + shift] for v in A.p["V"]]
            for lk in ("id", "rigid1"):
                lift = prim_lift(frng, A, B, lk)
                n += 1
                rid = f"p{n}"
                recs.append(one(rid, fname, A, B, lift, prop))
                meta[rid] = {"fn": fname, "A": A.describe(), "B": B.describe(), "lift": [lift[0], lift[1].tolist(), lift[2].tolist()], "family": "corner-over-face"}
    # systematic family (independent of the seed): the first primitive sits ON the axis of the second one - a point at the centre of
    # a circle / disk / ellipsoid / cylinder / box / rectangle and on the axis through it, lines and segments along that axis and
    # across it through the centre.  These are the branches "on the line defined by centre and normal", "point is the centre",
    # "line through the centre along the normal" that random anchors never reach (coverage of the interpreted library under this
    # check showed them unvisited)
    arng = random.Random(815)
    for fname in PR.FUNCTIONS:
        ka, kb = PR.kinds_of(fname)
        if ka not in ("point", "line", "line_segment") or kb not in ("circle", "disk", "ellipsoid", "cylinder", "box", "rectangle"):
            continue
        for rep in range(3):
            B = PR.rand_prim(kb, arng, reach=3)
            if int(B.p.get("N", 1)) != 1:
                continue
            axis = np.array(B.p["n"] if "n" in B.p else np.array(B.p["M"])[:, 2], dtype=int)
            perp = np.array(PR.ortho_int(axis)[0], dtype=int)
            c = np.array(B.p["c"], dtype=int)
            variants = []
            for k in (0, 1, 4):
                anchor = c + k * axis
                if ka == "point":
                    variants.append(PR.Prim("point", x=[int(x) for x in anchor]))
                elif ka == "line":
                    variants.append(PR.Prim("line", x=[int(x) for x in anchor], d=[int(x) for x in axis]))
                    variants.append(PR.Prim("line", x=[int(x) for x in anchor], d=[int(x) for x in perp]))
                else:
                    variants.append(PR.Prim("line_segment", a=[int(x) for x in anchor], b=[int(x) for x in anchor + 2 * axis]))
                    variants.append(PR.Prim("line_segment", a=[int(x) for x in anchor - axis], b=[int(x) for x in anchor + axis]))
                    variants.append(PR.Prim("line_segment", a=[int(x) for x in anchor - 2 * perp], b=[int(x) for x in anchor + 2 * perp]))
            for A in variants:
                for lk in ("id", "rigid1"):
                    lift = prim_lift(arng, A, B, lk)
                    n += 1
                    rid = f"p{n}"
                    recs.append(one(rid, fname, A, B, lift, prop))
                    meta[rid] = {"fn": fname, "A": A.describe(), "B": B.describe(), "lift": [lift[0], lift[1].tolist(), lift[2].tolist()], "family": "on-axis"}
    # systematic family (independent of the seed): needle ellipsoids of aspect 100 .. 200 (radii 96 or 192 : 1..2, used at scales <= 0.5 / 0.26) with the
    # query point a few units beside the thin side at any station along the long axis (seed C10-9: a stop test of the Newton
    # iteration that scales with max(radii)^12)
    nrng = random.Random(1618)
    for rep in range(30):
        rad = [nrng.randint(1, 2) for _ in range(3)]
        ax = rep % 3
        rad[ax] = 192 if rep % 2 else 96
        B = PR.Prim("ellipsoid", c=[nrng.randint(-3, 3) for _ in range(3)], M=nrng.choice(S.CUBE)[0], radii=rad)
        loc = np.array([nrng.choice((-1, 1)) * nrng.randint(2, 7) for _ in range(3)])
        loc[ax] = nrng.randint(-90, 90) * (2 if rep % 2 else 1)
        x = np.array(B.p["c"]) + np.array(B.p["M"]) @ loc
        A = PR.Prim("point", x=[int(v) for v in x])
        for lk in ("scale", "rigid"):
            lift = prim_lift(nrng, A, B, lk)
            n += 1
            rid = f"p{n}"
            recs.append(one(rid, "point_to_ellipsoid", A, B, lift, prop))
            meta[rid] = {"fn": "point_to_ellipsoid", "A": A.describe(), "B": B.describe(), "lift": [lift[0], lift[1].tolist(), lift[2].tolist()], "family": "needle-ellipsoid"}
    # systematic family (independent of the seed): two disks in perpendicular planes whose rims just touch - the rim of A reaches
    # the plane of B in one point of B (interior, centre or rim), exactly or with a gap of 1e-9; under a rigid lift the distance
    # of A's centre from the common line of the planes equals the radius only up to rounding (seed C10-10: sqrt of a negative
    # radicand in the chord computation)
    trng = random.Random(2718)
    axes3 = np.eye(3, dtype=int)
    for a1 in range(3):
        for a2 in range(3):
            if a1 == a2:
                continue
            a3 = 3 - a1 - a2                      # direction of the common line
            for r1, r2, along in ((2, 3, 0), (1, 2, 1), (3, 3, 2), (2, 2, 2), (3, 1, 0)):
                if along > r2:
                    continue
                cB = np.array([trng.randint(-2, 2) for _ in range(3)])
                touch = cB + along * axes3[a3]                       # the touching point, a point of B on the common line
                cA = touch + r1 * axes3[a2]                           # A lies in the plane normal to a1 and rises along a2 (the normal of B)
                A = PR.Prim("disk", c=[int(x) for x in cA], r=r1, n=[int(x) for x in axes3[a1]])
                B = PR.Prim("disk", c=[int(x) for x in cB], r=r2, n=[int(x) for x in axes3[a2]])
                for lk in ("id", "rigid1", "rigid", "scale"):
                    lift = prim_lift(trng, A, B, lk)
                    for fname, X, Y in (("disk_to_disk", A, B), ("disk_to_disk", B, A)):
                        n += 1
                        rid = f"p{n}"
                        recs.append(one(rid, fname, X, Y, lift, prop))
                        meta[rid] = {"fn": fname, "A": X.describe(), "B": Y.describe(), "lift": [lift[0], lift[1].tolist(), lift[2].tolist()], "family": "touching-disks"}
    # pinned inputs of the known findings (deterministic, independent of the seed)
    import json, os
    pinned = [("disk_to_disk", PR.Prim("disk", c=[-5, -1, 0], r=3, n=[-1, 1, 1]), PR.Prim("disk", c=[-6, -1, 3], r=3, n=[1, -1, 0]), NW.IDENT)]
    for m in json.load(open(os.path.join(os.path.dirname(__file__), "..", "pinned", "c10_nearaxis.json"))):
        _, fn, da, db, sc, Rm, tm = m
        pinned.append((fn, PR.Prim(da.pop("kind"), **da), PR.Prim(db.pop("kind"), **db), (sc, np.array(Rm), np.array(tm))))
    m = json.load(open(os.path.join(os.path.dirname(__file__), "..", "pinned", "c11_segcircle.json")))
    da, db = dict(m["A"]), dict(m["B"])
    pinned.append((m["fn"], PR.Prim(da.pop("kind"), **da), PR.Prim(db.pop("kind"), **db), (m["lift"][0], np.array(m["lift"][1]), np.array(m["lift"][2]))))
    m = json.load(open(os.path.join(os.path.dirname(__file__), "..", "pinned", "c11_linecircle.json")))
    da, db = dict(m["A"]), dict(m["B"])
    pinned.append((m["fn"], PR.Prim(da.pop("kind"), **da), PR.Prim(db.pop("kind"), **db), (m["lift"][0], np.array(m["lift"][1]), np.array(m["lift"][2]))))
    for fname, A, B, lift in pinned:
        n += 1
        rid = f"p{n}"
        recs.append(one(rid, fname, A, B, lift, prop))
        meta[rid] = {"fn": fname, "A": A.describe(), "B": B.describe(), "lift": [lift[0], lift[1].tolist(), lift[2].tolist()], "pinned": True}
    return recs, meta


def run_prop(prop, tier, seed):
    env.setup()
    res = Result(prop, tier, seed)
    recs, meta = gen(tier, seed, prop)
    byid = {r["id"]: r for r in recs}
    rejects = trace.judge(recs, "narrow", "NarrowTrace", "NarrowTrace.cfg", prop.lower(), res)
    for rid, clauses in sorted(rejects.items(), key=lambda kv: int(kv[0][1:])):
        m, r = meta[rid], byid[rid]
        if "ORACLE_CertInvalid" in clauses:
            res.machinery(f"exact oracle certificate rejected by TLC for {m}")
            continue
        if "ZONE_NearAxis" in clauses:
            clauses = clauses - {"ZONE_NearAxis"}
            key = f"{m['fn']}:near-axis"
        else:
            key = f"{m['fn']}:{'+'.join(sorted(clauses))}:{chash([m['A'], m['B'], m['lift']])}"
        res.violation(key, "+".join(sorted(clauses)),
                      f"{m['fn']}({m['A']}, {m['B']}) lift_s={m['lift'][0]:.4g} on1={r['on1']} on2={r['on2']} consist={r['consist']} dErr={r['dErr']} "
                      f"cert={r['cert']} zeroCommon={r['zeroCommon']} exc={r['exc']} finite={r['finite']}", {"meta": m, "record": r, "seed": seed})
    from .. import segseg
    segseg.run(res, tier, seed, prop)     # case-analysis explorer SegSeg.tla: model checking + every explored configuration replayed
    segseg.run_pt(res, tier, seed, prop)  # the same for point_to_triangle (PointTri.tla)
    from .. import linebox
    linebox.run(res, tier, seed, prop)    # the same for line_to_box / line_segment_to_box (LineBox.tla)
    from .. import lineflat
    lineflat.run(res, tier, seed, prop)   # the same for line / segment vs triangle / rectangle (LineFlat.tla)
    res.coverage["evaluations"] = len(recs)
    res.coverage["exact"] = sum(1 for r in recs if r["exact"])
    res.coverage["float_judged"] = sum(1 for r in recs if not r["exact"] and r["optJudged"])
    res.coverage["not_judged"] = sum(1 for r in recs if not r["exact"] and not r["optJudged"])
    res.coverage["distinct_nontrivial"] = len({chash([m["fn"], m["A"], m["B"]]) for m in meta.values()})
    res.coverage["rule"] = ("each of the 34 functions on random lattice primitives (integer points, integer directions / normals incl. axis-parallel, "
                            "lattice triangles, cube-rotated rectangles / boxes / ellipsoids / cylinders, circles and disks with integer normals; "
                            "coincident anchors) under identity, scaling and rigid lifts within the primitive domain P")
    res.coverage["samples"] = [meta[recs[0]["id"]], recs[0], recs[len(recs) // 2]]
    return res


def run(tier, seed):
    res = run_prop("C10", tier, seed)
    res.assumptions = ["'on primitive' residuals use the harness' own closed-form point-to-primitive distances"]
    return res


def replay(path):
    import json
    v = json.load(open(path))["replay"]
    print(json.dumps(v["meta"]))
    return 1
