"""C19 - narrow-phase queries terminate with finite results (judge: DistanceJudge.tla, kind "term")."""
import json, math, os, random
import numpy as np
from .. import env, trace, narrow as NW, shapes as S
from ..result import Result, chash

MAXF = np.finfo(float).max
SMOOTH = ("sphere", "capsule", "cylinder", "cone", "ellipsoid", "disk", "ellipse")


def finite_outputs(out):
    def ok(x):
        if x is None or isinstance(x, (bool, np.bool_)):
            return True
        if isinstance(x, (tuple, list)):
            return all(ok(y) for y in x)
        a = np.asarray(x)
        if a.dtype.kind in "fc":
            return bool(np.all(np.isfinite(a)))
        return True
    return ok(out)


def entry_points():
    from distance3d import gjk, mpr, epa
    from distance3d.gjk import _gjk_original as O

    def do_epa(a, b):
        d, p, q, Y = gjk.gjk_distance_jolt(a, b, max_distance_squared=float("inf"))
        if d > 0.0:
            return None
        return epa.epa(Y, a, b)[::2]          # (mtv, success); the face list may hold unused rows

    def jolt(a, b):
        out = gjk.gjk_distance_jolt(a, b)
        return out[:3] if out[0] != MAXF else (0.0,)          # the documented MAX_FLOAT clip
    def selfcol(a, b):
        """self_collision.detect / detect_any on a hierarchy of the two colliders (whitelist of each: itself)"""
        from pytransform3d.transform_manager import TransformManager
        from distance3d.broad_phase import BoundingVolumeHierarchy
        from distance3d import self_collision
        bvh = BoundingVolumeHierarchy(TransformManager(), "world")
        bvh.add_collider("a", a)
        if b is not a:
            bvh.add_collider("b", b)
        bvh.self_collision_whitelists_.update({"a": ["a"], "b": ["b"]})
        c = self_collision.detect(bvh)
        return (bool(self_collision.detect_any(bvh)),) + tuple(bool(v) for v in c.values())
    return {
        "self_collision.detect": (selfcol, True),
        "gjk_distance_jolt": (jolt, True),
        "gjk_intersection_jolt": (lambda a, b: gjk.gjk_intersection_jolt(a, b), True),
        "gjk_intersection_libccd": (lambda a, b: gjk.gjk_intersection_libccd(a, b), True),
        "gjk_distance_original": (lambda a, b: gjk.gjk_distance_original(a, b)[:3], True),
        "gjk_nesterov_accelerated": (lambda a, b: gjk.gjk_nesterov_accelerated(a, b)[:2], False),
        "gjk_nesterov_accelerated[acc]": (lambda a, b: gjk.gjk_nesterov_accelerated(a, b, use_nesterov_acceleration=True)[:2], False),
        "mpr_intersection": (lambda a, b: mpr.mpr_intersection(a, b), True),
        "mpr_penetration": (lambda a, b: mpr.mpr_penetration(a, b), True),
        "epa": (do_epa, True),
    }


DEGENERATE = [
    {"kind": "hull", "V": [[0, 0, 0]], "name": "point"},
    {"kind": "hull", "V": [[0, 0, 0], [4, 0, 0]], "name": "segment"},
    {"kind": "hull", "V": [[0, 0, 0], [4, 0, 0], [0, 4, 0]], "name": "triangle"},
    {"kind": "hull", "V": [[-2, -2, 0], [2, -2, 0], [2, 2, 0], [-2, 2, 0]], "name": "square"},
]
NEEDLES = [   # aspect ratio 1e4 at unit 0.01: sizes 0.01 .. 100
    ({"kind": "capsule", "r": 1, "h": 9998}, 0.01), ({"kind": "cylinder", "r": 1, "h": 10000}, 0.01),
    ({"kind": "box", "a": 2, "b": 2, "c": 10000}, 0.01), ({"kind": "ellipsoid", "a": 1, "b": 1, "c": 10000}, 0.01),
    ({"kind": "cone", "r": 1, "h": 10000}, 0.01), ({"kind": "cylinder", "r": 5000, "h": 1}, 0.01),
]


def one(rid, fname, call, proxy, ca, cb, smooth, flat=False):
    if _MARK:
        try:
            with open(_MARK, "w") as fh:     # which call is in flight: read by the parent process when this process stops answering
                fh.write(json.dumps({"rid": rid, "fn": fname, "A": type(ca).__name__, "B": type(cb).__name__ if cb is not None else "same object"}))
        except OSError:
            pass
    rec = {"id": rid, "kind": "term", "fn": fname, "exc": "none", "finite": True, "supportCalls": 0, "smooth": bool(smooth), "simplexRows": 4, "flatPair": bool(flat)}
    NW.install_observers()
    NW._OBS["rows"] = 4
    if proxy:
        ca = NW.Proxy.wrap(ca)
        cb = ca if cb is None else NW.Proxy.wrap(cb)
    elif cb is None:
        cb = ca
    try:
        with NW.time_limit(20.0):
            out = call(ca, cb)
        rec["finite"] = finite_outputs(out)
    except NW.Hang:
        rec["exc"] = "Hang"
    except NW.SupportBudget:
        rec["exc"] = "SupportBudget"
    except Exception as e:
        rec["exc"] = type(e).__name__
    if proxy:
        rec["supportCalls"] = int(max(ca.calls, cb.calls))
    if fname == "epa":
        rec["simplexRows"] = int(NW._OBS["rows"])        # valid rows of the GJK simplex handed to EPA (observed)
    return rec


_MARK = None


def lattice_lift(lift):
    """the lift keeps lattice coordinates exact (identity / cube rotation / integer translation at scale 1): no rounding enters the scene"""
    return bool(lift[0] == 1.0 and np.array_equal(np.asarray(lift[1]), np.round(np.asarray(lift[1]))) and np.array_equal(np.asarray(lift[2]), np.round(np.asarray(lift[2]))))


def is_flat(spec):
    """zero-volume collider: disk, ellipse, or a vertex hull whose points span less than three dimensions (input description)"""
    if spec["kind"] in ("disk", "ellipse"):
        return True
    if spec["kind"] == "hull":
        V = np.array(spec["V"], dtype=float)
        return int(np.linalg.matrix_rank(V - V[0])) < 3
    return False


def gen_isolated(tier, seed, res):
    """run gen() in a child process: the wall-clock watchdog inside gen() is a signal handler and cannot interrupt compiled (nopython)
    code, so a loop that never ends there would hang the check itself (seed C19-10).  The child names the call in flight in a marker
    file; when the marker does not change for `stale` seconds the parent kills the child and reports that call as NoHang."""
    import subprocess, sys, tempfile, time
    from ..env import WORK
    os.makedirs(WORK, exist_ok=True)
    out = os.path.join(WORK, f"c19_gen_{os.getpid()}.json")
    mark = out + ".mark"
    for f in (out, mark):
        if os.path.exists(f):
            os.remove(f)
    p = subprocess.Popen([sys.executable, "-m", "harness.props.c19", "--gen", tier, str(seed), out, mark],
                         cwd=os.path.dirname(os.path.dirname(os.path.dirname(os.path.abspath(__file__)))))
    stale, t_last, last = 240.0, time.time(), None
    hung = None
    while p.poll() is None:
        time.sleep(1.0)
        try:
            cur = open(mark).read()
        except OSError:
            cur = None
        if cur != last:
            last, t_last = cur, time.time()
        # before the first call (imports, compilation on a fresh cache) the allowance is generous
        if time.time() - t_last > (stale if cur else 1500.0):
            p.kill()
            p.wait()
            hung = cur or "(before the first call)"
            break
    if hung is not None:
        res.violation(f"NoHang:compiled:{chash(hung)}", "NoHang",
                      f"the call {hung} did not return within {stale:.0f} s and the in-process watchdog (a signal handler) could not interrupt it: "
                      "a loop in compiled code does not terminate", {"in_flight": hung, "seed": seed})
        return [], {}
    if p.returncode != 0 or not os.path.exists(out):
        res.machinery(f"the C19 driver process ended with code {p.returncode} without results")
        return [], {}
    d = json.load(open(out))
    os.remove(out)
    if os.path.exists(mark):
        os.remove(mark)
    return d["recs"], d["meta"]


def gen(tier, seed):
    rng = random.Random(seed)
    from .c02 import warmup
    warmup()
    eps = entry_points()
    recs, meta, n = [], {}, 0

    def drive(A, B, lift, same=False, names=None):
        nonlocal n
        smooth = A.spec["kind"] in SMOOTH or B.spec["kind"] in SMOOTH or A.margin or B.margin
        for fname, (call, proxy) in eps.items():
            if names is not None and fname not in names:
                continue
            clsA, clsB = A.cls or rng.choice(A.classes()), B.cls or rng.choice(B.classes())
            if A.spec.get("name") in ("point", "segment", "triangle", "square"):
                clsA = "ConvexHullVertices"
            if B.spec.get("name") in ("point", "segment", "triangle", "square"):
                clsB = "ConvexHullVertices"
            ca = A.build(lift, clsA)
            cb = None if same else B.build(lift, clsB)
            n += 1
            rid = f"t{n}"
            recs.append(one(rid, fname, call, proxy, ca, cb, smooth, flat=is_flat(A.spec) and is_flat(B.spec) and not lattice_lift(lift)))
            meta[rid] = {"A": A.describe(), "B": "same object" if same else B.describe(), "clsA": clsA, "clsB": clsB, "fn": fname,
                         "lift": [lift[0], lift[1].tolist(), lift[2].tolist()]}
    for A, B in NW.gen_scenes(rng, 260 if tier == "quick" else 5000):
        lift = NW.random_lift(rng, A, B, rng.choice(("id", "scale", "rigid", "farsmall")))
        drive(A, B, lift)
        if rng.random() < 0.15:
            drive(A, A, lift, same=True)          # the identical object passed twice
    for A, B0 in NW.gen_scenes(rng, 70 if tier == "quick" else 1500):
        # nearly touching pairs: a gap (or overlap) of 1e-12 .. 1e-7 along a generic direction - the progress tests of the
        # unbounded loops compare quantities of this size with EPSILON-like thresholds
        lift = NW.random_lift(rng, A, B0, rng.choice(("rigid", "rigid", "scale", "id")))
        gap = 10 ** rng.uniform(-12, -7) / lift[0]
        B = NW.near_touch(A, B0, gap) if rng.random() < 0.7 else None          # true gap along the witness direction of the pair
        if B is None:
            B, _ = NW.graze(A, B0, rng, gap, ks=(1, 1, 1, -1, 0))              # slab gap along a body axis / the centre line
        drive(A, B, lift, names=("self_collision.detect", "gjk_distance_jolt", "gjk_intersection_jolt", "gjk_intersection_libccd", "gjk_distance_original",
                                 "gjk_nesterov_accelerated", "mpr_intersection", "mpr_penetration", "epa"))
    poly, rnd = NW.spec_pool()
    for _ in range(60 if tier == "quick" else 1500):
        # zero-volume colliders against anything, touching / coincident / nested placements
        d = rng.choice(DEGENERATE)
        o = rng.choice(poly + rnd + DEGENERATE)
        M1, _ = rng.choice(S.CUBE); M2, _ = rng.choice(S.CUBE)
        t = [rng.randint(-2, 2) for _ in range(3)]
        off = rng.choice(([0, 0, 0], [rng.randint(-3, 3) for _ in range(3)]))
        A, B = NW.Body(d, M1, t), NW.Body(o, M2, [t[i] + off[i] for i in range(3)])
        lift = NW.random_lift(rng, A, B, rng.choice(("id", "rigid")))
        drive(A, B, lift); drive(B, A, lift)
    for _ in range(40 if tier == "quick" else 800):
        (sa, ua), (sb, ub) = rng.choice(NEEDLES), rng.choice(NEEDLES + [(s, 1.0) for s in poly[:6]])
        M1, _ = rng.choice(S.CUBE)
        R2 = S.random_rotation(rng)
        # needles are built directly (their unit differs from the partner's)
        from distance3d import colliders as C
        off = np.array([rng.uniform(-1, 1) for _ in range(3)]) * rng.choice((0.0, 0.5, 60.0))
        ca = list(S.build(sa, ua, np.array(M1, dtype=float), np.zeros(3)).values())[0]
        cb = list(S.build(sb, ub, R2, off).values())[0]
        for fname, (call, proxy) in eps.items():
            n += 1
            rid = f"t{n}"
            recs.append(one(rid, fname, call, proxy, ca, cb, True))
            meta[rid] = {"A": sa, "B": sb, "fn": fname, "needle": True, "off": off.tolist()}
    # pinned input of the known finding mpr:flat-pair-contact-position (a square and a segment in one plane, small and far from the origin)
    A = NW.Body({"kind": "hull", "V": [[-2, -2, 0], [2, -2, 0], [2, 2, 0], [-2, 2, 0]]}, [[0, 1, 0], [-1, 0, 0], [0, 0, 1]], [0, 0, 1], 0, "ConvexHullVertices")
    B = NW.Body({"kind": "hull", "V": [[0, 0, 0], [4, 0, 0]]}, [[0, 1, 0], [1, 0, 0], [0, 0, -1]], [0, 0, 1], 0, "ConvexHullVertices")
    drive(A, B, (0.014131115886924575, np.array([[0.5634382377636153, 0.5882010258782685, 0.5801352474911209], [0.7417982663790329, -0.051062169302834914, -0.6686762945275914],
                                                 [-0.36369311819567485, 0.807101113877215, -0.4650968799672449]]), np.array([-21.799142742797088, -3.884002873369261, -21.99042959634474])),
          names=("mpr_penetration",))
    # pinned input of the repaired capacity defect (former finding epa:incomplete-gjk-simplex of C19): the same cube hull passed twice
    A = NW.Body({"kind": "hull", "V": S.HULLS["cube"]}, [[0, 1, 0], [0, 0, 1], [1, 0, 0]], [-2, 3, 2], 0, "ConvexHullVertices")
    drive(A, A, NW.IDENT, same=True, names=("epa",))
    return recs, meta


def run(tier, seed):
    env.setup()
    res = Result("C19", tier, seed)
    # design-level termination, model-checked concurrently: Jolt GJK loops (Terminates, all tie-breaks), libccd GJK (the iteration
    # cap is never the reason of an answer: NeverExhausted), MPR (the uncapped refine loop: Terminates; penetration cap: PenNeverCapped)
    from .. import gjkloop, libccdloop, mprloop
    from concurrent.futures import ThreadPoolExecutor
    subs = [Result("C19", tier, seed) for _ in range(3)]
    with ThreadPoolExecutor(max_workers=3) as ex:
        list(ex.map(lambda fr: fr[0](fr[1], tier), zip((gjkloop.model_check, libccdloop.model_check, mprloop.model_check), subs)))
    for sub in subs:
        res.violations += sub.violations
        res.machinery_errors += sub.machinery_errors
        for k, v in sub.coverage.items():
            if isinstance(v, (int, float)) and not isinstance(v, bool) and isinstance(res.coverage.get(k, 0), (int, float)):
                res.coverage[k] = res.coverage.get(k, 0) + v
            elif k not in res.coverage or not res.coverage[k]:
                res.coverage[k] = v
    recs, meta = gen_isolated(tier, seed, res)
    if not recs:
        return res
    byid = {r["id"]: r for r in recs}
    rejects = trace.judge(recs, "narrow", "NarrowTrace", "NarrowTrace.cfg", "c19", res)
    for rid, clauses in sorted(rejects.items(), key=lambda kv: int(kv[0][1:])):
        m, r = meta[rid], byid[rid]
        if "ZONE_IncompleteSimplex" in clauses:       # named pattern of the judge spec (DistanceJudge!TermFailing)
            clauses = clauses - {"ZONE_IncompleteSimplex"}
            key = "epa:incomplete-gjk-simplex"
        elif "ZONE_FlatPairMpr" in clauses:
            clauses = clauses - {"ZONE_FlatPairMpr"}
            key = "mpr:flat-pair-contact-position"
        else:
            key = f"{m['fn']}:{r['exc']}:{'+'.join(sorted(clauses))}:{chash(m)}"
        res.violation(key, "+".join(sorted(clauses)), f"{m['fn']} exc={r['exc']} finite={r['finite']} calls={r['supportCalls']} scene={str(m)[:400]}",
                      {"meta": m, "record": r, "seed": seed})
    res.coverage["evaluations"] = len(recs)
    res.coverage["max_support_calls"] = max(r["supportCalls"] for r in recs)
    res.coverage["exceptions"] = {e: sum(1 for r in recs if r["exc"] == e) for e in {r["exc"] for r in recs}}
    res.coverage["distinct_nontrivial"] = len({chash(m) for m in meta.values()})
    res.coverage["rule"] = ("every narrow-phase entry point (four GJK flavours incl. Nesterov with / without acceleration, EPA after GJK, "
                            "MPR intersection and penetration, self_collision.detect / detect_any on a two-collider hierarchy) on the scenes of C01 (incl. touching, nested, coincident), the identical "
                            "object passed twice, nearly touching pairs (gaps 1e-12 .. 1e-7 in generic directions), zero-volume colliders (point, segment, planar hulls, disk, ellipse), needles and plates "
                            "of aspect 1e4; support evaluations counted by a proxy, wall-clock watchdog of 20 s per call")
    res.coverage["samples"] = [meta[recs[0]["id"]], recs[0], recs[-1]]
    res.assumptions = ["exhaustive termination of the exact design is model-checked where explorer models exist (C18, C03 MeshClimb); "
                       "floating-point behaviour is observational"]
    return res


def replay(path):
    import json
    v = json.load(open(path))["replay"]
    print(json.dumps(v["meta"]))
    return 1


if __name__ == "__main__":
    import sys
    if len(sys.argv) == 6 and sys.argv[1] == "--gen":
        env.setup()
        _MARK = sys.argv[5]
        recs, meta = gen(sys.argv[2], int(sys.argv[3]))
        with open(sys.argv[4], "w") as fh:
            json.dump({"recs": recs, "meta": meta}, fh, default=lambda o: o.tolist() if hasattr(o, "tolist") else str(o))
