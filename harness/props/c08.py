"""C08 - MPR penetration (shares harness with C07)."""
from .c07 import run_algo, replay  # noqa


def run(tier, seed):
    res = run_algo("C08", "mpr", tier, seed)
    from .. import mprloop
    mprloop.run(res, tier, seed, mc=True, modes=("penetration",))     # portal explorer Mpr.tla: model checking + stateful trace validation
    res.assumptions = ["exact tier: penetration depth from the certified closest facet; round shapes: residual overlap refuted only by a deep witness point"]
    return res
