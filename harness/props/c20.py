"""C20 - compiled (numba) and interpreted execution agree (judge specs/c20/JitEquiv.tla, worker harness/jitdiff.py)."""
import json, os, subprocess, sys, math, collections
import numpy as np
from .. import env, trace
from ..ratio import ticks
from ..result import Result, chash
from ..env import WORK, VERIF


def run_workers(seed, tier, only=None):
    d = os.path.join(WORK, "c20")
    os.makedirs(d, exist_ok=True)
    procs, paths = [], {}
    for mode in ("jit", "nojit"):
        paths[mode] = os.path.join(d, f"{mode}_{os.getpid()}.jsonl")
        e = dict(os.environ)
        e.pop("NUMBA_DISABLE_JIT", None)
        e["NUMBA_CACHE_DIR"] = env.cache_dir(mode == "jit")
        e["PYTHONHASHSEED"] = "0"
        cmd = [sys.executable, "-m", "harness.jitdiff", mode, str(seed), tier, paths[mode]] + ([only] if only else [])
        procs.append((mode, subprocess.Popen(cmd, cwd=VERIF, env=e, stdout=subprocess.PIPE, stderr=subprocess.STDOUT, text=True)))
    outs = {}
    for mode, p in procs:
        out, _ = p.communicate(timeout=7200)
        outs[mode] = (p.returncode, out)
    return paths, outs


def pair(j, i):
    """one judge record from the two serialised results of a call"""
    rec = {"id": j["id"], "fn": j["fn"], "cls": j["cls"], "excJ": j["exc"], "excI": i["exc"], "boundary": bool(j["boundary"] or i["boundary"]),
           "inputsSame": bool(j["fn"] == i["fn"] and j["in"] == i["in"] and j["tol"] == i["tol"]), "shape": True, "ticks": 0, "same": True,
           "zone": j.get("zone", "none")}
    if j["exc"] != "none" or i["exc"] != "none":
        return rec
    dj, di = j["disc"], i["disc"]
    rec["shape"] = bool(len(j["num"]) == len(i["num"]) and len(dj) == len(di))
    rec["same"] = bool(dj == di)
    if rec["shape"]:
        worst = 0.0
        for a, b in zip(j["num"], i["num"]):
            if isinstance(a, str) or isinstance(b, str):          # nan / inf: the same special value in both runs
                if a != b:
                    worst = float("inf")
                continue
            worst = max(worst, abs(a - b))
        rec["ticks"] = ticks(worst, j["tol"] / 8) if math.isfinite(worst) else 1000000
    return rec


def run(tier, seed):
    env.setup()
    res = Result("C20", tier, seed)
    paths, outs = run_workers(seed, tier)
    crashed = None
    for mode, (rc, out) in outs.items():
        if mode == "jit" and rc < 0 and outs["nojit"][0] == 0:
            crashed = (rc, out[-400:])          # the compiled run was killed by a signal (memory corruption) while the interpreted run finished
        elif rc != 0:
            res.machinery(f"worker {mode} failed (rc={rc}):\n{out[-2500:]}")
    if res.machinery_errors:
        return res
    J = [json.loads(l) for l in open(paths["jit"]) if l.strip().endswith("}")]
    I = [json.loads(l) for l in open(paths["nojit"])]
    if crashed is not None and len(J) < len(I):
        # the call in flight when the process died is judged like any other: its compiled outcome is "ProcessCrash"; later calls
        # of the list have no compiled result and are not paired
        k = len(J)
        I[k] = dict(I[k], boundary=False)        # a crash is no matter of a decision boundary
        J.append(dict(I[k], exc=f"ProcessCrash(signal {-crashed[0]})", num=[], disc=[]))
        res.coverage["compiled_process_crash"] = {"signal": -crashed[0], "call": I[k]["fn"], "unpaired_calls": len(I) - k - 1, "stderr_tail": crashed[1]}
        I = I[:k + 1]
    if len(J) != len(I):
        res.machinery(f"call lists differ in length: jit {len(J)} interpreted {len(I)}")
        return res
    recs = [pair(j, i) for j, i in zip(J, I)]
    byid = {r["id"]: (r, j, i) for r, j, i in zip(recs, J, I)}
    rejects = trace.judge(recs, "c20", "JitEquivTrace", "JitEquivTrace.cfg", "c20", res, per_shard=400)
    for rid, clauses in sorted(rejects.items(), key=lambda kv: (kv[0][0], int(kv[0][1:]))):
        r, j, i = byid[rid]
        zones = sorted(c for c in clauses if c.startswith("ZONE_"))
        clauses = clauses - set(zones)
        key = f"{r['fn']}:{zones[0][5:]}" if zones else f"{r['fn']}:{'+'.join(sorted(clauses))}:{j['in']}"
        res.violation(key, "+".join(sorted(clauses)),
                      f"{r['fn']} compiled exc={r['excJ']} interpreted exc={r['excI']} ticks={r['ticks']} same={r['same']} shape={r['shape']} "
                      f"compiled={str(j['num'])[:160]} {str(j['disc'])[:120]} interpreted={str(i['num'])[:160]} {str(i['disc'])[:120]}",
                      {"record": r, "compiled": j, "interpreted": i, "seed": seed})
    for p in paths.values():
        os.remove(p)
    fam = collections.Counter(r["fn"].split("[")[0] for r in recs)
    res.coverage["evaluations"] = len(recs)
    res.coverage["functions"] = len(fam)
    res.coverage["per_function"] = dict(sorted(fam.items()))
    res.coverage["raised_in_both"] = sum(1 for r in recs if r["excJ"] != "none" and r["excJ"] == r["excI"])
    res.coverage["boundary_excluded"] = sum(1 for r in recs if r["boundary"])
    res.coverage["distinct_nontrivial"] = len({(r["fn"], byid[r["id"]][1]["in"]) for r in recs if not r["boundary"]})
    res.coverage["rule"] = ("the same deterministic call list executed in two interpreter processes (numba compiled / NUMBA_DISABLE_JIT=1) and paired "
                            "by call id: all 34 distance functions on lattice (exactly degenerate) and lifted pairs, support/aabb/center of every "
                            "collider class fresh and after update_pose, Margin wrappers, the GJK flavours / MPR / EPA on lattice scenes, AabbTree "
                            "histories incl. empty trees and batches, all_aabbs_overlap, barycentric transforms, tetrahedron pairs, half-plane "
                            "intersection incl. empty and parallel sets, polygon forces for 3..12-gons, mesh utilities, find_contact_surface with "
                            "both broad phases, utils / geometry helpers, containment tests and AABB free functions; distinct by (function, argument digest)")
    res.coverage["samples"] = [byid[recs[0]["id"]][1], byid[recs[len(recs) // 2]["id"]][1]]
    res.assumptions = ["closed forms 1e-9 relative (barycentric transforms scaled by their condition number), iterative solvers within the accuracy of C01/C07-C09",
                       "witness points, support points and plane bases are compared through their defining values (they are not unique)",
                       "booleans of narrow-phase tests only outside the grazing band of C02 (doubled)"]
    return res


def replay(path):
    v = json.load(open(path))["replay"]
    print(json.dumps(v["record"]))
    print("compiled   ", json.dumps(v["compiled"])[:600])
    print("interpreted", json.dumps(v["interpreted"])[:600])
    return 1
