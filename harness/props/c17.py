"""C17 - tetrahedral mesh factories (judge specs/hydro/TetMesh.tla)."""
import math, random, itertools
import numpy as np
from .. import env, trace, shapes as S
from ..ratio import ticks
from ..result import Result, chash

TOL = 1e-9
MAXCOMB = 1400          # TLC decides the combinatorial clauses for meshes up to this many tetrahedra


def factories():
    from distance3d.hydroelastic_contact import _tetra_mesh_creation as M
    return M


def mesh_record(rid, name, params, shape, out, exc="none"):
    rec = {"id": rid, "factory": name, "exc": exc, "comb": False, "T": [[1, 2, 3, 4]], "nv": 4, "zero": [1, 2, 3, 4],
           "minVolOK": True, "apexOK": True, "volSum": 0, "inside": 0, "inradius": 0, "helpers": 0, "exactVol": 0}
    if exc != "none":
        return rec
    from distance3d.hydroelastic_contact import tetrahedral_mesh_volumes, tetrahedral_mesh_aabbs, center_of_mass_tetrahedral_mesh
    V, T, pot = np.asarray(out[0], dtype=float), np.asarray(out[1], dtype=int), np.asarray(out[2], dtype=float)
    L = max(1.0, float(np.max(np.linalg.norm(V, axis=1))) * 2)
    size = float(np.max(np.abs(V))) * 2
    rec["nv"] = int(len(V))
    rec["comb"] = bool(len(T) <= MAXCOMB)
    if rec["comb"]:
        rec["T"] = [sorted(int(i) + 1 for i in t) for t in T]
    rec["zero"] = [int(i) + 1 for i in np.where(np.abs(pot) <= 1e-12 * max(size, 1e-300))[0]]
    P = V[T]
    e = P[:, 1:] - P[:, :1]
    signed = np.einsum("ij,ij->i", np.cross(e[:, 0], e[:, 1]), e[:, 2]) / 6.0
    vols = np.abs(signed)
    from scipy.spatial import ConvexHull
    hullvol = float(ConvexHull(V).volume)
    rec["minVolOK"] = bool(np.min(vols) > 1e-9 * hullvol / len(T))
    rec["volSum"] = ticks(abs(float(vols.sum()) - hullvol) / hullvol, TOL / 8)
    # apexes of the two owners of a shared triangle lie on opposite sides of it
    owners = {}
    for ti, t in enumerate(T):
        for f in itertools.combinations(sorted(int(i) for i in t), 3):
            owners.setdefault(f, []).append(ti)
    ok = True
    for f, ts in owners.items():
        if len(ts) == 2:
            a, b, c = V[f[0]], V[f[1]], V[f[2]]
            n = np.cross(b - a, c - a)
            ap = [V[[i for i in T[t] if int(i) not in f][0]] if len({int(i) for i in T[t]}) == 4 else a for t in ts]
            s1, s2 = float(n @ (ap[0] - a)), float(n @ (ap[1] - a))
            if s1 * s2 > 1e-12 * abs(s1) * abs(s2) + 0.0 and (s1 * s2 > 0):
                ok = False
    rec["apexOK"] = bool(ok)
    rec["inside"] = ticks(max(S.outside_lower_bound(shape, v) for v in V), TOL * L / 8)
    inr = min([v for k, v in shape.items() if k not in ("kind", "name", "V")]) if shape["kind"] != "box" else min(shape["a"], shape["b"], shape["c"]) / 2
    if shape["kind"] == "cylinder":
        inr = min(shape["r"], shape["h"] / 2)
    if shape["kind"] == "capsule":
        inr = shape["r"]
    nz = pot[np.abs(pot) > 1e-12 * size]
    rec["inradius"] = ticks(float(np.max(np.abs(nz - inr))) if len(nz) else 0.0, TOL * L / 8)
    h = 0.0
    h = max(h, float(np.max(np.abs(tetrahedral_mesh_volumes(P) - vols))) / max(float(vols.max()), 1e-300))
    ab = tetrahedral_mesh_aabbs(P)
    h = max(h, float(np.max(np.abs(ab[:, :, 0] - P.min(axis=1)))), float(np.max(np.abs(ab[:, :, 1] - P.max(axis=1)))))
    com = (vols[:, None] * P.mean(axis=1)).sum(0) / vols.sum()
    h = max(h, float(np.max(np.abs(center_of_mass_tetrahedral_mesh(P) - com))) / L)
    rec["helpers"] = ticks(h, TOL / 8)
    if shape["kind"] == "box":
        exact = shape["a"] * shape["b"] * shape["c"]
        rec["exactVol"] = ticks(abs(float(vols.sum()) - exact) / exact, TOL / 8)
    return rec


def cases(tier, rng):
    """(factory name, call, analytic shape in lattice-free float parameters)"""
    M = factories()
    from distance3d.hydroelastic_contact import RigidBody
    out = []
    nsz = 6 if tier == "quick" else 40
    sizes = lambda: 10 ** rng.uniform(-2, 2)
    for _ in range(nsz):
        r = sizes()
        for order in ((0, 1, 2) if tier == "quick" else (0, 1, 2, 3, 4)):
            out.append(("sphere", lambda r=r, order=order: M.make_tetrahedral_sphere(r, order), {"kind": "sphere", "r": r}, {"r": r, "order": order}))
        rad = np.array([sizes() for _ in range(3)])
        rad = np.clip(rad, rad.max() / 50, None)
        for order in ((0, 1, 2) if tier == "quick" else (0, 1, 2, 3)):
            out.append(("ellipsoid", lambda rad=rad, order=order: M.make_tetrahedral_ellipsoid(rad.copy(), order),
                        {"kind": "ellipsoid", "a": float(rad[0]), "b": float(rad[1]), "c": float(rad[2])}, {"radii": rad.tolist(), "order": order}))
        # the second mesh of the same order in one process must not depend on the first (call history)
        out.append(("sphere", lambda r=r: M.make_tetrahedral_sphere(r, 1), {"kind": "sphere", "r": r}, {"r": r, "order": 1, "again": True}))
        s = sizes()
        out.append(("cube", lambda s=s: M.make_tetrahedral_cube(s), {"kind": "box", "a": s, "b": s, "c": s}, {"size": s}))
        for kind in ("generic", "two_equal", "three_equal", "nearly_equal", "nearly_equal2", "flat"):
            a = sizes()
            if kind == "generic":
                sz = np.array([a, a * rng.uniform(1.1, 5), a * rng.uniform(1.1, 5)])
            elif kind == "two_equal":
                sz = np.array([a, a, a * rng.uniform(1.5, 4)])
            elif kind == "three_equal":
                sz = np.array([a, a, a])
            elif kind == "nearly_equal":
                sz = np.array([0.1 * 3, 0.3, 1.0]) * rng.choice((1.0, 10.0))         # equal only up to rounding
            elif kind == "nearly_equal2":
                sz = np.array([a * (1 + 2e-16), a, a * 3])
            else:
                sz = np.array([a, a * 20, a * 20])
            sz = sz[list(rng.sample(range(3), 3))]
            out.append(("box", lambda sz=sz: M.make_tetrahedral_box(sz.copy()), {"kind": "box", "a": float(sz[0]), "b": float(sz[1]), "c": float(sz[2])},
                        {"size": sz.tolist(), "variant": kind}))
    # cylinders and capsules: every vertex count per circle in a range (the three cylinder classes and their boundaries)
    ns = list(range(3, 26)) + ([61, 64] if tier == "quick" else list(range(26, 130)) + [197, 244])
    for nper in ns:
        r = rng.choice((0.5, 1.0, 2.0))
        hint = 2 * math.pi * r / (nper + 0.5)
        for ratio in ((0.5, 2.0, 6.0) if tier == "quick" else (0.2, 0.5, 1.0, 2.0, 2.000001, 3.0, 6.0, 20.0)):
            ln = r * ratio
            if (nper > 26 and ratio != 2.0):
                continue
            out.append(("cylinder", lambda r=r, ln=ln, hint=hint: M.make_tetrahedral_cylinder(r, ln, hint), {"kind": "cylinder", "r": r, "h": ln},
                        {"radius": r, "length": ln, "hint": hint, "n": nper}))
        hh = r * rng.choice((0.5, 2.0, 5.0))
        out.append(("capsule", lambda r=r, hh=hh, hint=hint: M.make_tetrahedral_capsule(r, hh, hint), {"kind": "capsule", "r": r, "h": hh},
                    {"radius": r, "height": hh, "hint": hint, "n": nper}))
    # RigidBody factories (same meshes through the public constructors)
    T = np.eye(4)
    out.append(("RigidBody.make_box", lambda: (lambda b: (b.vertices_, b.tetrahedra_, b.potentials_))(RigidBody.make_box(T, np.array([1.0, 2.0, 3.0]))),
                {"kind": "box", "a": 1.0, "b": 2.0, "c": 3.0}, {}))
    out.append(("RigidBody.make_cube", lambda: (lambda b: (b.vertices_, b.tetrahedra_, b.potentials_))(RigidBody.make_cube(T, 0.7)),
                {"kind": "box", "a": 0.7, "b": 0.7, "c": 0.7}, {}))
    out.append(("RigidBody.make_sphere", lambda: (lambda b: (b.vertices_, b.tetrahedra_, b.potentials_))(RigidBody.make_sphere(np.zeros(3), 0.4, 2)),
                {"kind": "sphere", "r": 0.4}, {}))
    out.append(("RigidBody.make_capsule", lambda: (lambda b: (b.vertices_, b.tetrahedra_, b.potentials_))(RigidBody.make_capsule(T, 0.3, 1.0, 0.2)),
                {"kind": "capsule", "r": 0.3, "h": 1.0}, {}))
    out.append(("RigidBody.make_cylinder", lambda: (lambda b: (b.vertices_, b.tetrahedra_, b.potentials_))(RigidBody.make_cylinder(T, 0.3, 1.0, 0.2)),
                {"kind": "cylinder", "r": 0.3, "h": 1.0}, {}))
    out.append(("RigidBody.make_ellipsoid", lambda: (lambda b: (b.vertices_, b.tetrahedra_, b.potentials_))(RigidBody.make_ellipsoid(T, np.array([0.3, 0.5, 1.0]), 2)),
                {"kind": "ellipsoid", "a": 0.3, "b": 0.5, "c": 1.0}, {}))
    return out


def run(tier, seed):
    env.setup()
    rng = random.Random(seed)
    res = Result("C17", tier, seed)
    recs, meta = [], {}
    for i, (name, call, shape, params) in enumerate(cases(tier, rng)):
        rid = f"m{i}"
        try:
            out = call()
            rec = mesh_record(rid, name, params, shape, out)
        except Exception as e:
            rec = mesh_record(rid, name, params, shape, None, exc=type(e).__name__)
        recs.append(rec)
        meta[rid] = {"factory": name, "params": params, "ntets": len(rec["T"]) if rec["comb"] else "large"}
    byid = {r["id"]: r for r in recs}
    rejects = trace.judge(recs, "hydro", "TetMeshTrace", "TetMeshTrace.cfg", "c17", res, heap="2g", per_shard=8)
    for rid, clauses in sorted(rejects.items(), key=lambda kv: int(kv[0][1:])):
        m, r = meta[rid], byid[rid]
        res.violation(f"{m['factory']}:{'+'.join(sorted(clauses))}:{chash(m['params'])}", "+".join(sorted(clauses)),
                      f"{m['factory']} {m['params']} " + str({k: r[k] for k in ('minVolOK', 'apexOK', 'volSum', 'inside', 'inradius', 'helpers', 'exactVol', 'exc')}),
                      {"meta": m, "seed": seed})
    res.coverage["evaluations"] = len(recs)
    res.coverage["combinatorial_by_tlc"] = sum(1 for r in recs if r["comb"])
    res.coverage["distinct_nontrivial"] = len({chash([m["factory"], m["params"]]) for m in meta.values()})
    res.coverage["rule"] = ("factories over log-uniform sizes in [1e-2, 1e2]: icosphere orders 0..2 (thorough 0..4), ellipsoids, cubes, boxes with "
                            "generic / two equal / three equal / equal-up-to-rounding / flat sides, cylinders for every vertex count per circle "
                            "3..25 (thorough ..129) x length classes incl. the class boundary, capsules, the RigidBody constructors; the index "
                            f"arrays of meshes with <= {MAXCOMB} tetrahedra are judged combinatorially by TLC")
    res.coverage["samples"] = [meta["m0"], {k: v for k, v in recs[0].items() if k != "T"}]
    res.assumptions = ["hull volume from scipy.spatial.ConvexHull (trusted base)", "vertices-in-shape measured with the float mirror of module Shapes"]
    return res


def replay(path):
    import json
    print(json.dumps(json.load(open(path))["replay"]["meta"]))
    return 1
