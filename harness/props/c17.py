"""C17 - tetrahedral mesh factories (judge specs/hydro/TetMesh.tla)."""
import math, random, itertools
import numpy as np
from .. import env, trace, shapes as S
from ..ratio import ticks
from ..result import Result, chash

TOL = 1e-9
MAXCOMB = 1400          # TLC decides the combinatorial clauses for meshes up to this many tetrahedra


def factories():
    from distance3d.hydroelastic_contact import _tetra_mesh_creation as M
    return M


def factory_config(name, params, shape, out):
    """configuration of the explorer TetFactory.tla that a call corresponds to, derived from the arguments (class rules as
    documented in the factory) and from the size of the output; None when the model does not cover the call"""
    nv = int(len(out[0]))
    base = name.split(".")[-1].replace("make_", "")
    cfg = {"kind": "", "n": 0, "c": 0, "z": [], "order": 0}
    if base in ("sphere", "ellipsoid"):
        order = params.get("order", 2)
        if order > 2:
            return None
        cfg.update(kind="ico", order=int(order))
    elif base == "cube":
        cfg.update(kind="cube")
    elif base == "box":
        half = 0.5 * np.array([shape["a"], shape["b"], shape["c"]])
        tol = 1e-14 * max(1.0, float(half.min()))
        cfg.update(kind="box", z=[int(a) for a in range(3) if half[a] - half.min() <= tol])
    elif base == "cylinder":
        top, r = 0.5 * shape["h"], shape["r"]
        tol = 1e-14 * max(1.0, min(top, r))
        if top - r > tol:
            cfg.update(kind="cyl_long", n=(nv - 4) // 2)
        elif r - top > tol:
            cfg.update(kind="cyl_short", n=(nv - 3) // 3)
        else:
            cfg.update(kind="cyl_medium", n=(nv - 3) // 2)
    elif base == "capsule":
        n = next((k for k in range(3, 800) if 4 + 2 * k * (k // 2) == nv), None)
        if n is None:
            return None
        cfg.update(kind="capsule", n=int(n), c=int(n // 2))
    else:
        return None
    if len(out[1]) > 4000:          # the comparison is element by element inside TLC: bounded size per record
        return None
    return cfg


def factory_record(rid, cfg, out):
    T, pot = np.asarray(out[1], dtype=int), np.asarray(out[2], dtype=float)
    return {"id": rid, **cfg, "E": [[int(i) for i in t] for t in T], "nv": int(len(out[0])),
            "pot1": [int(i) for i in np.where(pot != 0.0)[0]]}


def mesh_record(rid, name, params, shape, out, exc="none", allow_comb=True):
    rec = {"id": rid, "factory": name, "exc": exc, "comb": False, "T": [[1, 2, 3, 4]], "nv": 4, "zero": [1, 2, 3, 4],
           "minVolOK": True, "apexOK": True, "volSum": 0, "inside": 0, "inradius": 0, "helpers": 0, "exactVol": 0}
    if exc != "none":
        return rec
    from distance3d.hydroelastic_contact import tetrahedral_mesh_volumes, tetrahedral_mesh_aabbs, center_of_mass_tetrahedral_mesh
    V, T, pot = np.asarray(out[0], dtype=float), np.asarray(out[1], dtype=int), np.asarray(out[2], dtype=float)
    L = max(1.0, float(np.max(np.linalg.norm(V, axis=1))) * 2)
    size = float(np.max(np.abs(V))) * 2
    rec["nv"] = int(len(V))
    rec["comb"] = bool(len(T) <= MAXCOMB) and allow_comb
    if rec["comb"]:
        rec["T"] = [sorted(int(i) + 1 for i in t) for t in T]
    rec["zero"] = [int(i) + 1 for i in np.where(np.abs(pot) <= 1e-12 * max(size, 1e-300))[0]]
    P = V[T]
    e = P[:, 1:] - P[:, :1]
    signed = np.einsum("ij,ij->i", np.cross(e[:, 0], e[:, 1]), e[:, 2]) / 6.0
    vols = np.abs(signed)
    from scipy.spatial import ConvexHull
    hullvol = float(ConvexHull(V).volume)
    rec["minVolOK"] = bool(np.min(vols) > 1e-9 * hullvol / len(T))
    rec["volSum"] = ticks(abs(float(vols.sum()) - hullvol) / hullvol, TOL / 8)
    # apexes of the two owners of a shared triangle lie on opposite sides of it
    owners = {}
    for ti, t in enumerate(T):
        for f in itertools.combinations(sorted(int(i) for i in t), 3):
            owners.setdefault(f, []).append(ti)
    ok = True
    for f, ts in owners.items():
        if len(ts) == 2:
            a, b, c = V[f[0]], V[f[1]], V[f[2]]
            n = np.cross(b - a, c - a)
            ap = [V[[i for i in T[t] if int(i) not in f][0]] if len({int(i) for i in T[t]}) == 4 else a for t in ts]
            s1, s2 = float(n @ (ap[0] - a)), float(n @ (ap[1] - a))
            if s1 * s2 > 1e-12 * abs(s1) * abs(s2) + 0.0 and (s1 * s2 > 0):
                ok = False
    rec["apexOK"] = bool(ok)
    rec["inside"] = ticks(max(S.outside_lower_bound(shape, v) for v in V), TOL * L / 8)
    inr = min([v for k, v in shape.items() if k not in ("kind", "name", "V")]) if shape["kind"] != "box" else min(shape["a"], shape["b"], shape["c"]) / 2
    if shape["kind"] == "cylinder":
        inr = min(shape["r"], shape["h"] / 2)
    if shape["kind"] == "capsule":
        inr = shape["r"]
    nz = pot[np.abs(pot) > 1e-12 * size]
    rec["inradius"] = ticks(float(np.max(np.abs(nz - inr))) if len(nz) else 0.0, TOL * L / 8)
    h = 0.0
    h = max(h, float(np.max(np.abs(tetrahedral_mesh_volumes(P) - vols))) / max(float(vols.max()), 1e-300))
    ab = tetrahedral_mesh_aabbs(P)
    h = max(h, float(np.max(np.abs(ab[:, :, 0] - P.min(axis=1)))), float(np.max(np.abs(ab[:, :, 1] - P.max(axis=1)))))
    com = (vols[:, None] * P.mean(axis=1)).sum(0) / vols.sum()
    h = max(h, float(np.max(np.abs(center_of_mass_tetrahedral_mesh(P) - com))) / L)
    rec["helpers"] = ticks(h, TOL / 8)
    if shape["kind"] == "box":
        exact = shape["a"] * shape["b"] * shape["c"]
        rec["exactVol"] = ticks(abs(float(vols.sum()) - exact) / exact, TOL / 8)
    return rec


def cases(tier, rng):
    """(factory name, call, analytic shape in lattice-free float parameters)"""
    M = factories()
    from distance3d.hydroelastic_contact import RigidBody
    out = []
    nsz = 6 if tier == "quick" else 40
    sizes = lambda: 10 ** rng.uniform(-2, 2)
    for _ in range(nsz):
        r = sizes()
        for order in ((0, 1, 2) if tier == "quick" else (0, 1, 2, 3, 4)):
            out.append(("sphere", lambda r=r, order=order: M.make_tetrahedral_sphere(r, order), {"kind": "sphere", "r": r}, {"r": r, "order": order}))
        rad = np.array([sizes() for _ in range(3)])
        rad = np.clip(rad, rad.max() / 50, None)
        for order in ((0, 1, 2) if tier == "quick" else (0, 1, 2, 3)):
            out.append(("ellipsoid", lambda rad=rad, order=order: M.make_tetrahedral_ellipsoid(rad.copy(), order),
                        {"kind": "ellipsoid", "a": float(rad[0]), "b": float(rad[1]), "c": float(rad[2])}, {"radii": rad.tolist(), "order": order}))
        # the second mesh of the same order in one process must not depend on the first (call history)
        out.append(("sphere", lambda r=r: M.make_tetrahedral_sphere(r, 1), {"kind": "sphere", "r": r}, {"r": r, "order": 1, "again": True}))
        s = sizes()
        out.append(("cube", lambda s=s: M.make_tetrahedral_cube(s), {"kind": "box", "a": s, "b": s, "c": s}, {"size": s}))
        for kind in ("generic", "two_equal", "three_equal", "nearly_equal", "nearly_equal2", "flat"):
            a = sizes()
            if kind == "generic":
                sz = np.array([a, a * rng.uniform(1.1, 5), a * rng.uniform(1.1, 5)])
            elif kind == "two_equal":
                sz = np.array([a, a, a * rng.uniform(1.5, 4)])
            elif kind == "three_equal":
                sz = np.array([a, a, a])
            elif kind == "nearly_equal":
                sz = np.array([0.1 * 3, 0.3, 1.0]) * rng.choice((1.0, 10.0))         # equal only up to rounding
            elif kind == "nearly_equal2":
                sz = np.array([a * (1 + 2e-16), a, a * 3])
            else:
                sz = np.array([a, a * 20, a * 20])
            sz = sz[list(rng.sample(range(3), 3))]
            out.append(("box", lambda sz=sz: M.make_tetrahedral_box(sz.copy()), {"kind": "box", "a": float(sz[0]), "b": float(sz[1]), "c": float(sz[2])},
                        {"size": sz.tolist(), "variant": kind}))
    # cylinders and capsules: every vertex count per circle in a range (the three cylinder classes and their boundaries)
    ns = list(range(3, 26)) + ([61, 64] if tier == "quick" else list(range(26, 130)) + [197, 244])
    for nper in ns:
        r = rng.choice((0.5, 1.0, 2.0))
        hint = 2 * math.pi * r / (nper + 0.5)
        # the class boundary length = 2 * radius is approached from both sides (seed C17-8: a wider "medium" band gives a short
        # cylinder the medial potential of a medium one)
        for ratio in ((0.5, 1.999, 2.0, 2.001, 6.0) if tier == "quick" else (0.2, 0.5, 1.0, 1.99, 1.999, 2.0, 2.000001, 2.001, 2.01, 3.0, 6.0, 20.0)):
            ln = r * ratio
            if (nper > 26 and ratio != 2.0):
                continue
            out.append(("cylinder", lambda r=r, ln=ln, hint=hint: M.make_tetrahedral_cylinder(r, ln, hint), {"kind": "cylinder", "r": r, "h": ln},
                        {"radius": r, "length": ln, "hint": hint, "n": nper}))
        hh = r * rng.choice((0.5, 2.0, 5.0))
        out.append(("capsule", lambda r=r, hh=hh, hint=hint: M.make_tetrahedral_capsule(r, hh, hint), {"kind": "capsule", "r": r, "h": hh},
                    {"radius": r, "height": hh, "hint": hint, "n": nper}))
    # RigidBody factories (same meshes through the public constructors)
    T = np.eye(4)
    out.append(("RigidBody.make_box", lambda: (lambda b: (b.vertices_, b.tetrahedra_, b.potentials_))(RigidBody.make_box(T, np.array([1.0, 2.0, 3.0]))),
                {"kind": "box", "a": 1.0, "b": 2.0, "c": 3.0}, {}))
    out.append(("RigidBody.make_cube", lambda: (lambda b: (b.vertices_, b.tetrahedra_, b.potentials_))(RigidBody.make_cube(T, 0.7)),
                {"kind": "box", "a": 0.7, "b": 0.7, "c": 0.7}, {}))
    out.append(("RigidBody.make_sphere", lambda: (lambda b: (b.vertices_, b.tetrahedra_, b.potentials_))(RigidBody.make_sphere(np.zeros(3), 0.4, 2)),
                {"kind": "sphere", "r": 0.4}, {}))
    out.append(("RigidBody.make_capsule", lambda: (lambda b: (b.vertices_, b.tetrahedra_, b.potentials_))(RigidBody.make_capsule(T, 0.3, 1.0, 0.2)),
                {"kind": "capsule", "r": 0.3, "h": 1.0}, {}))
    out.append(("RigidBody.make_cylinder", lambda: (lambda b: (b.vertices_, b.tetrahedra_, b.potentials_))(RigidBody.make_cylinder(T, 0.3, 1.0, 0.2)),
                {"kind": "cylinder", "r": 0.3, "h": 1.0}, {}))
    out.append(("RigidBody.make_ellipsoid", lambda: (lambda b: (b.vertices_, b.tetrahedra_, b.potentials_))(RigidBody.make_ellipsoid(T, np.array([0.3, 0.5, 1.0]), 2)),
                {"kind": "ellipsoid", "a": 0.3, "b": 0.5, "c": 1.0}, {}))
    return out


MODEL_CFGS = {"quick": [("TetFactory_q_cyl.cfg", None), ("TetFactory_q_cap.cfg", None)],
              "thorough": [("TetFactory_t_cyl.cfg", None), ("TetFactory_t_cap.cfg", None)]}
MODEL_FAIL = [("TetFactory_no_wrap.cfg", "IndicesInRange"), ("TetFactory_alt_diag.cfg", "FaceAtMostTwo"),
              ("TetFactory_box_nodup.cfg", "FourDistinct"), ("TetFactory_ring_shift.cfg", "ApexesSeparated")]


def model_check(tier, res):
    """TLC on the explorer TetFactory.tla: the library's construction satisfies every invariant for all configurations within the
    bounds of the cfg files; each slip variant violates the invariant named for it (vacuity guard)"""
    from .. import tlc
    jobs = [dict(spec_dir="hydro", module="TetFactory", cfg=c, workers=6 if tier == "quick" else 8, heap="3g", timeout=7200, tag=c[:-4])
            for c, _ in MODEL_CFGS[tier]] + \
           [dict(spec_dir="hydro", module="TetFactory", cfg=c, workers=1, heap="1g", timeout=1800, tag=c[:-4]) for c, _ in MODEL_FAIL]
    outs = tlc.run_many(jobs, par=6)
    info = {}
    for (c, expect), r in zip(MODEL_CFGS[tier] + MODEL_FAIL, outs):
        res.add_tlc(r)
        info[c] = {"distinct": r.distinct, "violated": r.invariant_violated, "wall": round(r.wall, 1)}
        if expect is None:
            if r.invariant_violated:
                res.violation(f"model:{c}:{'+'.join(r.invariant_violated)}", "+".join(r.invariant_violated),
                              f"the explorer TetFactory ({c}) violates {r.invariant_violated}: the construction as transcribed does not tile", {"cfg": c})
            elif not r.ok:
                i = r.out.find("Error")
                res.machinery(f"TLC on TetFactory {c} did not finish:\n" + r.out[i:i + 1500])
        elif expect not in r.invariant_violated:
            res.machinery(f"vacuity guard: variant {c} was expected to violate {expect}, TLC says {r.invariant_violated or r.out[-600:]}")
    res.coverage["model_checking"] = info


def run(tier, seed):
    env.setup()
    rng = random.Random(seed)
    res = Result("C17", tier, seed)
    from concurrent.futures import ThreadPoolExecutor
    ex = ThreadPoolExecutor(max_workers=1)
    mc = ex.submit(model_check, tier, res)
    recs, meta, outs, fac = [], {}, {}, []
    for i, (name, call, shape, params) in enumerate(cases(tier, rng)):
        rid = f"m{i}"
        try:
            out = call()
            rec = mesh_record(rid, name, params, shape, out)
            outs[rid] = (name, params, shape, out)
            cfg = factory_config(name, params, shape, out)
            if cfg is not None:
                fac.append(factory_record(rid, cfg, out))
        except Exception as e:
            rec = mesh_record(rid, name, params, shape, None, exc=type(e).__name__)
        recs.append(rec)
        meta[rid] = {"factory": name, "params": params, "ntets": len(rec["T"]) if rec["comb"] else "large"}
    # every mesh is measured a second time after all factories have run: a mesh must stay what it was when later calls
    # build other meshes (seed C17-7: a potentials array shared between all spheres of one order)
    for rid, (name, params, shape, out) in outs.items():
        rec = mesh_record(rid + "e", name, params, shape, out, allow_comb=False)
        recs.append(rec)
        meta[rid + "e"] = {"factory": name, "params": params, "ntets": "re-measured after all calls", "again": True}
    byid = {r["id"]: r for r in recs}
    rejects = trace.judge(recs, "hydro", "TetMeshTrace", "TetMeshTrace.cfg", "c17", res, heap="2g", per_shard=8)
    for rid, clauses in sorted(rejects.items(), key=lambda kv: (int(kv[0][1:].rstrip("e")), kv[0])):
        m, r = meta[rid], byid[rid]
        late = ":after-later-calls" if m.get("again") else ""
        res.violation(f"{m['factory']}:{'+'.join(sorted(clauses))}:{chash(m['params'])}{late}", "+".join(sorted(clauses)),
                      f"{m['factory']} {m['params']}{late} " + str({k: r[k] for k in ('minVolOK', 'apexOK', 'volSum', 'inside', 'inradius', 'helpers', 'exactVol', 'exc')}),
                      {"meta": m, "seed": seed})
    # binding of the explorer: the returned index arrays against the model's element list (drift, not a verdict)
    drift = trace.judge(fac, "hydro", "TetFactoryTrace", "TetFactoryTrace.cfg", "c17f", res, heap="2g", per_shard=12)
    res.coverage["drift"] = len(drift)
    res.coverage["factory_outputs_equal_to_model"] = len(fac) - len(drift)
    kinds = {}
    for f in fac:
        kinds.setdefault(f["kind"], set()).add((f["n"], f["c"], tuple(f["z"]), f["order"]))
    res.coverage["factory_configurations_bound"] = {k: len(v) for k, v in sorted(kinds.items())}
    for rid, clauses in sorted(drift.items())[:10]:
        res.notes.append(f"drift: {meta[rid]['factory']} {meta[rid]['params']} differs from TetFactory.tla in {sorted(clauses)}")
    mc.result()
    res.coverage["evaluations"] = len(recs)
    res.coverage["combinatorial_by_tlc"] = sum(1 for r in recs if r["comb"])
    res.coverage["distinct_nontrivial"] = len({chash([m["factory"], m["params"]]) for m in meta.values()})
    res.coverage["rule"] = ("factories over log-uniform sizes in [1e-2, 1e2]: icosphere orders 0..2 (thorough 0..4), ellipsoids, cubes, boxes with "
                            "generic / two equal / three equal / equal-up-to-rounding / flat sides, cylinders for every vertex count per circle "
                            "3..25 (thorough ..129) x length classes incl. both sides of the class boundary, capsules, the RigidBody constructors; "
                            f"the index arrays of meshes with <= {MAXCOMB} tetrahedra are judged combinatorially by TLC; every mesh is measured "
                            "again after all factory calls; the explorer TetFactory.tla is model-checked (all convex lattice polygons with up to "
                            "MaxN vertices, all box side patterns, icosphere orders) and every returned index array is compared with its element list")
    res.coverage["samples"] = [meta["m0"], {k: v for k, v in recs[0].items() if k != "T"}]
    res.assumptions = ["hull volume from scipy.spatial.ConvexHull (trusted base)", "vertices-in-shape measured with the float mirror of module Shapes",
                       "TetFactory.tla: signs of determinants depend only on the cyclic order and convexity of the circle polygon (lattice polygons "
                       "inscribed in a circle stand for the regular polygon)"]
    return res


def replay(path):
    import json
    print(json.dumps(json.load(open(path))["replay"]["meta"]))
    return 1
