"""C13 - point containment predicates (judge specs/shapes/ShapeJudge.tla, clauses of kind "contain")."""
import math, random, itertools
import numpy as np
from .. import env, tlc, trace, shapes as S
from ..ratio import ticks
from ..result import Result, chash
from .c03 import mc

TOL = 1e-9


_BUF = {}


def _buf(key, arr):
    """argument arrays are pre-allocated buffers that are overwritten in place from one call to the next
    (a natural usage; exposes results that depend on array identity rather than content)"""
    arr = np.ascontiguousarray(arr)
    b = _BUF.get(key)
    if b is not None and b.shape == arr.shape and b.dtype == arr.dtype:
        np.copyto(b, arr)
        return b
    _BUF[key] = arr.copy()
    return _BUF[key]


def predicate(s, unit, R, tw):
    """returns (callable(points)->bool array, distance callable or None, collider for support agreement)"""
    from distance3d import containment_test as ct, distance as dd
    T = np.eye(4); T[:3, :3] = R; T[:3, 3] = tw
    k = s["kind"]
    T = _buf((k, "T"), T)
    c = _buf((k, "c"), np.asarray(tw, dtype=float))
    if k == "sphere":
        return (lambda P: ct.points_in_sphere(P, c, unit * s["r"])), None
    if k == "capsule":
        return (lambda P: ct.points_in_capsule(P, T, unit * s["r"], unit * s["h"])), None
    if k == "cylinder":
        return (lambda P: ct.points_in_cylinder(P, T, unit * s["r"], unit * s["h"])), \
               (lambda p: dd.point_to_cylinder(p, T, unit * s["r"], unit * s["h"])[0])
    if k == "cone":
        return (lambda P: ct.points_in_cone(P, T, unit * s["r"], unit * s["h"])), None
    if k == "ellipsoid":
        rad = _buf((k, "rad"), unit * np.array([s["a"], s["b"], s["c"]], dtype=float))
        return (lambda P: ct.points_in_ellipsoid(P, T, rad)), (lambda p: dd.point_to_ellipsoid(p, T, rad)[0])
    if k == "disk":
        nrm = _buf((k, "n"), R[:, 2])
        return (lambda P: ct.points_in_disk(P, c, unit * s["r"], nrm)), (lambda p: dd.point_to_disk(p, c, unit * s["r"], nrm)[0])
    if k == "box":
        size = _buf((k, "size"), unit * np.array([s["a"], s["b"], s["c"]], dtype=float))
        return (lambda P: ct.points_in_box(P, T, size)), (lambda p: dd.point_to_box(p, T, size)[0])
    if k == "hull":
        V = _buf((k, "V", len(s["V"])), np.array(s["V"], dtype=float) * unit)
        tri = _buf((k, "tri", len(s["V"])), S.hull_triangles(s["V"]))
        return (lambda P: ct.points_in_convex_mesh(P, T, V, tri)), None
    return None, None


def local_points(s, rng, n):
    """rational local points pn/pd (pd in {1,2,4}) around the shape: lattice points, axis points, apex / rim / corner
    features and their neighbours"""
    fs = int(math.ceil(S.feature_size(s))) + 1
    pts = set()
    for pd in (1, 2):
        rngc = range(-fs * pd, fs * pd + 1)
        for _ in range(n):
            pts.add((tuple(rng.choice(rngc) for _ in range(3)), pd))
    for pd in (1, 2, 4):
        for z in range(-fs * pd, fs * pd + 1):
            pts.add(((0, 0, z), pd))
            pts.add(((z, 0, 0), pd))
    if s["kind"] in ("cone", "cylinder"):
        # rim / apex neighbourhoods at finer resolution (1/8, 1/64): small insets from the rim of the base (cone: z = 0,
        # cylinder: z = +-h/2) and from the apex, in four azimuths
        r, h = s["r"], s["h"]
        for pd in (8, 64):
            for a in (1, 2, 3, 5, 9):
                for b in (1, 2, 4):
                    feats = [(r * pd - a, b), (r * pd + a, b), (r * pd - a, -b)] if s["kind"] == "cone" else \
                            [(r * pd - a, h * pd // 2 - b), (r * pd + a, h * pd // 2 - b), (r * pd - a, h * pd // 2 + b), (r * pd - a, -(h * pd // 2 - b))]
                    if s["kind"] == "cone":
                        feats += [(a, h * pd - b), (a, h * pd + b)]
                    for rho, z in feats:
                        for q in ((rho, 0, z), (0, rho, z), (-rho, 0, z), (0, -rho, z)):
                            pts.add((q, pd))
    if s["kind"] == "hull":
        for v in s["V"]:
            pts.add((tuple(v), 1))
            for dv in itertools.product((-1, 0, 1), repeat=3):
                pts.add((tuple(2 * v[i] + dv[i] for i in range(3)), 2))
    return sorted(pts)


def gen(tier, seed):
    rng = random.Random(seed)
    recs, n = [], 0
    cat = [s for s in S.catalogue() if s["kind"] != "ellipse"]
    nrot = 3 if tier == "quick" else 10
    npts = 60 if tier == "quick" else 400
    for s in cat:
        flat = s["kind"] == "disk"
        rots = [S.ROTS[0]] + rng.sample(S.ROTS[1:24], nrot - nrot // 2) + rng.sample(S.RATIONAL, nrot // 2)
        for ri, (M, N) in enumerate(rots):
            unit = rng.choice((1.0, 0.5, 0.25, 4.0)) if S.feature_size(s) * 4.0 <= 100 else rng.choice((1.0, 0.5, 0.25))
            t = [rng.randint(-6, 6) for _ in range(3)] if ri else [0, 0, 0]
            R = np.array(M, dtype=float) / N
            tw = unit * np.array(t, dtype=float)
            pred, dist = predicate(s, unit, R, tw)
            coll = list(S.build(s, unit, R, tw).values())[0]
            L = S.scale_L(s, unit, tw)
            P = local_points(s, rng, npts)
            if flat and N != 1:
                # in-plane lattice points are only exactly in the plane (in float) under lattice-preserving poses
                P = [p for p in P if p[0][2] != 0]
            W = np.array([tw + unit * (R @ (np.array(pn, dtype=float) / pd)) for pn, pd in P])
            order = list(range(len(P)))
            rng.shuffle(order)
            try:
                batch = np.asarray(pred(np.ascontiguousarray(W[order])), dtype=bool)
                exc = "none"
            except Exception as e:
                batch, exc = None, type(e).__name__
            inv = {o: i for i, o in enumerate(order)}
            for j, (pn, pd) in enumerate(P):
                n += 1
                rec = {"id": f"c{n}", "kind": "contain", "tier": 1, "shape": {kk: v for kk, v in s.items() if kk != "name"},
                       "pn": list(pn), "pd": pd, "ans": False, "batchans": False, "hasdist": False, "dzero": False,
                       "supok": True, "exc": exc, "rot": [M, N]}
                if exc == "none":
                    try:
                        single = bool(np.asarray(pred(np.ascontiguousarray(W[j:j + 1])))[0])
                        rec["ans"], rec["batchans"] = single, bool(batch[inv[j]])
                        if dist is not None and j % 3 == 0:
                            rec["hasdist"] = True
                            rec["dzero"] = bool(float(dist(np.ascontiguousarray(W[j]))) <= TOL * L)
                        if single:
                            # no contained point projects beyond the collider's support value (a few directions)
                            for _ in range(3):
                                d = np.array([rng.gauss(0, 1) for _ in range(3)])
                                sp = coll.support_function(np.ascontiguousarray(d))
                                if float(d @ W[j]) > float(d @ sp) + TOL * L * float(np.linalg.norm(d)):
                                    rec["supok"] = False
                    except Exception as e:
                        rec["exc"] = type(e).__name__
                recs.append(rec)
    return recs


def run(tier, seed):
    env.setup()
    res = Result("C13", tier, seed)
    recs = gen(tier, seed)
    byid = {r["id"]: r for r in recs}
    rejects = trace.judge(recs, "shapes", "ShapeTrace", "ShapeTrace.cfg", "c13", res)
    for rid, clauses in sorted(rejects.items(), key=lambda kv: int(kv[0][1:])):
        r = byid[rid]
        key = f"{r['shape']['kind']}:{'+'.join(sorted(clauses))}:{chash([r['shape'], r['pn'], r['pd'], r['rot']])}"
        res.violation(key, "+".join(sorted(clauses)), f"points_in_{r['shape']['kind']} {r['shape']} local point {r['pn']}/{r['pd']} "
                      f"rot={r['rot']} ans={r['ans']} batch={r['batchans']} dzero={r['dzero']} supok={r['supok']} exc={r['exc']}",
                      {"record": r, "seed": seed})
    mc(res, tier)
    res.coverage["evaluations"] = len(recs)
    res.coverage["distinct_nontrivial"] = len({chash([r["shape"], r["pn"], r["pd"]]) for r in recs})
    res.coverage["rule"] = ("eight predicates x lattice shape catalogue x exact rotations x lattice translations x rational local "
                            "points (random lattice points, axis points, vertex neighbourhoods); TLC decides strictly inside / "
                            "strictly outside exactly; boundary points are not judged; every point is asked alone and inside a "
                            "shuffled batch; distinct by (shape, point)")
    res.coverage["samples"] = [recs[0], recs[len(recs) // 2], recs[-1]]
    res.assumptions = ["points exactly on the boundary are not judged (the property leaves a 1e-9*L band)"]
    return res


def replay(path):
    import json
    v = json.load(open(path))["replay"]
    print("re-run: VERIF_SEED=%s ./check C13 quick; record: %s" % (v.get("seed"), json.dumps(v["record"])))
    return 1
