"""C18 - simplex solvers return the minimum-norm point (judge: specs/c18/SimplexJudge.tla)."""
import itertools, math, os, random
import numpy as np
from .. import env, tlc, trace
from ..ratio import recon_vec, ticks
from ..result import Result, chash

RELTOL = 1e-9
MAXDEN = 4096
LAT = [(x, y, z) for x in (-1, 0, 1) for y in (-1, 0, 1) for z in (-1, 0, 1)]


def call_jolt(Y):
    from distance3d.gjk._gjk_jolt import get_closest_point_to_origin
    k = len(Y)
    A = np.zeros((4, 3))
    A[:k] = np.asarray(Y, dtype=float)
    ok, v, vsq, bits = get_closest_point_to_origin(A, k, float("inf"))
    if not ok:
        raise FloatingPointError("solver reported failure (non-finite norm)")
    S = [i + 1 for i in range(4) if bits & (1 << i)]
    return np.array(v, dtype=float), S, None


def call_johnson(Y):
    from distance3d.gjk._gjk_original import (SimplexInfo, Solution,
                                              distance_subalgorithm_with_backup_procedure)
    k = len(Y)
    s = SimplexInfo()
    s.set_first_point(1, 1, np.asarray(Y[0], dtype=float))
    for i in range(1, k):
        s.add_new_point(i + 1, i + 1, np.asarray(Y[i], dtype=float))
    sol, _ = distance_subalgorithm_with_backup_procedure(s, Solution(), True)
    n = len(s)
    S = [int(i) for i in s.indices_polytope1[:n]]
    w = np.array(sol.barycentric_coordinates[:n], dtype=float)
    return np.array(sol.search_direction, dtype=float), S, w


def call_exactmn(Y):
    """The harness' own exact-rational oracle (measuring instrument of the float tier); it is
    judged on the lattice tier by the same certificate as the library's solvers."""
    from ..exactmn import exact_minnorm
    x, n2, t = exact_minnorm(Y)
    return np.array([float(c) for c in x]), [i + 1 for i in t], None


SOLVERS = {"jolt": call_jolt, "johnson": call_johnson}
ALL_SOLVERS = dict(SOLVERS, exactmn=call_exactmn)
TAG = {"jolt": "jl", "johnson": "jn"}


def lattice_record(rid, solver, Y):
    Yf = np.asarray(Y, dtype=float)
    scale = max(1e-300, float(np.max(np.linalg.norm(Yf, axis=1))))
    rec = {"id": rid, "tier": 1, "solver": solver, "Y": [list(map(int, p)) for p in Y],
           "S": [1], "recon": False, "xn": [0, 0, 0], "xd": 1, "nticks": 0, "exc": "none",
           "wn": [1], "wd": 1, "wrecon": False, "wticks": 0}
    try:
        v, S, w = ALL_SOLVERS[solver](Y)
    except Exception as e:  # any exception is an observation, judged by the spec
        rec["exc"] = type(e).__name__
        return rec
    rec["S"] = S
    tol = RELTOL * scale
    ok, xn, xd = recon_vec(v, MAXDEN, tol)
    rec["recon"], rec["xn"], rec["xd"] = bool(ok), xn, xd
    if ok:
        r = math.sqrt(sum(c * c for c in xn)) / xd
        rec["nticks"] = ticks(abs(float(np.linalg.norm(v)) - r), tol / 8)
    if w is not None:
        wok, wn, wd = recon_vec(w, MAXDEN * MAXDEN, RELTOL)
        rec["wrecon"], rec["wn"], rec["wd"] = bool(wok), wn, wd
        if wok:
            rec["wticks"] = ticks(max(abs(float(w[i]) - wn[i] / wd) for i in range(len(w))), RELTOL / 8)
    return rec


def classify(Yf):
    """input description for the float tier: decimal exponents of scale, aspect ratio, smallest extent"""
    scale = float(np.max(np.linalg.norm(Yf, axis=1)))
    if len(Yf) < 2:
        return scale, 0, int(math.floor(math.log10(scale))), int(math.floor(math.log10(scale)))
    sv = np.linalg.svd(Yf - Yf.mean(0), compute_uv=False)
    small = max(float(sv[min(len(Yf) - 2, 2)]), 1e-300)
    asp = max(float(sv[0]) / small, 1.0)
    cl = lambda x: max(-99, min(99, int(math.floor(math.log10(max(x, 1e-300))))))
    return scale, cl(asp), cl(scale), cl(small)


def float_record(rid, solver, Y):
    """T3: random real configuration.  The error of the returned norm is measured against the
    harness' exact-rational oracle (floats are dyadic rationals, so the oracle is exact)."""
    from ..exactmn import exact_minnorm
    Yf = np.asarray(Y, dtype=float)
    scale, aspdec, scaledec, featdec = classify(Yf)
    rec = {"id": rid, "tier": 3, "solver": solver, "exc": "none", "nticks": 0, "hullticks": 0,
           "wticks": 0, "k": len(Y), "aspDec": aspdec, "scaleDec": scaledec, "featDec": featdec,
           "floatY": [[float(c).hex() for c in p] for p in Yf]}
    try:
        v, S, w = SOLVERS[solver](Y)
    except Exception as e:
        rec["exc"] = type(e).__name__
        return rec
    tol = RELTOL * scale
    x, n2, _ = exact_minnorm(Yf)
    rec["nticks"] = ticks(abs(float(np.linalg.norm(v)) - math.sqrt(float(n2))), tol / 8)
    # hull membership of v in conv(Y[S]): non-negative least squares on the subset
    from scipy.optimize import nnls
    P = Yf[[i - 1 for i in S]]
    A = np.vstack([P.T / scale, np.ones(len(S))])
    b = np.append(v / scale, 1.0)
    _, rn = nnls(A, b)
    rec["hullticks"] = ticks(rn * scale, tol / 8)
    if w is not None:
        rw = float(np.linalg.norm(w @ P - v)) + abs(float(w.sum()) - 1.0) * scale + max(0.0, -float(w.min())) * scale
        rec["wticks"] = ticks(rw, tol / 8)
    return rec


def configs(tier, rng):
    out = []
    for k in (1, 2, 3):
        out += list(itertools.product(LAT, repeat=k))
    all4 = itertools.product(LAT, repeat=4)
    if tier == "thorough":
        out += list(all4)
    else:
        # quick: every 4-point configuration whose first point is one of the 4 canonical
        # representatives of the lattice under the cube symmetries, thinned 1:9 by a seeded stride
        reps = [(0, 0, 0), (1, 0, 0), (1, 1, 0), (1, 1, 1)]
        off = rng.randrange(9)
        n = 0
        for a in reps:
            for rest in itertools.product(LAT, repeat=3):
                if n % 9 == off:
                    out.append((a,) + rest)
                n += 1
    return out


def lat2_samples(n, rng):
    L = [-2, -1, 0, 1, 2]
    out = []
    for _ in range(n):
        k = rng.choice((2, 3, 3, 4, 4, 4))
        out.append(tuple(tuple(rng.choice(L) for _ in range(3)) for _ in range(k)))
    return out


def _rand_cfg(rng, lo, hi, kmin=1):
    k = rng.choice([kk for kk in (1, 2, 3, 4) if kk >= kmin])
    base = np.array([[rng.gauss(0, 1) for _ in range(3)] for _ in range(k)])
    s = np.array([10 ** rng.uniform(lo, hi) for _ in range(3)])
    q, _ = np.linalg.qr(np.array([[rng.gauss(0, 1) for _ in range(3)] for _ in range(3)]))
    Y = (base * s) @ q.T
    if rng.random() < 0.5:
        Y = Y + np.array([rng.gauss(0, 1) for _ in range(3)]) * float(np.max(s))
    return Y


PINNED = [  # inputs named in known_findings.json, replayed in every run
    [[-11739.314130091887, -33996.531348794204, 16037.817424120427], [9992.474916493127, 28937.763472805458, -13651.35058794448], [30451.808295370858, 88187.08262969299, -41602.13631409937], [14032.297153969706, 40636.90870700589, -19170.406433973516]],
    [[0.0008058297091660017, 0.0003445486775192576, -5.6704239779200514e-05], [0.00012201230713136262, -0.00027348563385278755, 0.00015175469357633914], [-0.00041586404960816626, -0.0004460823086469577, -0.00050419803907855], [-0.0009761973593012311, 0.001852097244150863, 0.0019338636251655709]],
    [[-2.983024605947345e-08, 9.355755317446385e-07, -1.2905982945343782e-06], [1.8132391889612587e-05, 9.556172469348607e-06, 1.3063300659889448e-05], [-1.8927285663925085e-06, -2.7583439176013306e-06, 1.838883678254541e-06], [-8.727307439970415e-06, -4.771163503655669e-06, -2.3964774779509737e-05]],
]


def _sliver(rng):
    """thin triangle / flat tetrahedron (aspect 1e2..1e5, smallest extent >= 1.2e-3) with the origin
    projecting into its interior at a distance comparable to its height: near-degenerate but well scaled"""
    B = 10 ** rng.uniform(0.3, 2.0)
    h = max(1.3e-3, B * 10 ** rng.uniform(-4.8, -2.0))
    a = np.array([0.0, 0.0, 0.0]); b = np.array([B, 0.0, 0.0]); c = np.array([B * rng.uniform(0.2, 0.8), h, 0.0])
    P = [a, b, c]
    if rng.random() < 0.4:
        P.append(np.array([B * rng.uniform(0.2, 0.8), h * rng.uniform(0.1, 0.9), h * rng.uniform(0.5, 2.0)]))
    w = np.array([rng.uniform(0.1, 1.0) for _ in range(3)]); w /= w.sum()
    foot = w[0] * a + w[1] * b + w[2] * c
    off = rng.choice((0.0, 0.5 * h, 5 * h, 100 * h, 0.3 * B)) * rng.choice((-1, 1))
    o = foot + np.array([0.0, 0.0, off])
    q, _ = np.linalg.qr(np.array([[rng.gauss(0, 1) for _ in range(3)] for _ in range(3)]))
    Y = (np.array(P) - o) @ q.T
    idx = list(range(len(P))); rng.shuffle(idx)
    return Y[idx]


def _needle(rng):
    """needle triangle (aspect 1e5 .. 1e7, below the zone of the Jolt solver's known finding) with the origin projecting into
    its interior at a distance far below its length, in general orientation and any vertex order (seed C18-7: the triangle
    normal from the two long edges loses the short one)"""
    L = 10 ** rng.uniform(-1, 1); w = L * 10 ** rng.uniform(-6.9, -5.0); dist = L * 10 ** rng.uniform(-5, -2)
    a = np.array([0.0, 0.0, 0.0]); b = np.array([L, 0.0, 0.0]); c = np.array([L * rng.uniform(0.3, 1.0), w, 0.0])
    if rng.random() < 0.6:       # the short side is an edge: two vertices w apart, the third one L away
        c = np.array([L * (1.0 + rng.uniform(-1.0, 1.0) * w / L), w, 0.0])
    wts = np.array([rng.uniform(0.1, 1.0) for _ in range(3)]); wts /= wts.sum()
    o = wts[0] * a + wts[1] * b + wts[2] * c + np.array([0.0, 0.0, dist])
    q, _ = np.linalg.qr(np.array([[rng.gauss(0, 1) for _ in range(3)] for _ in range(3)]))
    idx = list(range(3)); rng.shuffle(idx)
    return ((np.array([a, b, c]) - o) @ q.T)[idx]


def float_samples(n, rng):
    """a third 'moderate' (anisotropic scaling 10^[-1,1.5]), a third 'flat' (10^[-2.5,2], k >= 3), a third
    'extreme' (10^[-6,6], the twelve orders of magnitude of the property); the judge classifies each
    record by its measured conditioning"""
    return ([np.array(p) for p in PINNED] + [_rand_cfg(rng, -1.0, 1.5) for _ in range(n // 3)]
            + [_rand_cfg(rng, -2.5, 2.0, kmin=3) for _ in range(n // 6)]      # flat / needle-like, still well scaled
            + [_sliver(rng) for _ in range(n // 3 - n // 6)] + [_needle(rng) for _ in range(n // 6)]
            + [_rand_cfg(rng, -6.0, 6.0) for _ in range(n - 2 * (n // 3))])


def model_check(res, tier):
    """TLC on the specification alone: existence/uniqueness of the certified minimiser, the
    denominator bound the rational reconstruction relies on, and the transcribed Jolt solver
    (explorer) against the declarative definition, over the whole lattice."""
    cfgs = [("SimplexMC", "SimplexMC3.cfg", 16), ("Johnson", "Johnson3.cfg", 8)] if tier == "quick" else [("SimplexMC", "SimplexMC4.cfg", 16), ("Johnson", "Johnson4.cfg", 16)]
    for v in ("no_vertex_pass", "seg12_swapped"):
        # vacuity guard of the Johnson explorer: each slip variant must violate BackupCorrect
        r = tlc.run("c18", "Johnson", cfg=f"Johnson_{v}.cfg", workers=2, heap="1g", timeout=1800)
        res.add_tlc(r)
        if "BackupCorrect" not in r.invariant_violated:
            res.machinery(f"Johnson.tla variant {v} did not violate BackupCorrect (vacuous model)")
    for mod, cfg, w in cfgs:
        r = tlc.run("c18", mod, cfg=cfg, workers=w, heap="4g", timeout=7200)
        res.add_tlc(r)
        res.coverage.setdefault("mc_runs", []).append({"cfg": cfg, "states": r.distinct, "wall": round(r.wall, 1)})
        if r.invariant_violated or r.property_violated:
            res.violation(f"mc:{cfg}:{','.join(r.invariant_violated)}", "ModelInvariant",
                          f"TLC found invariant {r.invariant_violated} violated on the specification",
                          {"tlc_tail": r.out[-4000:]})
        elif not r.ok:
            res.machinery("TLC SimplexMC failed:\n" + r.out[-3000:])


def run(tier, seed):
    env.setup()
    rng = random.Random(seed)
    res = Result("C18", tier, seed)
    recs, nontrivial = [], set()
    cf = configs(tier, rng)
    cf2 = lat2_samples(3000 if tier == "quick" else 100000, rng)
    for solver in SOLVERS:
        for i, Y in enumerate(cf):
            recs.append(lattice_record(f"{TAG[solver]}{i}", solver, Y))
        for i, Y in enumerate(cf2):
            recs.append(lattice_record(f"{TAG[solver]}L{i}", solver, Y))
    # the float tier's measuring instrument, certified by TLC on lattice inputs
    for i, Y in enumerate(cf[::7] + cf2[::3]):
        recs.append(lattice_record(f"ex{i}", "exactmn", Y))
    fl = float_samples(2000 if tier == "quick" else 50000, rng)
    for solver in SOLVERS:
        for i, Y in enumerate(fl):
            recs.append(float_record(f"{TAG[solver]}F{i}", solver, Y))
    byid = {r["id"]: r for r in recs}
    assert len(byid) == len(recs), "record ids must be unique"
    rejects = trace.judge(recs, "c18", "SimplexTrace", "SimplexTrace.cfg", "c18", res)
    for rid, clauses in sorted(rejects.items()):
        r = byid[rid]
        drift = {c for c in clauses if c.startswith("DRIFT_")}
        clauses = clauses - drift
        if drift:
            res.coverage["drift"] += 1
            if len(res.notes) < 5:
                res.notes.append(f"drift: johnson on Y={r.get('Y')} reports S={r.get('S')} x={r.get('xn')}/{r.get('xd')}, the model Johnson.tla another candidate")
        if not clauses:
            continue
        if r["solver"] == "exactmn":
            res.machinery(f"the harness' exact oracle was rejected by the judge on {r['Y']}: {clauses}")
            continue
        if "ZONE_Extreme" in clauses:      # named pattern of the judge spec (SimplexJudge!Extreme)
            clauses = clauses - {"ZONE_Extreme"}
            key = f"{r['solver']}:float:extreme"
        elif r["tier"] == 3:
            key = f"{r['solver']}:float:regular:{rid}:seed{seed}"
        else:
            key = f"{r['solver']}:{chash(r.get('Y', rid))}:{'+'.join(sorted(clauses))}"
        res.violation(key, "+".join(sorted(clauses)),
                      f"solver={r['solver']} Y={r.get('Y') or [[float.fromhex(c) for c in p] for p in r['floatY']]} returned S={r.get('S')} x={r.get('xn')}/{r.get('xd')} exc={r['exc']}",
                      {"record": r, "floatY": None if r["tier"] != 3 else "regenerate with seed"})
    for r in recs:
        if r["tier"] == 1 and len(r["Y"]) >= 2:
            nontrivial.add((r["solver"], chash(r["Y"])))
    res.coverage["evaluations"] = len(recs)
    res.coverage["distinct_nontrivial"] = len(nontrivial)
    res.coverage["rule"] = ("lattice tier: every ordered k-tuple over {-1,0,1}^3 for k<=3, k=4 " +
                            ("exhaustive" if tier == "thorough" else "thinned 1:9 on 4 canonical first points") +
                            ", plus sampled {-2..2}^3 tuples; float tier: random real tuples with anisotropic scaling "
                            "1e-6..1e6; non-trivial = lattice tuple with >= 2 points, distinct by (solver, tuple)")
    res.coverage["exhaustive"] = tier == "thorough"
    res.coverage["t1"] = sum(1 for r in recs if r["tier"] == 1)
    res.coverage["t3"] = sum(1 for r in recs if r["tier"] == 3)
    ext = lambda r: (r["aspDec"] >= 7 or (r["k"] == 4 and r["featDec"] < -3)) if r["solver"] == "jolt" else (r["aspDec"] >= 2 or r["scaleDec"] < -1)
    res.coverage["t3_regular_zone"] = sum(1 for r in recs if r["tier"] == 3 and "aspDec" in r and not ext(r))
    res.coverage["samples"] = [recs[5000], recs[len(recs) // 2], recs[-1]]
    model_check(res, tier)
    res.assumptions = ["rational reconstruction with denominator <= 4096 is unambiguous at tolerance 1e-9*scale "
                       "(denominator bound checked by TLC as invariant DenBound)",
                       "float tier (T3) judged by float64-measured KKT/hull residuals, tolerance 1e-9*scale"]
    return res


def replay(path):
    import json
    env.setup()
    v = json.load(open(path))
    r = v["replay"]["record"]
    if r["tier"] != 1:
        new = float_record(r["id"], r["solver"], np.array([[float.fromhex(c) for c in p] for p in r["floatY"]]))
    else:
        new = lattice_record(r["id"], r["solver"], [tuple(p) for p in r["Y"]])
    res = Result("C18", "quick", 0)
    rej = trace.judge([new], "c18", "SimplexTrace", "SimplexTrace.cfg", "c18r", res)
    print("record:", new)
    print("rejected clauses:", rej.get(new["id"], set()) or "none")
    return 1 if rej else 0
