"""C02 - boolean collision tests (judge specs/narrow/DistanceJudge.tla, clauses of kind "bool")."""
import math, random
import numpy as np
from .. import env, trace, narrow as NW
from ..result import Result, chash

DELTA = 1e-3
PRIM = ("Sphere", "Capsule", "Box", "Ellipsoid", "Cylinder")


def functions():
    from distance3d import gjk, mpr
    return {
        "gjk_intersection": (lambda a, b: gjk.gjk_intersection(a, b), True, None),
        "gjk_intersection_libccd": (lambda a, b: gjk.gjk_intersection_libccd(a, b), True, None),
        "mpr_intersection": (lambda a, b: mpr.mpr_intersection(a, b), True, None),
        # the Nesterov variants dispatch on type(collider): real collider objects, no counting proxies
        "gjk_nesterov_accelerated_intersection": (lambda a, b: gjk.gjk_nesterov_accelerated_intersection(a, b), False, None),
        "gjk_nesterov_accelerated_primitives_intersection": (lambda a, b: gjk.gjk_nesterov_accelerated_primitives_intersection(a, b), False, PRIM),
    }


def warmup():
    """compile everything before the watchdog applies (a changed source file is recompiled by numba)"""
    from .. import shapes as S
    A = NW.Body({"kind": "box", "a": 2, "b": 2, "c": 2}, S.CUBE[0][0], [0, 0, 0])
    B = NW.Body({"kind": "sphere", "r": 1}, S.CUBE[0][0], [5, 0, 0])
    C = NW.Body({"kind": "hull", "V": S.HULLS["tetra"]}, S.CUBE[0][0], [0, 5, 0])
    for fname, (call, proxy, only) in functions().items():
        for X, Y in ((A, B), (B, A), (A, A), (B, B)) + (((A, C), (C, B)) if only is None else ()):
            try:
                call(X.build(NW.IDENT), Y.build(NW.IDENT))
            except Exception:
                pass


def gen(tier, seed):
    warmup()
    rng = random.Random(seed)
    scenes = NW.gen_scenes(rng, 350 if tier == "quick" else 8000)
    fns = functions()
    recs, meta, n = [], {}, 0
    for A, B in scenes:
        for lk in (["id", rng.choice(("scale", "rigid", "farsmall", "farsmall", "tiny"))] if tier == "quick" else ["id", "scale", "rigid", "farsmall", "tiny"]):
            lift = NW.random_lift(rng, A, B, lk)
            u = None
            if lk != "id" and rng.random() < 0.7:
                B, u = NW.graze(A, B, rng, DELTA * NW.scene_L(A, B, lift) / lift[0], extra_dirs=[lift[1].T @ e for e in np.eye(3)])
            for X, Y in ((A, B), (B, A)):
                clsX, clsY = rng.choice(X.classes()), rng.choice(Y.classes())
                un = None if u is None else (u if X is A else -u)
                for fname, (call, proxy, only) in fns.items():
                    if only is not None and (clsX not in only or clsY not in only or X.margin or Y.margin):
                        continue
                    if "nesterov" in fname and rng.random() < 0.4:
                        continue
                    n += 1
                    rid = f"b{n}"
                    recs.append(NW.measure_bool(rid, X, Y, lift, fname, call, DELTA, clsX, clsY, proxy, normal=un))
                    meta[rid] = {"A": X.describe(), "B": Y.describe(), "clsA": clsX, "clsB": clsY, "fn": fname,
                                 "lift": [lift[0], lift[1].tolist(), lift[2].tolist()]}
    # small scenes far from the origin with shallow but clear overlaps / gaps (absolute tolerances of the
    # algorithms against large world coordinates)
    for A, B0 in NW.gen_scenes(rng, 250 if tier == "quick" else 4000):
        lift = NW.random_lift(rng, A, B0, "farsmall")
        B, u = NW.graze(A, B0, rng, DELTA * NW.scene_L(A, B0, lift) / lift[0], ks=(-3, -8, -20, -60, 3, 20))
        for fname, (call, proxy, only) in fns.items():
            if only is not None or "[acc]" in fname:
                continue
            n += 1
            rid = f"b{n}"
            recs.append(NW.measure_bool(rid, A, B, lift, fname, call, DELTA, None, None, proxy, normal=u))
            meta[rid] = {"A": A.describe(), "B": B.describe(), "clsA": A.classes()[0], "clsB": B.classes()[0], "fn": fname,
                         "lift": [lift[0], lift[1].tolist(), lift[2].tolist()]}
    # shallow but clear overlaps (2..15 delta) at the smallest feature sizes of the domain, with generic lateral offsets: absolute
    # tolerances of the iterative tests (portal tolerance 1e-4, EPSILON-type thresholds) against quantities of size 1e-2
    for A, B0 in NW.gen_scenes(rng, 150 if tier == "quick" else 3000):
        lift = NW.random_lift(rng, A, B0, "tiny")
        L = NW.scene_L(A, B0, lift)
        B1 = NW.Body(B0.spec, B0.M, B0.t + np.array([rng.uniform(-0.7, 0.7) for _ in range(3)]), B0.margin, B0.cls)
        B, u = NW.graze(A, B1, rng, DELTA * L / lift[0], ks=(-2, -4, -8, -15))
        for fname, (call, proxy, only) in fns.items():
            if only is not None or "nesterov" in fname:
                continue
            n += 1
            rid = f"b{n}"
            recs.append(NW.measure_bool(rid, A, B, lift, fname, call, DELTA, None, None, proxy, normal=u))
            meta[rid] = {"A": A.describe(), "B": B.describe(), "clsA": A.classes()[0], "clsB": B.classes()[0], "fn": fname,
                         "lift": [lift[0], lift[1].tolist(), lift[2].tolist()], "family": "tiny-overlap"}
    # shallow but clear overlaps (2..10 delta) exactly where the world AABB of a rotated body is attained: a rotated ellipsoid /
    # cylinder / cone / capsule touched at its extreme point along a world axis by a box or sphere (broad-phase style early exits
    # inside the narrow phase depend on the AABB being right there)
    poly_s, rnd_s = NW.spec_pool()
    for i in range(60 if tier == "quick" else 1200):
        sa = rng.choice([x for x in rnd_s if x["kind"] in ("ellipsoid", "ellipsoid", "cylinder", "cone", "capsule")] or rnd_s)
        sb = rng.choice([x for x in poly_s if x["kind"] in ("box", "sphere")])
        MA, _ = rng.choice(NW.S.CUBE); MB, _ = rng.choice(NW.S.CUBE)
        A = NW.Body(sa, MA, [rng.randint(-2, 2) for _ in range(3)])
        B0 = NW.Body(sb, MB, [rng.randint(-2, 2) for _ in range(3)])
        lift = NW.random_lift(rng, A, B0, "rigid")
        L = NW.scene_L(A, B0, lift)
        e = np.eye(3)[rng.randrange(3)] * rng.choice((-1, 1))
        uw = lift[1].T @ e                                         # a world axis of the lifted scene, in the lattice frame
        pA = np.asarray(A.build(NW.IDENT).support_function(np.ascontiguousarray(uw)), dtype=float)     # where A's world AABB is attained
        B1 = NW.Body(B0.spec, B0.M, pA - B0.R @ NW.center_local(B0.spec), B0.margin, B0.cls)           # B centred on that point ...
        g = -B1.support(-uw) - A.support(uw)
        k = rng.choice((-2, -5, -10, 3))
        B = NW.Body(B0.spec, B0.M, B1.t + (k * DELTA * L / lift[0] - g) * uw, B0.margin, B0.cls)       # ... and pushed out to a slab gap of k delta
        for fname, (call, proxy, only) in fns.items():
            if only is not None or "nesterov" in fname:
                continue
            n += 1
            rid = f"b{n}"
            recs.append(NW.measure_bool(rid, A, B, lift, fname, call, DELTA, None, None, proxy, normal=uw))
            meta[rid] = {"A": A.describe(), "B": B.describe(), "clsA": A.classes()[0], "clsB": B.classes()[0], "fn": fname,
                         "lift": [lift[0], lift[1].tolist(), lift[2].tolist()], "family": "world-axis-tip"}
    # polytope pairs at the smallest feature sizes of the domain with a clear gap of 2..5 delta and generic lateral offsets, chosen
    # (among 40 random offsets) so that the origin lies close to the line through the first two simplex points of a GJK started
    # from first_vertex() - the branch "origin on the first edge" of the simplex case analyses, whose tolerance is absolute
    def first_edge_dist(ca, cb):
        w0 = np.asarray(ca.first_vertex(), dtype=float) - np.asarray(cb.first_vertex(), dtype=float)
        if not w0.any():
            return 1e9
        wa = np.asarray(ca.support_function(-w0), dtype=float) - np.asarray(cb.support_function(w0), dtype=float)
        ab = w0 - wa
        return 1e9 if not ab.any() else float(np.linalg.norm(np.cross(ab, -wa)) / np.linalg.norm(ab))
    cnt = 0
    for A, B0 in NW.gen_scenes(rng, 1200 if tier == "quick" else 20000, rounds=False):
        if A.margin or B0.margin or A.spec["kind"] not in ("hull", "box") or B0.spec["kind"] not in ("hull", "box"):
            continue
        cnt += 1
        if cnt > (80 if tier == "quick" else 1500):
            break
        lift = NW.random_lift(rng, A, B0, "tiny")
        L = NW.scene_L(A, B0, lift)
        best = None
        for _ in range(40):
            B1 = NW.Body(B0.spec, B0.M, B0.t + np.array([rng.uniform(-1.5, 1.5) for _ in range(3)]), B0.margin, B0.cls)
            Bc, uc = NW.graze(A, B1, rng, DELTA * L / lift[0], ks=(2, 3, 5))
            fd = first_edge_dist(A.build(lift), Bc.build(lift))
            if best is None or fd < best[0]:
                best = (fd, Bc, uc)
        _, B, u = best
        for fname, (call, proxy, only) in fns.items():
            if only is not None:
                continue
            n += 1
            rid = f"b{n}"
            recs.append(NW.measure_bool(rid, A, B, lift, fname, call, DELTA, None, None, proxy, normal=u))
            meta[rid] = {"A": A.describe(), "B": B.describe(), "clsA": A.classes()[0], "clsB": B.classes()[0], "fn": fname,
                         "lift": [lift[0], lift[1].tolist(), lift[2].tolist()], "family": "first-edge"}
    # primitives-only algorithms: a dense sweep of aligned primitive pairs (cheap, fully compiled)
    for A, B0 in NW.gen_prim_scenes(rng, 1200 if tier == "quick" else 30000):
        lift = NW.random_lift(rng, A, B0, rng.choice(("id", "id", "scale", "rigid")))
        L = NW.scene_L(A, B0, lift)
        # the scene itself and two variants at prescribed separation just outside the grazing band
        variants = [(B0, None)] + [NW.graze(A, B0, rng, DELTA * L / lift[0]) for _ in range(2)]
        for B, u in variants:
            for fname, (call, proxy, only) in fns.items():
                if only is None and (u is None or rng.random() < 0.5):
                    continue
                n += 1
                rid = f"b{n}"
                recs.append(NW.measure_bool(rid, A, B, lift, fname, call, DELTA, None, None, proxy, normal=u))
                meta[rid] = {"A": A.describe(), "B": B.describe(), "clsA": A.classes()[0], "clsB": B.classes()[0], "fn": fname,
                             "lift": [lift[0], lift[1].tolist(), lift[2].tolist()]}
    return recs, meta


def run(tier, seed):
    env.setup()
    res = Result("C02", tier, seed)
    from .. import libccdloop
    libccdloop.run(res, tier, seed)       # loop explorer GjkLibccd.tla: model checking + stateful trace validation of real runs
    from .. import mprloop
    mprloop.run(res, tier, seed, mc=False, modes=("intersection",))    # portal explorer Mpr.tla (model-checked in C08): trace validation of mpr_intersection
    recs, meta = gen(tier, seed)
    byid = {r["id"]: r for r in recs}
    rejects = trace.judge(recs, "narrow", "NarrowTrace", "NarrowTrace.cfg", "c02", res)
    for rid, clauses in sorted(rejects.items(), key=lambda kv: int(kv[0][1:])):
        m, r = meta[rid], byid[rid]
        if clauses & {"ORACLE_CertInvalid", "ORACLE_DeepButDisjoint"}:
            res.machinery(f"oracle inconsistency {clauses} for {m}")
            continue
        key = f"{m['fn']}:{m['clsA']}-{m['clsB']}:{'+'.join(sorted(clauses))}:{chash([m['A'], m['B'], m['lift']])}"
        res.violation(key, "+".join(sorted(clauses)), f"{m['fn']}({m['clsA']} {m['A']}, {m['clsB']} {m['B']}) lift_s={m['lift'][0]:.4g} "
                      f"answer={r['answer']} deep={r['deep']} exact={r['exact']} floatGap={r['floatGap']} calls={r['supportCalls']} exc={r['exc']}",
                      {"meta": m, "record": r, "seed": seed})
    res.coverage["evaluations"] = len(recs)
    res.coverage["deep_overlap_cases"] = sum(1 for r in recs if r["deep"])
    res.coverage["exact"] = sum(1 for r in recs if r["exact"])
    res.coverage["distinct_nontrivial"] = len({chash([m["A"], m["B"]]) for m in meta.values()})
    res.coverage["rule"] = ("the scenes of C01 (lattice bodies, all offsets incl. touching / nested / identical, lifts) through the five "
                            "boolean tests (the two Nesterov tests as exported, i.e. without acceleration, on real collider objects); TLC derives "
                            "'clear gap' from the certified exact core distance; 'deep overlap' is a measured sufficient condition")
    res.coverage["samples"] = [meta[recs[0]["id"]], recs[0], recs[len(recs) // 2]]
    res.assumptions = ["deep overlap is established by depth lower bounds at candidate points (sufficient, not necessary)"]
    return res


def replay(path):
    import json
    v = json.load(open(path))["replay"]
    print(json.dumps(v["meta"]))
    return 1
