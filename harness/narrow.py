"""Scenes and measurements for the narrow-phase checks (C01, C02, C07, C08, C09, C12, C19).

A Body is a catalogue shape at an exact lattice pose (cube rotation M, integer translation t) with an
optional integer margin; a Scene is two bodies plus a similarity lift g = (s, Rg, tg) applied to both
(world = s * Rg @ lattice + tg).  All measurements are made after mapping observed points back to the
lattice frame with the harness' own transforms."""
import math, random
import numpy as np
from . import shapes as S
from .exactmn import exact_gjk
from .ratio import ticks

POLY = ("hull", "box", "sphere", "capsule")


class Body:
    def __init__(self, spec, M, t, margin=0, cls=None, R=None):
        self.spec, self.M, self.margin, self.cls = spec, np.array(M, dtype=int), int(margin), cls
        tt = np.array(t, dtype=float)
        self.lattice = bool(np.all(tt == np.round(tt))) and R is None
        self.t = tt.astype(int) if self.lattice else tt
        self.R = self.M.astype(float) if R is None else np.array(R, dtype=float)     # R: a general (float) rotation, float tier only
        self.general = R is not None

    def core(self):
        """(integer world-lattice vertices of the core polytope, integer radius) or None for round shapes"""
        s = self.spec
        k = s["kind"]
        if not self.lattice:
            return None
        if k == "hull":
            V, r = s["V"], 0
        elif k == "box":
            V = [[sx * s["a"] // 2, sy * s["b"] // 2, sz * s["c"] // 2] for sx in (-1, 1) for sy in (-1, 1) for sz in (-1, 1)]
            r = 0
        elif k == "sphere":
            V, r = [[0, 0, 0]], s["r"]
        elif k == "capsule":
            V, r = [[0, 0, -s["h"] // 2], [0, 0, s["h"] // 2]], s["r"]
        else:
            return None
        W = [[int(x) for x in (self.M @ np.array(v) + self.t)] for v in V]
        return W, r + self.margin

    def to_local(self, p_lat):
        return self.R.T @ (np.asarray(p_lat, dtype=float) - self.t)

    def support(self, n):
        """float mirror: support value of the body (lattice frame) in direction n"""
        n = np.asarray(n, dtype=float)
        return float(n @ self.t) + S.support_val(self.spec, self.R.T @ n) + self.margin * float(np.linalg.norm(n))

    def outside(self, p_lat):
        """lower bound on the distance from a lattice-frame point to the body"""
        return max(0.0, S.outside_lower_bound_m(self.spec, self.to_local(p_lat), self.margin))

    def classes(self):
        k = self.spec["kind"]
        return {"hull": ["ConvexHullVertices", "MeshGraph"], "box": ["Box"], "sphere": ["Sphere"], "capsule": ["Capsule"],
                "cylinder": ["Cylinder"], "cone": ["Cone"], "ellipsoid": ["Ellipsoid"], "disk": ["Disk"], "ellipse": ["Ellipse"]}[k]

    def build(self, lift, cls=None):
        s, Rg, tg = lift
        R = Rg @ self.R
        tw = s * (Rg @ self.t.astype(float)) + tg
        cls = cls or self.cls or self.classes()[0]
        c = S.build(self.spec, s, R, np.ascontiguousarray(tw), cls)[cls]
        if self.margin:
            from distance3d.colliders import Margin
            c = Margin(c, s * self.margin)
        return c

    def size(self):
        return S.feature_size(self.spec) + 2 * self.margin

    def describe(self):
        d = {"shape": {k: v for k, v in self.spec.items() if k != "name"}, "M": self.M.tolist(), "t": self.t.tolist(), "margin": self.margin}
        if self.general:
            d["R"] = self.R.tolist()
        return d


IDENT = (1.0, np.eye(3), np.zeros(3))


def to_lattice(lift, p):
    s, Rg, tg = lift
    return Rg.T @ (np.asarray(p, dtype=float) - tg) / s


def scene_L(A, B, lift):
    s = lift[0]
    return max(1.0, s * A.size(), s * B.size(), s * float(np.linalg.norm(A.t - B.t)))


class SupportBudget(Exception):
    """raised by the counting proxy far beyond the bound of C19, so that a run-away loop ends"""


class Proxy:
    """counts support evaluations of a collider WITHOUT hiding it: the counter is an instance attribute that shadows
    support_function on the very object handed to the library, so its class, its attributes (margin, collider, vertices, ...) and
    its identity stay what an application would pass.  (The first version wrapped the collider in a ConvexCollider subclass of
    its own; a change that looks through Margin wrappers or dispatches on the collider class never saw its input then - seed
    C01-7.)"""

    @classmethod
    def wrap(cls, inner):
        if getattr(inner, "_verif_counting", False):
            inner.calls = 0
            return inner
        orig = inner.support_function

        def counting(d, _o=orig, _c=inner):
            _c.calls += 1
            if _c.calls > 1500:
                raise SupportBudget()
            return _o(d)
        inner.calls = 0
        inner._verif_counting = True
        inner.support_function = counting
        return inner


def tap(collider, log, budget, mode):
    """record the support evaluations (and first_vertex calls) of a collider in `log` without hiding the collider: instance
    attributes shadow the two methods on the object itself.  mode: "p" appends the support point, "dp" appends (direction, point),
    "fs" appends ("f", first vertex) / ("s", support point)."""
    orig_s, orig_f = collider.support_function, collider.first_vertex

    def sf(d):
        p = orig_s(d)
        pt = np.array(p, dtype=float)
        log.append(pt if mode == "p" else ((np.array(d, dtype=float), pt) if mode == "dp" else ("s", pt)))
        if len(log) > budget:
            raise SupportBudget()
        return p

    def fv():
        p = orig_f()
        if mode == "fs":
            log.append(("f", np.array(p, dtype=float)))
        return p
    collider.support_function = sf
    collider.first_vertex = fv
    return collider


_OBS = {"flat": 0, "rows": 4}


def install_observers():
    """Observation of the final GJK simplex through a wrapper on a module attribute that the Python-level
    loop of gjk_distance_jolt looks up at call time (no source hook). Degrades silently if the name moves."""
    try:
        from distance3d.gjk import _gjk_jolt as J
    except Exception:
        return
    if getattr(J.calculate_closest_points, "_verif_wrapped", False):
        return
    orig = J.calculate_closest_points

    def wrapped(Y, P, Q, n_points):
        try:
            n = int(n_points)
            _OBS["rows"] = n
            if n >= 2:
                Z = np.asarray(Y[:n], dtype=float)
                sv = np.linalg.svd(Z - Z.mean(0), compute_uv=False)
                ratio = float(sv[n - 2]) / max(float(sv[0]), 1e-300)
                _OBS["flat"] = -99 if ratio <= 0 else max(-99, int(math.floor(math.log10(ratio))))
            else:
                _OBS["flat"] = 0
        except Exception:
            _OBS["flat"] = 0
        return orig(Y, P, Q, n_points)
    wrapped._verif_wrapped = True
    J.calculate_closest_points = wrapped


def exact_certificate(A, B):
    """certificate of the exact core distance or None if a body is round or magnitudes leave TLC's 32-bit range"""
    ca, cb = A.core(), B.core()
    if ca is None or cb is None:
        return None
    xn, W, wa, wb = exact_gjk(ca[0], cb[0])
    big = max(max(abs(c) for v in ca[0] + cb[0] for c in v), 1)
    xx = sum(c * c for c in xn)
    RR = ca[1] + cb[1]
    G = 16
    if max(abs(c) for c in xn) * big * 3 * W >= 2 ** 30 or xx * G * G >= 2 ** 31 or (RR * G + 1) ** 2 * W * W >= 2 ** 31 or W > 40000:
        return None
    return {"VA": ca[0], "rA": ca[1], "VB": cb[0], "rB": cb[1], "xn": xn, "W": W, "wa": wa, "wb": wb, "G": G}


def true_distance(cert):
    return max(0.0, math.sqrt(sum(c * c for c in cert["xn"])) / cert["W"] - cert["rA"] - cert["rB"])


def jolt_reference(A, B, lift, clsA, clsB):
    """(d, ok): the Jolt distance as a reference value for scalar-only algorithms on round shapes; ok only if its
    witness points pass the separating-plane certificate at 1e-5*L (then d_true is within 2e-5*L of d)"""
    try:
        from distance3d import gjk
        out = gjk.gjk_distance_jolt(A.build(lift, clsA), B.build(lift, clsB), max_distance_squared=float("inf"))
        d, a, b = float(out[0]), np.asarray(out[1], dtype=float), np.asarray(out[2], dtype=float)
    except Exception:
        return 0.0, False
    L = scene_L(A, B, lift)
    s = lift[0]
    al, bl = to_lattice(lift, a), to_lattice(lift, b)
    if max(A.outside(al), B.outside(bl)) * s > 1e-5 * L:
        return d, False
    if d <= 1e-5 * L:
        return d, True
    n = (bl - al) / float(np.linalg.norm(bl - al))
    c = max(0.0, A.support(n) - float(n @ al), B.support(-n) + float(n @ bl)) * s
    return d, bool(c <= 1e-5 * L)


def measure_distance(rid, A, B, lift, call, tol, clsA=None, clsB=None, extra=None, proxy=True, scalar_only=False,
                     zero_exact=True, colliders=None):
    """Run one distance query `call(colliderA, colliderB) -> (d, a, b)` and measure every residual the judge needs."""
    s = lift[0]
    L = scene_L(A, B, lift)
    tick = tol * L / 8
    cert = exact_certificate(A, B)
    rec = {"id": rid, "kind": "distance", "exact": cert is not None, "exc": "none", "finite": True,
           "VA": [[0, 0, 0]], "rA": 0, "VB": [[0, 0, 0]], "rB": 0, "xn": [0, 0, 0], "W": 1, "wa": [1], "wb": [1], "G": 1,
           "feasA": 0, "feasB": 0, "consist": 0, "dErr": 0, "cert": 0, "dzero": False, "aeqb": False, "dpos": False,
           "floatOverlap": False, "floatGap": False, "supportCalls": 0, "clipped": False, "clipAllowed": False, "flatDec": 0}
    if cert:
        rec.update(cert)
    if extra:
        rec.update(extra)
    # colliders may be handed in so that several queries run on the same objects (as an application would)
    ca, cb = colliders if colliders is not None else (A.build(lift, clsA), B.build(lift, clsB))
    if proxy:
        ca, cb = Proxy.wrap(ca), Proxy.wrap(cb)
    install_observers()
    _OBS["flat"] = 0
    try:
        with time_limit(20.0):
            d, a, b = call(ca, cb)
        rec["flatDec"] = _OBS["flat"]
    except Hang:
        rec["exc"] = "Hang"
        return rec, None
    except Exception as e:
        rec["exc"] = type(e).__name__
        rec["supportCalls"] = max(ca.calls, cb.calls) if proxy else 0
        return rec, None
    rec["supportCalls"] = max(ca.calls, cb.calls) if proxy else 0
    if scalar_only:
        d = float(d)
        if not np.isfinite(d):
            rec["finite"] = False
            return rec, None
        rec["dzero"], rec["dpos"], rec["aeqb"] = bool(d <= tol * L), bool(d > 0.0), bool(d <= tol * L)
        if cert:
            rec["dErr"] = ticks(abs(d - s * true_distance(cert)), tick)
        else:
            dref, ok = jolt_reference(A, B, lift, clsA, clsB)
            rec["refOK"] = ok
            rec["cert"] = ticks(abs(d - dref), tick) if ok else 0
        return rec, (d, None, None)
    if a is None and b is None and d == np.finfo(float).max:
        # the documented clip: only legitimate if the pair really is farther apart than sqrt(max_distance_squared)
        rec["clipped"] = True
        lim = rec.get("clipLimit", 0.0)
        if cert:
            rec["clipAllowed"] = bool(lim > 0 and s * true_distance(cert) >= lim * (1 - 1e-9))
        else:
            cA = A.t + A.R @ center_local(A.spec); cB = B.t + B.R @ center_local(B.spec)
            nn = (cB - cA) / max(float(np.linalg.norm(cB - cA)), 1e-300)
            rec["clipAllowed"] = bool(lim > 0 and s * (-B.support(-nn) - A.support(nn)) >= lim * (1 - 1e-9))
        return rec, None
    if a is None or b is None or not (np.isfinite(d) and np.all(np.isfinite(a)) and np.all(np.isfinite(b))):
        rec["finite"] = False
        return rec, None
    a, b, d = np.asarray(a, dtype=float), np.asarray(b, dtype=float), float(d)
    al, bl = to_lattice(lift, a), to_lattice(lift, b)
    rec["feasA"] = ticks(A.outside(al) * s, tick)
    rec["feasB"] = ticks(B.outside(bl) * s, tick)
    rec["consist"] = ticks(abs(float(np.linalg.norm(a - b)) - d), tick)
    rec["dzero"] = bool(d == 0.0) if zero_exact else bool(d <= tol * L)
    rec["dpos"] = bool(d > 0.0)
    rec["aeqb"] = bool(float(np.linalg.norm(a - b)) <= tol * L)
    if cert:
        rec["dErr"] = ticks(abs(d - s * true_distance(cert)), tick)
    else:
        if d > tol * L:
            n = (bl - al) / float(np.linalg.norm(bl - al))
            c1 = A.support(n) - float(n @ al)
            c2 = B.support(-n) + float(n @ bl)
            rec["cert"] = ticks(max(0.0, c1, c2) * s, tick)
    return rec, (d, a, b)


# ---------------- scene generation ----------------
def inradius_center(spec):
    """depth of the collider's center() inside the shape (lattice units); 0 for flat shapes"""
    k = spec["kind"]
    if k == "sphere":
        return spec["r"]
    if k == "capsule":
        return spec["r"]
    if k == "cylinder":
        return min(spec["r"], spec["h"] / 2)
    if k == "cone":
        return min(spec["h"] / 2, (spec["r"] / 2) * spec["h"] / math.hypot(spec["h"], spec["r"]))
    if k == "ellipsoid":
        return min(spec["a"], spec["b"], spec["c"])
    if k == "box":
        return min(spec["a"], spec["b"], spec["c"]) / 2
    if k == "hull":
        V = np.array(spec["V"], dtype=float)
        c = V.mean(0)
        F = S.hull_facets(spec["V"])
        if not F:
            return 0.0
        return max(0.0, min((f[1] - float(np.dot(f[0], c))) / float(np.linalg.norm(f[0])) for f in F))
    return 0.0


def center_local(spec):
    k = spec["kind"]
    if k == "cone":
        return np.array([0.0, 0.0, spec["h"] / 2])
    if k == "hull":
        return np.array(spec["V"], dtype=float).mean(0)
    return np.zeros(3)


def float_flags(A, B, tolL_lat, extra=None):
    """(floatOverlap, floatGap) established by construction-independent sufficient conditions"""
    cA = A.t + A.R @ center_local(A.spec)
    cB = B.t + B.R @ center_local(B.spec)
    dist = float(np.linalg.norm(cA - cB))
    ov = (inradius_center(A.spec) + A.margin >= 10 * tolL_lat) and (inradius_center(B.spec) + B.margin - dist >= 10 * tolL_lat)
    ov = ov or ((inradius_center(B.spec) + B.margin >= 10 * tolL_lat) and (inradius_center(A.spec) + A.margin - dist >= 10 * tolL_lat))
    gap = False
    cand = [] if extra is None else [np.asarray(extra, dtype=float)]
    if dist > 0:
        cand.append((cB - cA) / dist)
    for Bd in (A, B):
        for i in range(3):
            cand.append(Bd.R[:, i])
    for i in range(3):
        for j in range(3):
            c = np.cross(A.R[:, i], B.R[:, j])
            if np.linalg.norm(c) > 1e-9:
                cand.append(c / np.linalg.norm(c))
    for n in cand:
        for sgn in (1.0, -1.0):
            nn = sgn * n
            if -B.support(-nn) - A.support(nn) >= 10 * tolL_lat:
                gap = True
    return bool(ov), bool(gap)


POLY_SPECS = None


def spec_pool():
    cat = S.catalogue()
    poly = [s for s in cat if s["kind"] in POLY]
    rnd = [s for s in cat if s["kind"] not in POLY]
    return poly, rnd


def random_lift(rng, A, B, kind):
    if kind == "id":
        return IDENT
    size = max(A.size(), B.size(), 1.0)
    far = max(float(np.max(np.abs(A.t))), float(np.max(np.abs(B.t))), 1.0)
    # feature sizes stay in [1e-2, 1e2], positions within 1e3 of the origin (domain D)
    smin, smax = 2e-2 / min(min(_minfeat(A), _minfeat(B)), 1e9), min(100.0 / size, 550.0 / far)
    if kind == "scale":
        s = rng.choice((0.05, 0.25, 2.0, 7.0, smax))
        s = min(max(s, smin), smax)
        return (s, np.eye(3), np.zeros(3))
    if kind == "tiny":
        # the smallest feature sizes of the domain (about 0.02), optionally rotated
        return (smin, S.random_rotation(rng) if rng.random() < 0.5 else np.eye(3), np.zeros(3))
    s = 10 ** rng.uniform(math.log10(max(smin, 1e-2)), math.log10(smax)) if rng.random() < 0.5 else 1.0
    s = min(max(s, smin), smax)
    Rg = S.random_rotation(rng)
    tg = np.array([rng.uniform(-1, 1) for _ in range(3)]) * rng.choice((0.0, 1.0, 30.0, 300.0))
    if kind == "farsmall":
        # small scene far from the origin (absolute tolerances vs. large coordinates)
        s = min(max(10 ** rng.uniform(-1.7, -0.5), smin), smax)
        tg = np.array([rng.choice((-1, 1)) * rng.uniform(300, 900) for _ in range(3)])
        tg = tg * min(1.0, (990.0 - s * far * 1.8) / float(np.linalg.norm(tg)))
    return (s, Rg, tg)


def _minfeat(body):
    s = body.spec
    if s["kind"] == "hull":
        V = np.array(s["V"], dtype=float)
        if len(V) < 2:
            return 1.0
        return max(1.0, float(np.min([np.linalg.norm(V[i] - V[j]) for i in range(len(V)) for j in range(i)])))
    return float(min(v for k, v in s.items() if k not in ("kind", "name")))


def gen_prim_scenes(rng, n, kinds=("sphere", "capsule", "box", "ellipsoid", "cylinder")):
    """pairs of primitives at lattice-aligned poses with half-lattice offsets (many exactly parallel /
    perpendicular configurations), for the algorithms that accept primitives only"""
    cat = [s for s in S.catalogue() if s["kind"] in kinds]
    out = []
    for _ in range(n):
        pa, pb = rng.choice(cat), rng.choice(cat)
        MA, _ = rng.choice(S.CUBE)
        MB, _ = rng.choice(S.CUBE)
        tA = [rng.randint(-2, 2) for _ in range(3)]
        reach = int(math.ceil((S.feature_size(pa) + S.feature_size(pb)) / 2)) + 1
        if rng.random() < 0.5:
            off = [rng.randint(-reach, reach) for _ in range(3)]
        else:
            # continuous offsets, often zero along one or two axes (aligned centres)
            off = [0.0 if rng.random() < 0.3 else rng.uniform(-reach, reach) for _ in range(3)]
        out.append((Body(pa, MA, tA, 0), Body(pb, MB, [tA[i] + off[i] for i in range(3)], 0)))
    return out


def graze(A, B, rng, delta_lat, ks=None, extra_dirs=None):
    """B shifted along a direction u so that the slab gap of the pair along u is +k*delta (clear gap, certified
    by u itself) or -k*delta (overlap along u; whether it is a deep overlap is decided by deep_overlap)"""
    cA = A.t + A.R @ center_local(A.spec)
    cB = B.t + B.R @ center_local(B.spec)
    dirs = [A.R[:, i] for i in range(3)] + [B.R[:, i] for i in range(3)]
    if np.linalg.norm(cB - cA) > 0:
        dirs.append((cB - cA) / np.linalg.norm(cB - cA))
    if extra_dirs is not None and rng.random() < 0.35:
        # e.g. the world axes of a lifted scene: contact at the points where the world AABBs are attained
        dirs = [np.asarray(d, dtype=float) for d in extra_dirs]
    u = np.array(rng.choice(dirs), dtype=float)
    if rng.random() < 0.3:
        u = u + 0.3 * np.array([rng.gauss(0, 1) for _ in range(3)])
        u /= np.linalg.norm(u)
    if float(u @ (cB - cA)) < 0:
        u = -u
    g = -B.support(-u) - A.support(u)
    k = rng.choice(ks) if ks else rng.choice((2, 5, 20, 100, 400)) * rng.choice((1, -1))
    return Body(B.spec, B.M, B.t + (k * delta_lat - g) * u, B.margin, B.cls, R=(B.R if getattr(B, "general", False) else None)), u


def near_touch(A, B, gap):
    """B moved along the witness direction of the pair so that the two bodies are `gap` apart (gap > 0) - the placement is
    derived from the library's own distance query, which only serves as a scene generator here; None if the pair overlaps"""
    from distance3d import gjk
    try:
        d, a, b, _ = gjk.gjk_distance_jolt(A.build(IDENT), B.build(IDENT), max_distance_squared=float("inf"))
    except Exception:
        return None
    if not (d > 1e-3) or a is None:
        return None
    n = (np.asarray(a, dtype=float) - np.asarray(b, dtype=float)) / float(d)
    return Body(B.spec, B.M, B.t + (float(d) - gap) * n, B.margin, B.cls, R=(B.R if getattr(B, "general", False) else None))


def vertex_to_side_scenes(rng, n):
    """a vertex of a generally rotated box / hull next to the interior of a generator of a cone (base at the frame origin, tip
    at z = h) or of the side of a cylinder, 0.05 .. 0.6 units away: the apex / rim vertices found first stay in the simplex for
    many iterations while the iterative algorithms home in on the curved side"""
    poly, rnd = spec_pool()
    curved = [s for s in rnd if s["kind"] in ("cone", "cylinder")]
    out = []
    for _ in range(n):
        sb = rng.choice(curved)
        M, _ = rng.choice(S.CUBE)
        Bc = Body(sb, M, [rng.randint(-3, 3) for _ in range(3)], 0, None)
        phi = rng.uniform(0, 2 * math.pi)
        r, h = float(sb["r"]), float(sb["h"])
        if sb["kind"] == "cone":
            f = rng.uniform(0.25, 0.75)
            p = np.array([r * (1 - f) * math.cos(phi), r * (1 - f) * math.sin(phi), f * h])
            nrm = np.array([h * math.cos(phi), h * math.sin(phi), r]) / math.hypot(h, r)
        else:
            p = np.array([r * math.cos(phi), r * math.sin(phi), rng.uniform(-0.3, 0.3) * h])
            nrm = np.array([math.cos(phi), math.sin(phi), 0.0])
        pw, nw = Bc.t + Bc.R @ p, Bc.R @ nrm
        A = Body(rng.choice([s for s in poly if s["kind"] in ("hull", "box")]), np.eye(3, dtype=int), [0.0, 0.0, 0.0], 0, None,
                 R=S.random_rotation(rng))
        # translate A so that its lowest vertex along the outward normal sits a small gap above the side point
        V = _vertices_of(A)
        v = V[int(np.argmin(V @ nw))]
        A = Body(A.spec, A.M, (pw + rng.choice((0.05, 0.2, 0.6)) * nw) - v, 0, None, R=A.R)
        out.append((A, Bc) if rng.random() < 0.5 else (Bc, A))
    return out


def _vertices_of(A):
    s = A.spec
    if s["kind"] == "box":
        V = np.array([[x * s["a"] / 2, y * s["b"] / 2, z * s["c"] / 2] for x in (-1, 1) for y in (-1, 1) for z in (-1, 1)], dtype=float)
    else:
        V = np.array(s["V"], dtype=float)
    return V @ A.R.T + A.t


def general_scenes(rng, n):
    """pairs in general relative orientation (float tier): a polytope or box with a random rotation next to any catalogue body, at
    a gap of 0.03 .. 1.5 units (or a shallow / deep overlap) along a random direction - a vertex or edge facing a curved side makes
    the iterative algorithms run long"""
    poly, rnd = spec_pool()
    out = []
    for _ in range(n):
        pa = rng.choice(poly)
        pb = rng.choice(rnd + rnd + poly)
        A = Body(pa, np.eye(3, dtype=int), [rng.uniform(-3, 3) for _ in range(3)], 0, None, R=S.random_rotation(rng))
        MB, _ = rng.choice(S.CUBE)
        B0 = Body(pb, MB, [rng.randint(-3, 3) for _ in range(3)], rng.choice((0, 0, 0, 1)), None,
                  R=(S.random_rotation(rng) if rng.random() < 0.5 else None))
        B, _ = graze(A, B0, rng, rng.choice((0.03, 0.1, 0.3, 1.0, 1.5)), ks=(1, 1, 1, 1, -1, -3))
        out.append((A, B) if rng.random() < 0.5 else (B, A))
    return out


def gen_scenes(rng, n, rounds=True):
    """pairs of bodies at lattice poses: offsets cover disjoint, touching, overlapping, nested, identical"""
    poly, rnd = spec_pool()
    out = []
    for _ in range(n):
        pa = rng.choice(poly if (not rounds or rng.random() < 0.6) else rnd)
        pb = rng.choice(poly if (not rounds or rng.random() < 0.6) else rnd)
        if rng.random() < 0.08:
            pb = pa
        MA, _ = rng.choice(S.CUBE)
        MB, _ = rng.choice(S.CUBE)
        tA = [rng.randint(-3, 3) for _ in range(3)]
        mode = rng.random()
        if mode < 0.15:
            off = [0, 0, 0]
            if rng.random() < 0.5:
                MB = MA
        elif mode < 0.6:
            off = [rng.randint(-4, 4) for _ in range(3)]
        elif mode < 0.68:
            # far apart along one or two axes (large scenes after scaling: the clipping logic of the distance query)
            off = [rng.choice((-1, 1)) * rng.randint(12, 34) if rng.random() < 0.6 else rng.randint(-4, 4) for _ in range(3)]
        else:
            off = [rng.randint(-9, 9) for _ in range(3)]
        tB = [tA[i] + off[i] for i in range(3)]
        mA = rng.choice((0, 0, 0, 1))
        mB = rng.choice((0, 0, 0, 1, 2))
        out.append((Body(pa, MA, tA, mA), Body(pb, MB, tB, mB)))
    return out


# ---------------- watchdog, depth, boolean tests ----------------
import signal
from contextlib import contextmanager


class Hang(Exception):
    pass


@contextmanager
def time_limit(seconds):
    """wall-clock watchdog for one library call (the outer loops of the narrow phase are Python level)"""
    def handler(signum, frame):
        try:
            from numba.core.compiler_lock import global_compiler_lock
            if global_compiler_lock.is_locked():
                # a first call that is still compiling (fresh cache after a source change): the compiler is never interrupted
                # - an exception thrown into it surfaces as an unrelated RuntimeError - the watchdog looks again later
                signal.setitimer(signal.ITIMER_REAL, seconds)
                return
        except ImportError:
            pass
        raise Hang()
    old = signal.signal(signal.SIGALRM, handler)
    signal.setitimer(signal.ITIMER_REAL, seconds)
    try:
        yield
    finally:
        signal.setitimer(signal.ITIMER_REAL, 0)
        signal.signal(signal.SIGALRM, old)


def inside_depth(spec, p, margin=0):
    """lower bound on the depth of local point p inside the shape (negative / 0 if not inside)"""
    p = np.asarray(p, dtype=float)
    x, y, z = p
    k = spec["kind"]
    rho = math.hypot(x, y)
    if k == "sphere":
        d = spec["r"] - float(np.linalg.norm(p))
    elif k == "capsule":
        zc = min(max(z, -spec["h"] / 2), spec["h"] / 2)
        d = spec["r"] - math.sqrt(x * x + y * y + (z - zc) ** 2)
    elif k == "cylinder":
        d = min(spec["r"] - rho, spec["h"] / 2 - abs(z))
    elif k == "cone":
        d = min(z, ((spec["h"] - z) * spec["r"] / spec["h"] - rho) * spec["h"] / math.hypot(spec["h"], spec["r"]))
    elif k == "ellipsoid":
        g = math.sqrt((x / spec["a"]) ** 2 + (y / spec["b"]) ** 2 + (z / spec["c"]) ** 2)
        d = (1 - g) * min(spec["a"], spec["b"], spec["c"])
    elif k == "box":
        d = min(spec["a"] / 2 - abs(x), spec["b"] / 2 - abs(y), spec["c"] / 2 - abs(z))
    elif k == "hull":
        F = S.hull_facets(spec["V"])
        d = min((f[1] - float(np.dot(f[0], p))) / float(np.linalg.norm(f[0])) for f in F) if F else -1.0
    else:
        d = -1.0
    # outside the base shape nothing is claimed (a sound depth would need an upper bound on the distance)
    return d + margin if d >= 0 else -1.0


def deep_overlap(A, B, cert, delta_lat, normal=None):
    """is there a point at least delta_lat inside both bodies? (sufficient test over a few candidate points)"""
    cA = A.t + A.R @ center_local(A.spec)
    cB = B.t + B.R @ center_local(B.spec)
    cands = [cA, cB, 0.5 * (cA + cB), 0.25 * cA + 0.75 * cB, 0.75 * cA + 0.25 * cB]
    if cert is not None:
        a0 = sum(w * np.array(v, dtype=float) for w, v in zip(cert["wa"], cert["VA"])) / cert["W"]
        b0 = sum(w * np.array(v, dtype=float) for w, v in zip(cert["wb"], cert["VB"])) / cert["W"]
        cands.append(0.5 * (a0 + b0))
    if normal is not None:
        # candidate witnesses near the contact region: midpoints between the two extreme points along the
        # shift direction, proposed by the library's own support mappings (any candidate is then verified by
        # the independent depth bounds below, so a wrong proposal cannot create a false claim)
        try:
            u = np.asarray(normal, dtype=float)
            wa = np.asarray(A.build(IDENT).support_function(np.ascontiguousarray(u)), dtype=float)
            wb = np.asarray(B.build(IDENT).support_function(np.ascontiguousarray(-u)), dtype=float)
            for lam in (0.5, 0.35, 0.65):
                cands.append(lam * wa + (1 - lam) * wb)
            for q in (wa, wb):
                cands.append(q - 0.5 * float((wa - wb) @ u) * u * (1 if q is wa else -1))
        except Exception:
            pass
    best = -1e9
    for p in cands:
        best = max(best, min(inside_depth(A.spec, A.to_local(p), A.margin), inside_depth(B.spec, B.to_local(p), B.margin)))
    if best < delta_lat:
        # scan the segment between the centres (shallow overlaps): bisection-free, 64 samples then refine
        ts = np.linspace(0.0, 1.0, 65)
        f = lambda t: min(inside_depth(A.spec, A.to_local(cA + t * (cB - cA)), A.margin),
                          inside_depth(B.spec, B.to_local(cA + t * (cB - cA)), B.margin))
        vals = [f(t) for t in ts]
        k = int(np.argmax(vals))
        lo, hi = ts[max(k - 1, 0)], ts[min(k + 1, 64)]
        for t in np.linspace(lo, hi, 17):
            best = max(best, f(t))
    return bool(best >= delta_lat)


def measure_bool(rid, A, B, lift, fname, call, delta, clsA=None, clsB=None, proxy=True, normal=None):
    s = lift[0]
    L = scene_L(A, B, lift)
    cert = exact_certificate(A, B)
    dl = delta * L / s                      # delta in lattice units
    G = 1
    if cert:
        # gap threshold 1/G lattice units must be >= delta: the largest admissible G (capped for 32-bit safety)
        G = int(min(16, max(1, math.floor(1.0 / dl)))) if dl <= 1.0 else 0
        if G == 0:
            cert = None
    rec = {"id": rid, "kind": "bool", "fn": fname, "exact": cert is not None, "exc": "none", "answer": False,
           "VA": [[0, 0, 0]], "rA": 0, "VB": [[0, 0, 0]], "rB": 0, "xn": [0, 0, 0], "W": 1, "wa": [1], "wb": [1], "G": 1,
           "deep": False, "floatGap": False, "supportCalls": 0}
    if cert:
        rec.update(cert)
        rec["G"] = G
    rec["deep"] = deep_overlap(A, B, cert, dl, normal)
    _, fg = float_flags(A, B, dl * 1.5 / 10, extra=normal)     # gap >= 1.5 delta along some candidate normal
    rec["floatGap"] = bool(fg)
    ca, cb = A.build(lift, clsA), B.build(lift, clsB)
    if proxy:
        ca, cb = Proxy.wrap(ca), Proxy.wrap(cb)
    try:
        with time_limit(10.0):
            rec["answer"] = bool(call(ca, cb))
    except Hang:
        rec["exc"] = "Hang"
    except Exception as e:
        rec["exc"] = type(e).__name__
    if proxy:
        rec["supportCalls"] = max(ca.calls, cb.calls)
    return rec
