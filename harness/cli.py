import sys, importlib, json, os, traceback
from . import env


def main(argv):
    if not argv:
        print("usage: check <ID> quick|thorough | check <ID> --replay <path> | check setup")
        return 2
    if argv[0] == "setup":
        from . import setup
        return setup.main()
    pid = argv[0].upper()
    mode = argv[1] if len(argv) > 1 else "quick"
    mod = importlib.import_module(f"harness.props.{pid.lower()}")
    try:
        if mode == "--replay":
            return mod.replay(argv[2])
        tier = mode if mode in ("quick", "thorough") else "quick"
        res = mod.run(tier, env.seed())
        return res.finish()
    except Exception:
        traceback.print_exc()
        print("MACHINERY-ERROR: unhandled exception in check", pid)
        return 2


if __name__ == "__main__":
    sys.exit(main(sys.argv[1:]))
