"""Primitives of distance3d.distance as lattice objects: library arguments, exact core polytopes,
on-primitive residuals and support values (float mirrors used for measuring)."""
import math, itertools
import numpy as np
from . import shapes as S

KLINE = 24          # half length (in direction units) of the segment standing in for a line in the exact oracle
KPLANE = 12


def unit(v):
    v = np.asarray(v, dtype=float)
    return v / np.linalg.norm(v)


def ortho_int(n):
    """two integer vectors spanning the plane orthogonal to the integer vector n"""
    n = np.array(n, dtype=int)
    e = np.eye(3, dtype=int)[int(np.argmin(np.abs(n)))]
    u = np.cross(n, e)
    v = np.cross(n, u)
    g = math.gcd(math.gcd(abs(int(v[0])), abs(int(v[1]))), abs(int(v[2]))) or 1
    return u, v // g


_BUF = {}


def _buf(key, arr):
    """argument arrays are caller-owned buffers that are rewritten in place from call to call"""
    arr = np.ascontiguousarray(arr, dtype=float)
    b = _BUF.get(key)
    if b is not None and b.shape == arr.shape:
        np.copyto(b, arr)
        return b
    _BUF[key] = arr.copy()
    return _BUF[key]


class Prim:
    """kind in point|line|line_segment|plane|triangle|rectangle|box|circle|disk|ellipsoid|cylinder; lattice parameters p"""

    def __init__(self, kind, **p):
        self.kind, self.p = kind, p

    def Mf(self):
        """the rotation of a rectangle / box / ellipsoid / cylinder: integer matrix M over the denominator N (1 for cube rotations)"""
        return np.array(self.p["M"], dtype=float) / float(self.p.get("N", 1))

    # ---- arguments for the library call under a similarity lift (s, R, t): x -> s R x + t
    def args(self, lift):
        s, R, t = lift
        P = lambda x: np.ascontiguousarray(s * (R @ np.asarray(x, dtype=float)) + t)
        D = lambda x: np.ascontiguousarray(R @ unit(x))
        k, p = self.kind, self.p
        if k == "point":
            return [P(p["x"])]
        if k == "line":
            return [P(p["x"]), D(p["d"])]
        if k == "line_segment":
            return [P(p["a"]), P(p["b"])]
        if k == "plane":
            return [P(p["x"]), D(p["n"])]
        if k == "triangle":
            return [np.ascontiguousarray(np.array([P(v) for v in p["V"]]))]
        if k == "rectangle":
            M = self.Mf()
            return [P(p["c"]), np.ascontiguousarray((R @ M[:, :2]).T), np.ascontiguousarray(s * np.array(p["l"], dtype=float))]
        if k in ("box", "ellipsoid", "cylinder"):
            T = np.eye(4); T[:3, :3] = R @ self.Mf(); T[:3, 3] = P(p["c"])
            T = _buf((k, "T"), T)
            if k == "box":
                return [T, np.ascontiguousarray(s * np.array(p["size"], dtype=float))]
            if k == "ellipsoid":
                return [T, np.ascontiguousarray(s * np.array(p["radii"], dtype=float))]
            return [T, s * float(p["r"]), s * float(p["h"])]
        if k in ("circle", "disk"):
            return [P(p["c"]), s * float(p["r"]), D(p["n"])]
        raise ValueError(k)

    # ---- exact core: integer vertices whose convex hull is the primitive (lines / planes: large stand-ins)
    def core(self):
        k, p = self.kind, self.p
        A = lambda x: [int(c) for c in x]
        if k == "point":
            return [A(p["x"])]
        if k == "line":
            x, d = np.array(p["x"]), np.array(p["d"])
            return [A(x - KLINE * d), A(x + KLINE * d)]
        if k == "line_segment":
            return [A(p["a"]), A(p["b"])]
        if k == "plane":
            x = np.array(p["x"]); u, v = ortho_int(p["n"])
            return [A(x + a * KPLANE * u + b * KPLANE * v) for a in (-1, 1) for b in (-1, 1)]
        if k == "triangle":
            return [A(v) for v in p["V"]]
        if k == "rectangle":
            M, c, l, N = np.array(p["M"]), np.array(p["c"]), p["l"], int(p.get("N", 1))
            if l[0] % (2 * N) or l[1] % (2 * N):
                return None
            return [A(c + a * (l[0] // (2 * N)) * M[:, 0] + b * (l[1] // (2 * N)) * M[:, 1]) for a in (-1, 1) for b in (-1, 1)]
        if k == "box":
            M, c, sz, N = np.array(p["M"]), np.array(p["c"]), p["size"], int(p.get("N", 1))
            if any(x % (2 * N) for x in sz):
                return None
            return [A(c + M @ (np.array([a, b, d]) * np.array(sz) // (2 * N))) for a in (-1, 1) for b in (-1, 1) for d in (-1, 1)]
        return None

    # ---- distance from a lattice-frame point to the primitive (float; the "on primitive" residual)
    def dist_to(self, q):
        q = np.asarray(q, dtype=float)
        k, p = self.kind, self.p
        if k == "point":
            return float(np.linalg.norm(q - np.array(p["x"], dtype=float)))
        if k == "line":
            d = unit(p["d"]); w = q - np.array(p["x"], dtype=float)
            return float(np.linalg.norm(w - (w @ d) * d))
        if k == "line_segment":
            a, b = np.array(p["a"], dtype=float), np.array(p["b"], dtype=float)
            t = min(1.0, max(0.0, float((q - a) @ (b - a)) / float((b - a) @ (b - a))))
            return float(np.linalg.norm(q - (a + t * (b - a))))
        if k == "plane":
            return abs(float((q - np.array(p["x"], dtype=float)) @ unit(p["n"])))
        if k in ("triangle", "rectangle", "box"):
            from .exactmn import exact_gjk
            V = self.core_float()
            return _dist_point_hull(q, V)
        c = np.array(p["c"], dtype=float)
        if k in ("circle", "disk"):
            n = unit(p["n"]); w = q - c; h = float(w @ n); r = w - h * n; rho = float(np.linalg.norm(r))
            if k == "circle":
                return math.hypot(rho - p["r"], h)
            return math.hypot(max(0.0, rho - p["r"]), h)
        M = self.Mf()
        ql = M.T @ (q - c)
        if k == "cylinder":
            rho = math.hypot(ql[0], ql[1])
            return math.hypot(max(0.0, rho - p["r"]), max(0.0, abs(ql[2]) - p["h"] / 2))
        if k == "ellipsoid":
            # distance to the SOLID ellipsoid: lower bound from the gauge gradient normal (0 inside)
            sp = {"kind": "ellipsoid", "a": p["radii"][0], "b": p["radii"][1], "c": p["radii"][2]}
            return S.outside_lower_bound(sp, ql)
        raise ValueError(k)

    def core_float(self):
        k, p = self.kind, self.p
        if k == "triangle":
            return np.array(p["V"], dtype=float)
        M, c = self.Mf(), np.array(p["c"], dtype=float)
        if k == "rectangle":
            l = p["l"]
            return np.array([c + a * (l[0] / 2) * M[:, 0] + b * (l[1] / 2) * M[:, 1] for a in (-1, 1) for b in (-1, 1)])
        sz = np.array(p["size"], dtype=float)
        return np.array([c + M @ (np.array([a, b, d]) * sz / 2) for a in (-1, 1) for b in (-1, 1) for d in (-1, 1)])

    def support(self, n):
        """support value along n for bounded convex primitives, else None"""
        n = np.asarray(n, dtype=float)
        k, p = self.kind, self.p
        if k == "point":
            return float(n @ np.array(p["x"], dtype=float))
        if k == "line_segment":
            return max(float(n @ np.array(p["a"], dtype=float)), float(n @ np.array(p["b"], dtype=float)))
        if k in ("triangle", "rectangle", "box"):
            return float(np.max(self.core_float() @ n))
        if k in ("disk", "ellipsoid", "cylinder"):
            c = np.array(p["c"], dtype=float)
            if k == "disk":
                nn = unit(p["n"]); t = n - (n @ nn) * nn
                return float(n @ c) + p["r"] * float(np.linalg.norm(t))
            M = self.Mf()
            sp = {"kind": "ellipsoid", "a": p["radii"][0], "b": p["radii"][1], "c": p["radii"][2]} if k == "ellipsoid" \
                else {"kind": "cylinder", "r": p["r"], "h": p["h"]}
            return float(n @ c) + S.support_val(sp, M.T @ n)
        return None

    def size(self):
        k, p = self.kind, self.p
        if k in ("point", "line", "plane"):
            return 1.0
        if k == "line_segment":
            return float(np.linalg.norm(np.array(p["a"], dtype=float) - np.array(p["b"], dtype=float)))
        if k == "triangle":
            V = np.array(p["V"], dtype=float)
            return float(max(np.linalg.norm(V[i] - V[j]) for i in range(3) for j in range(i)))
        if k == "rectangle":
            return float(max(p["l"]))
        if k == "box":
            return float(max(p["size"]))
        if k in ("circle", "disk"):
            return 2.0 * p["r"]
        if k == "ellipsoid":
            return 2.0 * max(p["radii"])
        return float(max(2 * p["r"], p["h"]))

    def minfeat(self):
        k, p = self.kind, self.p
        if k in ("point", "line", "plane"):
            return 1.0
        if k == "triangle":
            V = np.array(p["V"], dtype=float)
            return float(min(np.linalg.norm(V[i] - V[j]) for i in range(3) for j in range(i)))
        if k == "rectangle":
            return float(min(p["l"]))
        if k == "box":
            return float(min(p["size"]))
        if k in ("circle", "disk"):
            return float(p["r"])
        if k == "ellipsoid":
            return float(min(p["radii"]))
        if k == "cylinder":
            return float(min(p["r"], p["h"]))
        return self.size()

    def anchor(self):
        p = self.p
        for key in ("x", "c", "a"):
            if key in p:
                return np.array(p[key], dtype=float)
        return np.array(p["V"][0], dtype=float)

    def describe(self):
        return {"kind": self.kind, **{k: (np.asarray(v).tolist() if not isinstance(v, (int, float)) else v) for k, v in self.p.items()}}


def _dist_point_hull(q, V):
    """distance from q to conv(V) (V float rows) by exact rational GJK on the float inputs"""
    from .exactmn import exact_gjk
    from fractions import Fraction as F
    xn, W, wa, wb = exact_gjk([[F(float(c)) for c in q]], [[F(float(c)) for c in v] for v in V]) if False else (None, None, None, None)
    # a cheap float fallback is sufficient here: Wolfe-style iteration with the Fraction solver on <= 4 points
    from .exactmn import minnorm_weights
    Y = [list(map(float, v - q)) for v in V]
    Sidx = [0]
    for _ in range(64):
        x, lam = minnorm_weights([Y[i] for i in Sidx])
        Sidx = [Sidx[k] for k in range(len(Sidx)) if lam[k] > 0]
        xf = np.array([float(c) for c in x])
        j = int(np.argmin(np.array(Y) @ xf))
        if float(np.array(Y[j]) @ xf) >= float(xf @ xf) - 1e-15 * max(1.0, float(xf @ xf)) or j in Sidx:
            return float(np.linalg.norm(xf))
        Sidx.append(j)
    return float(np.linalg.norm(xf))


# ---------------- random lattice primitives ----------------
DIRS = [d for d in itertools.product(range(-2, 3), repeat=3) if any(d) and math.gcd(math.gcd(abs(d[0]), abs(d[1])), abs(d[2])) == 1]


def rand_prim(kind, rng, reach=5):
    P = lambda: [rng.randint(-reach, reach) for _ in range(3)]
    cube = lambda: rng.choice(S.CUBE)[0]
    if kind == "point":
        return Prim(kind, x=P())
    if kind == "line":
        return Prim(kind, x=P(), d=list(rng.choice(DIRS)))
    if kind == "line_segment":
        a = P()
        d = rng.choice(DIRS)
        k = rng.randint(1, 3)
        return Prim(kind, a=a, b=[a[i] + k * d[i] for i in range(3)])
    if kind == "plane":
        return Prim(kind, x=P(), n=list(rng.choice(DIRS)))
    if kind == "triangle":
        while True:
            a = P(); V = [a, [a[i] + rng.randint(-3, 3) for i in range(3)], [a[i] + rng.randint(-3, 3) for i in range(3)]]
            n = np.cross(np.array(V[1]) - np.array(V[0]), np.array(V[2]) - np.array(V[0]))
            if n.any():
                return Prim(kind, V=V)
    if kind in ("rectangle", "box") and rng.random() < 0.3:
        # a rational rotation (integer quaternion, denominator 3 or 5): general relative orientation with integer vertices
        M, N = rng.choice([r for r in S.RATIONAL if r[1] in (3, 5)])
        if kind == "rectangle":
            return Prim(kind, c=P(), M=M, N=N, l=[2 * N * rng.randint(1, 2), 2 * N * rng.randint(1, 2)])
        return Prim(kind, c=P(), M=M, N=N, size=[2 * N * rng.randint(1, 2) for _ in range(3)])
    if kind == "rectangle":
        return Prim(kind, c=P(), M=cube(), l=[2 * rng.randint(1, 3), 2 * rng.randint(1, 3)])
    if kind == "box":
        return Prim(kind, c=P(), M=cube(), size=[2 * rng.randint(1, 3) for _ in range(3)])
    if kind in ("circle", "disk"):
        return Prim(kind, c=P(), r=rng.randint(1, 3), n=list(rng.choice(DIRS)))
    if kind == "ellipsoid":
        if rng.random() < 0.3:
            # strongly elongated or flattened (aspect 10 .. 40, inside the primitive domain: sizes up to 1e2): iterative routines
            # whose stop tests scale with a power of the radii (seed C10-9)
            rad = [rng.randint(1, 2) for _ in range(3)]
            for ax in rng.sample(range(3), rng.choice((1, 2))):
                rad[ax] = rng.choice((12, 40, 96, 96))      # 96: only used under a scale <= 0.52 (size limit 1e2), aspect up to 96
            return Prim(kind, c=P(), M=cube(), radii=rad)
        return Prim(kind, c=P(), M=cube(), radii=[rng.randint(1, 3) for _ in range(3)])
    if kind == "cylinder":
        if rng.random() < 0.2:
            return Prim(kind, c=P(), M=cube(), r=rng.choice((1, 12)), h=2 * rng.choice((1, 20)))
        return Prim(kind, c=P(), M=cube(), r=rng.randint(1, 2), h=2 * rng.randint(1, 3))
    raise ValueError(kind)


FUNCTIONS = ["point_to_line", "point_to_line_segment", "point_to_plane", "point_to_triangle", "point_to_rectangle", "point_to_disk",
             "point_to_circle", "point_to_box", "point_to_ellipsoid", "point_to_cylinder", "line_to_line", "line_to_line_segment",
             "line_to_plane", "line_to_triangle", "line_to_rectangle", "line_to_circle", "line_to_box", "line_segment_to_line_segment",
             "line_segment_to_plane", "line_segment_to_triangle", "line_segment_to_rectangle", "line_segment_to_circle",
             "line_segment_to_box", "plane_to_plane", "plane_to_triangle", "plane_to_rectangle", "plane_to_box", "plane_to_ellipsoid",
             "plane_to_cylinder", "triangle_to_triangle", "triangle_to_rectangle", "rectangle_to_rectangle", "rectangle_to_box",
             "disk_to_disk"]


def relate(A, B, rng):
    """make B exactly parallel / antiparallel / coplanar / perpendicular / equally posed relative to A"""
    def axis(P):
        for key in ("d", "n"):
            if key in P.p:
                return np.array(P.p[key])
        if "M" in P.p:
            return np.array(P.p["M"])[:, 2]
        if P.kind == "line_segment":
            return np.array(P.p["b"]) - np.array(P.p["a"])
        if P.kind == "triangle":
            return np.cross(np.array(P.p["V"][1]) - np.array(P.p["V"][0]), np.array(P.p["V"][2]) - np.array(P.p["V"][0]))
        return None
    a = axis(A)
    how = rng.choice(("parallel", "anti", "coplanar", "samepose", "perp"))
    if a is None or not np.any(a):
        return
    g = math.gcd(math.gcd(abs(int(a[0])), abs(int(a[1]))), abs(int(a[2]))) or 1
    a = (a // g).astype(int)
    sgn = -1 if how == "anti" else 1
    a0 = a.copy()
    incident = False
    if how == "perp":
        u, v = ortho_int(a)
        a = u if rng.random() < 0.5 else v
        incident = rng.random() < 0.5       # axes perpendicular AND anchors related: a line (segment) lying exactly in a plane
                                            # (rectangle, triangle plane, disk), a plane containing the axis of the other primitive
    if "d" in B.p:
        B.p["d"] = [int(sgn * x) for x in a]
    elif "n" in B.p:
        B.p["n"] = [int(sgn * x) for x in a]
    elif B.kind == "line_segment":
        k = rng.randint(1, 3)
        B.p["b"] = [int(B.p["a"][i] + sgn * k * a[i]) for i in range(3)]
    elif "M" in B.p and "M" in A.p:
        B.p["M"] = [list(map(int, r)) for r in np.array(A.p["M"])]
        nb, na = int(B.p.get("N", 1)), int(A.p.get("N", 1))
        if nb != na:                                   # sizes stay multiples of twice the denominator (integer vertices)
            for key in ("l", "size"):
                if key in B.p:
                    B.p[key] = [int(x) // nb * na for x in B.p[key]]
            if na != 1:
                B.p["N"] = na
            else:
                B.p.pop("N", None)
    if how in ("coplanar", "samepose") or incident:
        # anchors related: same anchor, or displaced within the plane orthogonal to the axis / along the axis
        u, v = ortho_int(a0 if incident else a)
        base = A.anchor().astype(int)
        if incident and A.kind in ("line", "line_segment"):
            off = rng.randint(-2, 2) * a0                     # a point of A's own line
        elif how == "coplanar" or incident:
            off = rng.randint(-3, 3) * u + rng.randint(-3, 3) * v
        else:
            off = np.zeros(3, dtype=int)
        for key in ("x", "c"):
            if key in B.p:
                B.p[key] = [int(c) for c in (base + off)]
        if B.kind == "line_segment":
            d = np.array(B.p["b"]) - np.array(B.p["a"])
            B.p["a"] = [int(c) for c in (base + off)]; B.p["b"] = [int(c) for c in (base + off + d)]


def near_parallel_pair(ka, kb, rng):
    """two line-like primitives at a small but clearly non-zero angle (sin in 0.012 .. 0.05), long lattice directions"""
    k = rng.randint(20, 80)
    perm = rng.choice(([0, 1, 2], [1, 2, 0], [2, 0, 1]))
    d1 = np.zeros(3, dtype=int); d1[perm[0]] = k
    d2 = np.zeros(3, dtype=int); d2[perm[0]] = k; d2[perm[1]] = rng.choice((-1, 1))
    if rng.random() < 0.5:
        d2 = -d2
    out = []
    for kind, d in ((ka, d1), (kb, d2)):
        x = [rng.randint(-3, 3) for _ in range(3)]
        if kind == "line":
            g = math.gcd(math.gcd(abs(int(d[0])), abs(int(d[1]))), abs(int(d[2]))) or 1
            out.append(Prim("line", x=x, d=[int(c) // g for c in d]))
        else:
            out.append(Prim("line_segment", a=x, b=[int(x[i] + d[i]) for i in range(3)]))
    return out


def kinds_of(fname):
    a, b = fname.split("_to_")
    return a, b
