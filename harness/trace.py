"""Writing ndjson traces, sharding, judging them with a TLC trace spec."""
import json, os, re
from . import tlc
from .env import WORK


def write_shards(records, name, nshards=16):
    os.makedirs(os.path.join(WORK, "traces"), exist_ok=True)
    nshards = max(1, min(nshards, (len(records) + 199) // 200))
    paths = []
    for s in range(nshards):
        p = os.path.join(WORK, "traces", f"{name}_{os.getpid()}_{s}.ndjson")
        with open(p, "w") as f:
            for r in records[s::nshards]:
                f.write(json.dumps(r, separators=(",", ":")) + "\n")
        paths.append(p)
    return paths


REJ = re.compile(r'^<<"REJECT", (.+?), (\{.*\})>>$')
JUD = re.compile(r'^<<"JUDGED", (\d+), (\d+)>>$')


def judge(records, spec_dir, module, cfg, name, res, nshards=16, heap="1g", timeout=3600, keep=False):
    """Validate records (each with unique 'id') by the batch trace spec. Returns {id: set(clauses)} of rejects.
    Any mismatch between records sent and records judged is a machinery error."""
    if not records:
        return {}
    paths = write_shards(records, name, nshards)
    jobs = [dict(spec_dir=spec_dir, module=module, cfg=cfg, workers=1, env={"TRACE_FILE": p},
                 heap=heap, timeout=timeout, tag=f"{name}_{i}") for i, p in enumerate(paths)]
    outs = tlc.run_many(jobs)
    rejects, judged = {}, 0
    for r, p in zip(outs, paths):
        got = False
        for line in r.out.splitlines():
            m = REJ.match(line.strip())
            if m:
                rid = m.group(1).strip('"')
                cl = set(re.findall(r'"(\w+)"', m.group(2)))
                rejects[rid] = cl
            m = JUD.match(line.strip())
            if m:
                judged += int(m.group(1))
                got = True
        if not got:
            res.machinery(f"trace spec {module} gave no verdict for {p}:\n" + r.out[-3000:])
        res.add_tlc(r)
        if not keep:
            try:
                os.remove(p)
            except OSError:
                pass
    if judged != len(records) and not res.machinery_errors:
        res.machinery(f"trace spec {module}: sent {len(records)} records, judged {judged}")
    res.coverage["traces_validated_against_impl"] += judged
    return rejects
