"""Writing ndjson traces, sharding, judging them with a TLC trace spec."""
import json, os, re
from . import tlc
from .env import WORK


def write_shards(records, name, nshards=16, per_shard=200):
    os.makedirs(os.path.join(WORK, "traces"), exist_ok=True)
    nshards = max(1, min(nshards, (len(records) + per_shard - 1) // per_shard))
    paths = []
    for s in range(nshards):
        p = os.path.join(WORK, "traces", f"{name}_{os.getpid()}_{s}.ndjson")
        with open(p, "w") as f:
            for r in records[s::nshards]:
                f.write(json.dumps(r, separators=(",", ":")) + "\n")
        paths.append(p)
    return paths


REJ = re.compile(r'<<\s*"REJECT",\s*"([^"]+)",\s*(\{[^}]*\})\s*>>')      # TLC wraps long values over several lines
JUD = re.compile(r'<<\s*"JUDGED",\s*(\d+),\s*(\d+)\s*>>')


def parse_rejects(out):
    """{record id: set of clause names} from TLC output; raises if a REJECT marker could not be parsed"""
    rej = {}
    for m in REJ.finditer(out):
        rej[m.group(1)] = set(re.findall(r'"(\w+)"', m.group(2)))
    if out.count('"REJECT"') != len(REJ.findall(out)):
        raise ValueError("unparsed REJECT line in TLC output")
    return rej


PATHS = re.compile(r'<<\s*"PATHS",\s*(\{[^}]*\})\s*>>')


def judge(records, spec_dir, module, cfg, name, res, nshards=16, heap="1g", timeout=3600, keep=False, per_shard=200, collect=None):
    """Validate records (each with unique 'id') by the batch trace spec. Returns {id: set(clauses)} of rejects.
    Any mismatch between records sent and records judged is a machinery error."""
    if not records:
        return {}
    paths = write_shards(records, name, nshards, per_shard)
    jobs = [dict(spec_dir=spec_dir, module=module, cfg=cfg, workers=1, env={"TRACE_FILE": p},
                 heap=heap, timeout=timeout, tag=f"{name}_{i}") for i, p in enumerate(paths)]
    outs = tlc.run_many(jobs)
    rejects, judged = {}, 0
    for r, p in zip(outs, paths):
        got = False
        try:
            rj = parse_rejects(r.out)
        except ValueError as e:
            res.machinery(f"trace spec {module}: {e} for {p}")
            rj = {}
        if collect is not None:
            for pm in PATHS.finditer(r.out):
                collect.update(re.findall(r'"([^"]+)"', pm.group(1)))
        m = JUD.search(r.out)
        if m:
            judged += int(m.group(1))
            got = True
            if int(m.group(2)) != len(rj):
                res.machinery(f"trace spec {module}: {m.group(2)} records rejected but {len(rj)} parsed for {p}")
        rejects.update(rj)
        if not got:
            i = r.out.find("Error")
            res.machinery(f"trace spec {module} gave no verdict for {p}:\n" + (r.out[i:i + 2500] if i >= 0 else r.out[-2500:]))
        res.add_tlc(r)
        if not keep:
            try:
                os.remove(p)
            except OSError:
                pass
    if judged != len(records) and not res.machinery_errors:
        res.machinery(f"trace spec {module}: sent {len(records)} records, judged {judged}")
    res.coverage["traces_validated_against_impl"] += judged
    return rejects
