"""Binding of the portal explorer specs/c18/Mpr.tla to mpr_intersection / mpr_penetration: model checking of the model (all support
tie-breaks, both modes) and stateful trace validation (MprTrace.tla) of real runs on the same lattice scenes, recorded through a
proxy that logs center() and every support evaluation.  Half of the recorded runs use a collider whose support function picks a
random maximiser among exact ties (any maximiser is a valid support point), so that real runs also take the tie-breaking branches
the model explores - including the cycling discover loop."""
import json, os, itertools, random
from fractions import Fraction
import numpy as np
from . import tlc
from .env import WORK

SHAPES = {   # the shapes of MprMC.tla (lattice centres)
    "point": [(0, 0, 0)], "seg": [(0, 0, 0), (2, 0, 0)], "tri": [(0, 0, 0), (3, 0, 0), (0, 3, 0)],
    "sq": [(-1, -1, 0), (1, -1, 0), (1, 1, 0), (-1, 1, 0)], "tet": [(0, 0, 0), (4, 0, 0), (0, 4, 0), (0, 0, 4)],
    "cube": [(x, y, z) for x in (-1, 1) for y in (-1, 1) for z in (-1, 1)],
    "octa": [(2, 0, 0), (-2, 0, 0), (0, 2, 0), (0, -2, 0), (0, 0, 1), (0, 0, -1)]}
CENTRE = {"point": (0, 0, 0), "seg": (1, 0, 0), "tri": (1, 1, 0), "sq": (0, 0, 0), "tet": (1, 1, 1), "cube": (0, 0, 0), "octa": (0, 0, 0)}
SHAPES_A = ("point", "seg", "tri", "sq", "tet", "cube", "octa")
SHAPES_B = ("point", "seg", "sq", "tet", "cube")


def model_check(res, tier):
    jobs = [dict(spec_dir="c18", module="MprMC", cfg="Mpr_intersection_1.cfg", workers=5, heap="3g", tag="mpr_i"),
            dict(spec_dir="c18", module="MprMC", cfg="Mpr_penetration_1.cfg", workers=5, heap="3g", tag="mpr_p"),
            dict(spec_dir="c18", module="MprMC", cfg="Mpr_badexpand.cfg", workers=2, heap="1g", tag="mpr_b"),
            dict(spec_dir="c18", module="MprMC", cfg="Mpr_cycle.cfg", workers=1, heap="1g", tag="mpr_c"),
            dict(spec_dir="c18", module="MprMC", cfg="Mpr_aliased.cfg", workers=1, heap="1g", tag="mpr_a"),
            dict(spec_dir="c18", module="MprMC", cfg="Mpr_intersection_s7.cfg", workers=3, heap="2g", tag="mpr_is7"),
            dict(spec_dir="c18", module="MprMC", cfg="Mpr_penetration_s7.cfg", workers=3, heap="2g", tag="mpr_ps7"),
            dict(spec_dir="c18", module="MprMC", cfg="Mpr_unnorm_s7.cfg", workers=2, heap="1g", tag="mpr_u7")]
    if tier != "quick":
        jobs[0]["cfg"], jobs[1]["cfg"] = "Mpr_intersection_2.cfg", "Mpr_penetration_2.cfg"
    i, p, b, c, a, i7, p7, u7 = tlc.run_many(jobs)
    if "MissIsNotDeep" not in u7.invariant_violated:
        res.machinery("the MPR variant with an unnormalised portal direction did not violate MissIsNotDeep on scaled scenes (vacuous model)")
    res.add_tlc(u7)
    for r, name in ((i, "intersection"), (p, "penetration"), (i7, "intersection, scale 2^-7"), (p7, "penetration, scale 2^-7")):
        res.add_tlc(r)
        if r.invariant_violated:
            res.violation(f"mc:Mpr:{name}", "ModelInvariant", f"TLC: {r.invariant_violated} violated on the MPR model ({name})", {"tlc_tail": r.out[-3000:]})
        elif not r.ok:
            res.machinery(f"TLC Mpr ({name}) failed:\n" + r.out[-2000:])
    res.add_tlc(b); res.add_tlc(c); res.add_tlc(a)
    if "ContactCommonPoint" not in a.invariant_violated:
        res.machinery("the MPR variant with the as-found aliased vertex swap did not violate ContactCommonPoint (vacuous model)")
    if "PenNeverCapped" not in b.invariant_violated:
        res.machinery("the MPR variant with a wrong portal expansion did not violate PenNeverCapped (vacuous model)")
    res.coverage["mpr_discover_loop_can_cycle_in_model"] = "NeverCapped" in c.invariant_violated
    res.coverage["mpr_model_states"] = i.distinct + p.distinct


def scenes(tier, rng):
    R = 2 if tier == "quick" else 3
    offs = list(itertools.product(range(-R, R + 1), repeat=3))
    out = [(a, b, t) for a in SHAPES_A for b in SHAPES_B for t in offs]
    rng.shuffle(out)
    out = out[:300] if tier == "quick" else out[:3000]
    return [("tet", "tet", (1, 1, -1)), ("tet", "tet", (1, -1, 1))] + out      # the scene on which the model's discover loop cycles


def record(scene_list, rng):
    from distance3d import colliders as C, mpr
    from . import narrow as NW

    class Rec(C.ConvexCollider):
        """recording proxy; with ties=True the support point is a random maximiser among exact ties"""
        def __init__(self, V, log, ties, rng):
            super().__init__(None)
            self.V, self.log, self.ties, self.rng = np.ascontiguousarray(V), log, ties, rng
            self.inner = C.ConvexHullVertices(self.V)

        def make_artist(self, c=None):
            pass

        def first_vertex(self):
            return self.inner.first_vertex()

        def support_function(self, d):
            if self.ties:
                dots = self.V.dot(d)
                m = dots.max()
                idx = [i for i in range(len(dots)) if dots[i] >= m - 1e-12 * max(1.0, abs(m))]
                p = self.V[self.rng.choice(idx)].copy()
            else:
                p = self.inner.support_function(d)
            self.log.append(("s", np.array(p, dtype=float)))
            if len(self.log) > 1200:
                raise NW.SupportBudget()
            return p

        def center(self):
            p = self.inner.center()
            self.log.append(("c", np.array(p, dtype=float)))
            return p

        def update_pose(self, pose):
            self.inner.update_pose(pose)

        def aabb(self):
            return self.inner.aabb()

        def collider2origin(self):
            return self.inner.collider2origin()

    def lat(w):
        wi = [int(round(x)) for x in w]
        return wi if np.allclose(w, wi, atol=1e-9) else [99, 99, 99]
    runs = {}
    k = 0
    for (a, b, t) in scene_list:
        for mode in ("intersection", "penetration"):
            maxit = rng.choice((100, 100, 12))
            ties = rng.random() < 0.5
            scale = 7 if rng.random() < 0.3 else 0          # 2^-7: the smallest feature sizes of the domain, exact in binary floating point
            sc = 2.0 ** -scale
            VA, VB = list(SHAPES[a]), list(SHAPES[b])
            rng.shuffle(VA); rng.shuffle(VB)
            A = np.array(VA, dtype=float) * sc
            B = (np.array(VB, dtype=float) + np.array(t, dtype=float)) * sc
            D = sorted({tuple(int(x) for x in (np.array(p) - np.array(q) - np.array(t))) for p in SHAPES[a] for q in SHAPES[b]})
            sid = f"m{k}"; k += 1
            log = []
            res = {"ev": "result", "id": sid, "exc": "none", "answer": False, "mode": mode, "recon": False, "d2n": 0, "d2d": 1, "depthneg": False}
            try:
                ca, cb = Rec(A, log, ties, rng), Rec(B, log, ties, rng)
                with NW.time_limit(20.0):
                    if mode == "intersection":
                        res["answer"] = bool(mpr.mpr_intersection(ca, cb, max_iterations=maxit))
                    else:
                        out = mpr.mpr_penetration(ca, cb, max_iterations=maxit)
                        res["answer"] = bool(out[0])
                        if out[0]:
                            d = float(out[1]) / sc
                            res["depthneg"] = bool(d < 0.0)
                            fr = Fraction(d * d).limit_denominator(20000)
                            if abs(float(fr) - d * d) <= 1e-9 * max(1.0, d * d):
                                res["recon"], res["d2n"], res["d2d"] = True, fr.numerator, fr.denominator
            except Exception as e:
                res["exc"] = type(e).__name__
            cs = [p for kind, p in log if kind == "c"]
            sups = [p for kind, p in log if kind == "s"]
            c = lat((cs[0] - cs[1]) / sc) if len(cs) >= 2 else [99, 99, 99]
            ev = [{"ev": "scene", "id": sid, "D": [list(p) for p in D], "c": c, "mode": mode, "maxit": maxit, "scale": scale}]
            for j in range(0, len(sups) - 1, 2):
                ev.append({"ev": "iter", "id": f"{sid}.{j // 2}", "w": lat((sups[j] - sups[j + 1]) / sc)})
            ev.append(res)
            runs.setdefault((mode, maxit, scale), []).append((sid, (a, b, t, mode, maxit, ties, scale), ev))
    return runs


def validate(res, runs, name):
    from .trace import parse_rejects
    os.makedirs(os.path.join(WORK, "traces"), exist_ok=True)
    jobs, files = [], []
    for (mode, maxit, scale), lst in runs.items():
        nsh = max(1, min(4, len(lst) // 40 + 1))
        for sh in range(nsh):
            p = os.path.join(WORK, "traces", f"{name}_{os.getpid()}_{mode}_{maxit}_{scale}_{sh}.ndjson")
            n = 0
            with open(p, "w") as fh:
                for sid, meta, ev in lst[sh::nsh]:
                    for e in ev:
                        fh.write(json.dumps(e, separators=(",", ":")) + "\n"); n += 1
                fh.write(json.dumps({"ev": "end", "id": "end", "count": n}) + "\n")
            files.append((p, n + 1))
            jobs.append(dict(spec_dir="c18", module="MprTrace", cfg=f"MprTrace_{mode}_{maxit}" + ("_s7" if scale else "") + ".cfg", workers=1, env={"TRACE_FILE": p}, heap="1g",
                             timeout=3600, tag=f"{name}_{mode}_{maxit}_{scale}_{sh}"))
    outs = tlc.run_many(jobs)
    rejects = {}
    for r, (p, n) in zip(outs, files):
        res.add_tlc(r)
        if not r.ok or "JUDGED" not in r.out:
            i = r.out.find("Error")
            res.machinery(f"MprTrace did not consume {p}:\n" + r.out[i:i + 2000])
            continue
        try:
            rejects.update(parse_rejects(r.out))
        except ValueError as e:
            res.machinery(f"{e} for {p}")
        res.coverage["traces_validated_against_impl"] += n
        os.remove(p)
    return rejects


def run(res, tier, seed, mc=True, modes=("intersection", "penetration")):
    rng = random.Random(seed * 37 + 11)
    if mc:
        model_check(res, tier)
    sl = scenes(tier, rng)
    runs = record(sl, rng)
    runs = {k: v for k, v in runs.items() if k[0] in modes}
    rej = validate(res, runs, "mprloop")
    meta = {sid: (m, ev) for lst in runs.values() for sid, m, ev in lst}
    drift, capped = 0, 0
    for sid, (m, ev) in meta.items():
        if sum(1 for e in ev if e["ev"] == "iter") >= m[4] + 3:
            capped += 1
    for sid, clauses in sorted(rej.items()):
        m, ev = meta[sid]
        prop = {c for c in clauses if not c.startswith("DRIFT_")}
        if prop:
            res.violation(f"mprloop:{'+'.join(sorted(prop))}:{m[3]}:{m[0]}-{m[1]}@{list(m[2])}", "+".join(sorted(prop)),
                          f"mpr_{m[3]} on lattice scene {m[:3]} (max_iterations={m[4]}, random ties={m[5]}): {ev[-1]}",
                          {"scene": list(m), "events": ev})
        elif clauses:
            drift += 1
            res.coverage.setdefault("drift_samples", [])
            if len(res.coverage["drift_samples"]) < 5:
                res.coverage["drift_samples"].append({"scene": list(m), "clauses": sorted(clauses), "result": ev[-1]})
    res.coverage["drift"] += drift
    res.coverage["mpr_loop_runs"] = len(meta)
    res.coverage["mpr_loop_support_evaluations"] = sum(1 for m, ev in meta.values() for e in ev if e["ev"] == "iter")
    res.coverage["mpr_loop_runs_reaching_discover_cap"] = capped
