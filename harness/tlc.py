"""Run TLC (tla2tools 1.8) with the JVM flags measured to be fastest in this sandbox."""
import os, re, shutil, subprocess, time, hashlib
from .env import VERIF, WORK

JAR = "/opt/veriftools/tla/tla2tools.jar:/opt/veriftools/tla/CommunityModules-deps.jar"
LIB = os.path.join(VERIF, "specs", "lib")


class TlcResult:
    def __init__(self, rc, out, wall):
        self.rc, self.out, self.wall = rc, out, wall
        m = re.search(r"(\d+) states generated, (\d+) distinct states found", out)
        self.generated = int(m.group(1)) if m else 0
        self.distinct = int(m.group(2)) if m else 0
        self.ok = ("Model checking completed. No error has been found." in out) or \
                  ("Finished computing initial states" in out and rc == 0)
        self.invariant_violated = re.findall(r"Invariant (\S+) is violated", out)
        self.property_violated = "Temporal properties were violated" in out or bool(
            re.findall(r"Action property (\S+) is violated", out))
        self.error = "Error:" in out and not self.invariant_violated and not self.property_violated

    def lines(self, prefix):
        return [l for l in self.out.splitlines() if l.startswith(prefix)]

    def coverage(self):
        """per-action counts from -coverage output: {action: (distinct, total)}"""
        cov = {}
        for m in re.finditer(r"<(\w+) line \d+, col \d+ to line \d+, col \d+ of module (\w+)>: (\d+):(\d+)", self.out):
            cov[m.group(1)] = (int(m.group(3)), int(m.group(4)))
        return cov


def run(spec_dir, module, cfg=None, workers=1, env=None, extra=(), heap="1g", timeout=3600,
        tag=None, deadlock=False, coverage=False, simulate=None, depth=None):
    """spec_dir relative to /verif/specs. Returns TlcResult; raises on timeout."""
    d = os.path.join(VERIF, "specs", spec_dir)
    tag = tag or f"{module}_{os.getpid()}_{int(time.time()*1000)%100000000}"
    meta = os.path.join(WORK, "tlc", tag)
    shutil.rmtree(meta, ignore_errors=True)
    os.makedirs(meta, exist_ok=True)
    cmd = ["java", "-XX:+UseSerialGC" if workers == 1 else "-XX:+UseParallelGC",
           f"-Xms{heap}", f"-Xmx{heap}", "-Xss16m",
           f"-DTLA-Library={LIB}", "-cp", JAR, "tlc2.TLC", "-nowarning",
           "-noGenerateSpecTE", "-metadir", meta, "-workers", str(workers)]
    if workers == 1:
        cmd[4:4] = ["-Xmn96m"]
        cmd += ["-fpmem", "0.05"]
    if cfg:
        cmd += ["-config", cfg]
    if not deadlock:
        cmd += ["-deadlock"]
    if coverage:
        cmd += ["-coverage", "1"]
    if simulate:
        cmd += ["-simulate", simulate]
    if depth:
        cmd += ["-depth", str(depth)]
    cmd += list(extra) + [module + ".tla"]
    e = dict(os.environ)
    e.pop("JAVA_TOOL_OPTIONS", None)
    if env:
        e.update({k: str(v) for k, v in env.items()})
    t0 = time.time()
    p = subprocess.run(cmd, cwd=d, env=e, stdout=subprocess.PIPE, stderr=subprocess.STDOUT,
                       text=True, timeout=timeout)
    shutil.rmtree(meta, ignore_errors=True)
    return TlcResult(p.returncode, p.stdout, time.time() - t0)


def run_many(jobs, par=16):
    """jobs: list of kwargs for run(); executed in parallel, results in order."""
    from concurrent.futures import ThreadPoolExecutor
    with ThreadPoolExecutor(max_workers=par) as ex:
        futs = [ex.submit(run, **j) for j in jobs]
        return [f.result() for f in futs]


def spec_hash(*dirs):
    h = hashlib.sha256()
    for d in dirs:
        p = os.path.join(VERIF, "specs", d)
        for f in sorted(os.listdir(p)):
            if f.endswith((".tla", ".cfg")):
                h.update(f.encode())
                h.update(open(os.path.join(p, f), "rb").read())
    return h.hexdigest()[:16]


def apalache(spec_dir, module, args, timeout=900, tag=None):
    """apalache-mc check <args> <module>.tla in /verif/specs/<spec_dir>; returns (exit code text, output).  Used for inductive
    invariants of small integer models (unbounded proofs: Init => IndInv, IndInv /\\ Next => IndInv')."""
    d = os.path.join(VERIF, "specs", spec_dir)
    out = os.path.join(WORK, "apalache", tag or f"{module}_{os.getpid()}_{int(time.time()*1000)%100000000}")
    shutil.rmtree(out, ignore_errors=True)
    os.makedirs(out, exist_ok=True)
    e = dict(os.environ)
    e.pop("JAVA_TOOL_OPTIONS", None)
    p = subprocess.run(["apalache-mc", "check", f"--out-dir={out}"] + list(args) + [module + ".tla"], cwd=d, env=e, stdout=subprocess.PIPE,
                       stderr=subprocess.STDOUT, text=True, timeout=timeout)
    shutil.rmtree(out, ignore_errors=True)
    m = re.search(r"EXITCODE: (\w+)", p.stdout)
    return (m.group(1) if m else "NONE"), p.stdout
