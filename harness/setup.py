"""setup_cmd: warm the numba cache (outside /repo) and check that TLC starts."""
import subprocess, sys, time
from . import env


def main():
    env.setup()
    t = time.time()
    import numpy as np
    mods = ["distance3d.gjk", "distance3d.distance", "distance3d.mpr", "distance3d.epa", "distance3d.colliders",
            "distance3d.aabb_tree", "distance3d.broad_phase", "distance3d.self_collision",
            "distance3d.containment", "distance3d.containment_test", "distance3d.hydroelastic_contact"]
    import importlib
    for m in mods:
        try:
            importlib.import_module(m)
        except Exception as e:  # reported, not fatal: each check reports import failures itself
            print("setup: import", m, "failed:", type(e).__name__, e)
    try:
        from distance3d import colliders, gjk
        a = colliders.Box(np.eye(4), np.ones(3))
        T = np.eye(4); T[0, 3] = 3.0
        b = colliders.Sphere(T[:3, 3].copy(), 0.5)
        gjk.gjk(a, b)
    except Exception as e:
        print("setup: warm-up call failed:", type(e).__name__, e)
    p = subprocess.run(["java", "-version"], capture_output=True, text=True)
    print("setup done in %.1fs; java: %s" % (time.time() - t, (p.stderr or p.stdout).splitlines()[0]))
    return 0
