from fractions import Fraction as F
import itertools, numpy as np
def dot(a,b): return sum(x*y for x,y in zip(a,b))
def sub(a,b): return [x-y for x,y in zip(a,b)]
def solve(M,r):
    n=len(M); A=[row[:]+[r[i]] for i,row in enumerate(M)]
    for c in range(n):
        p=next((i for i in range(c,n) if A[i][c]!=0),None)
        if p is None: return None
        A[c],A[p]=A[p],A[c]
        for i in range(n):
            if i!=c and A[i][c]!=0:
                f=A[i][c]/A[c][c]; A[i]=[x-f*y for x,y in zip(A[i],A[c])]
    return [A[i][n]/A[i][i] for i in range(n)]
def exact_minnorm(Y):
    Y=[[F(float(c)) for c in p] for p in Y]
    best=None
    for k in range(1,min(4,len(Y))+1):
        for t in itertools.combinations(range(len(Y)),k):
            P=[Y[i] for i in t]
            if k==1: lam=[F(1)]
            else:
                E=[sub(p,P[0]) for p in P[1:]]
                if k==4:
                    M=[[E[j][i] for j in range(3)] for i in range(3)]; r=[-P[0][i] for i in range(3)]
                else:
                    M=[[dot(a,b) for b in E] for a in E]; r=[-dot(a,P[0]) for a in E]
                mu=solve(M,r)
                if mu is None: continue
                lam=[1-sum(mu)]+mu
            if min(lam)<0: continue
            x=[sum(l*p[c] for l,p in zip(lam,P)) for c in range(3)]
            n2=dot(x,x)
            if all(dot(x,y)>=n2 for y in Y):
                return x,n2,t
    return None


def minnorm_weights(Y):
    """exact minimiser of |sum lam_i Y_i| over the simplex: returns (x, lam) with lam a full-length list of Fractions"""
    Yf = [[F(c) for c in p] for p in Y]
    for k in range(1, min(4, len(Yf)) + 1):
        for t in itertools.combinations(range(len(Yf)), k):
            P = [Yf[i] for i in t]
            if k == 1:
                lam = [F(1)]
            else:
                E = [sub(p, P[0]) for p in P[1:]]
                if k == 4:
                    M = [[E[j][i] for j in range(3)] for i in range(3)]
                    r = [-P[0][i] for i in range(3)]
                else:
                    M = [[dot(a, b) for b in E] for a in E]
                    r = [-dot(a, P[0]) for a in E]
                mu = solve(M, r)
                if mu is None:
                    continue
                lam = [1 - sum(mu)] + mu
            if min(lam) < 0:
                continue
            x = [sum(l * p[c] for l, p in zip(lam, P)) for c in range(3)]
            n2 = dot(x, x)
            if all(dot(x, y) >= n2 for y in Yf):
                full = [F(0)] * len(Yf)
                for l, i in zip(lam, t):
                    full[i] = l
                return x, full
    raise ArithmeticError("no minimiser found")


def exact_gjk(VA, VB):
    """exact closest points of conv(VA) and conv(VB) (integer or Fraction vertices) by GJK in rational
    arithmetic.  Returns (xn, W, wa, wb): integer vector xn = W (a* - b*), integer weights over VA / VB with sum W."""
    from math import gcd
    A = [[F(c) for c in p] for p in VA]
    B = [[F(c) for c in p] for p in VB]
    S = [(0, 0)]
    for _ in range(200):
        Y = [sub(A[i], B[j]) for i, j in S]
        x, lam = minnorm_weights(Y)
        S = [S[k] for k in range(len(S)) if lam[k] > 0]
        lam = [l for l in lam if l > 0]
        xx = dot(x, x)
        if xx == 0:
            break
        i = min(range(len(A)), key=lambda i: dot(x, A[i]))
        j = max(range(len(B)), key=lambda j: dot(x, B[j]))
        if dot(x, sub(A[i], B[j])) >= xx or (i, j) in S:
            break
        S.append((i, j))
    else:
        raise ArithmeticError("exact GJK did not terminate")
    W = 1
    for l in lam:
        W = W * l.denominator // gcd(W, l.denominator)
    wa, wb = [0] * len(A), [0] * len(B)
    for (i, j), l in zip(S, lam):
        wa[i] += int(l * W)
        wb[j] += int(l * W)
    xn = [int(c * W) for c in x]
    return xn, W, wa, wb
