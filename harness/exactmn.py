from fractions import Fraction as F
import itertools, numpy as np
def dot(a,b): return sum(x*y for x,y in zip(a,b))
def sub(a,b): return [x-y for x,y in zip(a,b)]
def solve(M,r):
    n=len(M); A=[row[:]+[r[i]] for i,row in enumerate(M)]
    for c in range(n):
        p=next((i for i in range(c,n) if A[i][c]!=0),None)
        if p is None: return None
        A[c],A[p]=A[p],A[c]
        for i in range(n):
            if i!=c and A[i][c]!=0:
                f=A[i][c]/A[c][c]; A[i]=[x-f*y for x,y in zip(A[i],A[c])]
    return [A[i][n]/A[i][i] for i in range(n)]
def exact_minnorm(Y):
    Y=[[F(float(c)) for c in p] for p in Y]
    best=None
    for k in range(1,min(4,len(Y))+1):
        for t in itertools.combinations(range(len(Y)),k):
            P=[Y[i] for i in t]
            if k==1: lam=[F(1)]
            else:
                E=[sub(p,P[0]) for p in P[1:]]
                if k==4:
                    M=[[E[j][i] for j in range(3)] for i in range(3)]; r=[-P[0][i] for i in range(3)]
                else:
                    M=[[dot(a,b) for b in E] for a in E]; r=[-dot(a,P[0]) for a in E]
                mu=solve(M,r)
                if mu is None: continue
                lam=[1-sum(mu)]+mu
            if min(lam)<0: continue
            x=[sum(l*p[c] for l,p in zip(lam,P)) for c in range(3)]
            n2=dot(x,x)
            if all(dot(x,y)>=n2 for y in Y):
                return x,n2,t
    return None
