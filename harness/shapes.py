"""Shape scenes shared by the shape judges (C03, C04, C13, C14) and the narrow-phase checks.

A scene shape is (spec, unit, M, N, t): spec = dict(kind=..., integer parameters in lattice units),
unit = length of one lattice unit, world = unit * (t + (M / N) @ local), M an integer matrix with
M M^T = N^2 I (exact rational rotation), t an integer translation in lattice units.
The float mirrors of Shapes.tla (support value, outward lower bound on the distance to the set)
are the harness' measuring instruments; they are checked against TLC's exact values on every
exact-tier record (clause MirrorExact)."""
import itertools, math
import numpy as np
from .ratio import recon_vec, ticks

# ---------------- exact rotations ----------------


def quat_rot(a, b, c, d):
    N = a * a + b * b + c * c + d * d
    M = [[a * a + b * b - c * c - d * d, 2 * (b * c - a * d), 2 * (b * d + a * c)],
         [2 * (b * c + a * d), a * a - b * b + c * c - d * d, 2 * (c * d - a * b)],
         [2 * (b * d - a * c), 2 * (c * d + a * b), a * a - b * b - c * c + d * d]]
    return M, N


def cube_rotations():
    out = []
    for perm in itertools.permutations(range(3)):
        for signs in itertools.product((1, -1), repeat=3):
            M = [[0] * 3 for _ in range(3)]
            for i in range(3):
                M[i][perm[i]] = signs[i]
            if round(np.linalg.det(np.array(M))) == 1:
                out.append((M, 1))
    return out


CUBE = cube_rotations()
RATIONAL = [quat_rot(1, 1, 1, 0), quat_rot(2, 1, 0, 0), quat_rot(2, 0, 1, 0), quat_rot(1, 2, 2, 0),
            quat_rot(3, 1, 1, 1), quat_rot(2, 1, 1, 1), quat_rot(1, 0, 2, 0), quat_rot(4, 2, 2, 1)]
ROTS = CUBE + RATIONAL


def pose_matrix(unit, M, N, t):
    T = np.eye(4)
    T[:3, :3] = np.array(M, dtype=float) / N
    T[:3, 3] = unit * np.array(t, dtype=float)
    return np.ascontiguousarray(T)


def random_rotation(rng):
    q = np.array([rng.gauss(0, 1) for _ in range(4)])
    q /= np.linalg.norm(q)
    a, b, c, d = q
    return np.array([[a * a + b * b - c * c - d * d, 2 * (b * c - a * d), 2 * (b * d + a * c)],
                     [2 * (b * c + a * d), a * a - b * b + c * c - d * d, 2 * (c * d - a * b)],
                     [2 * (b * d - a * c), 2 * (c * d + a * b), a * a - b * b - c * c + d * d]])


# ---------------- shape catalogue (lattice parameters) ----------------
CUBE_V = [[x, y, z] for x in (-1, 1) for y in (-1, 1) for z in (-1, 1)]
HULLS = {
    "tetra": [[0, 0, 0], [2, 0, 0], [0, 2, 0], [0, 0, 2]],
    "octa": [[2, 0, 0], [-2, 0, 0], [0, 2, 0], [0, -2, 0], [0, 0, 2], [0, 0, -2]],
    "pyramid": [[-1, -1, 0], [1, -1, 0], [1, 1, 0], [-1, 1, 0], [0, 0, 3]],
    "cube": CUBE_V,
    "prism": [[0, 0, -2], [2, 0, -2], [0, 2, -2], [0, 0, 2], [2, 0, 2], [0, 2, 2]],
    "needle": [[0, 0, 0], [8, 0, 0], [4, 1, 0], [4, 0, 1]],
    "wedge": [[-2, -1, 0], [2, -1, 0], [2, 1, 0], [-2, 1, 0], [-2, 0, 2], [2, 0, 2]],
    # the mesh frame's origin lies outside the hull
    "offcube": [[x + 3, y + 1, z] for x in (-1, 1) for y in (-1, 1) for z in (-1, 1)],
    "offtetra": [[2, 2, 1], [4, 2, 1], [2, 4, 1], [2, 2, 3]],
}


def catalogue():
    S = []
    for r in (1, 2):
        S.append({"kind": "sphere", "r": r})
    for r, h in ((1, 2), (1, 6), (2, 2)):
        S.append({"kind": "capsule", "r": r, "h": h})
    for r, h in ((1, 2), (1, 8), (3, 2)):
        S.append({"kind": "cylinder", "r": r, "h": h})
    for r, h in ((1, 2), (3, 4), (2, 1)):
        S.append({"kind": "cone", "r": r, "h": h})
    for a, b, c in ((1, 2, 2), (2, 3, 6), (1, 1, 1), (3, 4, 12)):
        S.append({"kind": "ellipsoid", "a": a, "b": b, "c": c})
    for r in (1, 3):
        S.append({"kind": "disk", "r": r})
    for a, b in ((1, 2), (3, 4)):
        S.append({"kind": "ellipse", "a": a, "b": b})
    for a, b, c in ((2, 2, 2), (2, 4, 6), (8, 2, 2)):
        S.append({"kind": "box", "a": a, "b": b, "c": c})
    for name, V in HULLS.items():
        S.append({"kind": "hull", "V": V, "name": name})
    return S


DIR_BASE = [(1, 0, 0), (0, 0, 1), (1, 1, 0), (1, 0, 1), (1, 1, 1), (3, 4, 0), (0, 3, 4), (3, 0, 4), (3, 4, 5),
            (3, 4, 12), (1, 2, 2), (2, 3, 6), (5, 12, 0), (4, 3, 1), (1, 4, 8), (2, 1, 2), (1, 2, 3), (6, 8, 5)]


def local_dirs():
    out = set()
    for b in DIR_BASE:
        for p in set(itertools.permutations(b)):
            for s in itertools.product((1, -1), repeat=3):
                out.add(tuple(s[i] * p[i] for i in range(3)))
    return sorted(out)


def isqrt_exact(n):
    k = math.isqrt(n)
    return k if k * k == n else None


def radicand(s, d):
    k = s["kind"]
    if k in ("sphere", "capsule"):
        return d[0] ** 2 + d[1] ** 2 + d[2] ** 2
    if k in ("cylinder", "cone", "disk"):
        return d[0] ** 2 + d[1] ** 2
    if k == "ellipsoid":
        return (s["a"] * d[0]) ** 2 + (s["b"] * d[1]) ** 2 + (s["c"] * d[2]) ** 2
    if k == "ellipse":
        return (s["a"] * d[0]) ** 2 + (s["b"] * d[1]) ** 2
    return 0


# ---------------- float mirrors of Shapes.tla (local frame, lattice units) ----------------
def support_val(s, d):
    d = np.asarray(d, dtype=float)
    k = s["kind"]
    rho = math.hypot(d[0], d[1])
    if k == "sphere":
        return s["r"] * float(np.linalg.norm(d))
    if k == "capsule":
        return s["r"] * float(np.linalg.norm(d)) + 0.5 * s["h"] * abs(d[2])
    if k == "cylinder":
        return s["r"] * rho + 0.5 * s["h"] * abs(d[2])
    if k == "cone":
        return max(s["h"] * d[2], s["r"] * rho)
    if k == "ellipsoid":
        return math.sqrt((s["a"] * d[0]) ** 2 + (s["b"] * d[1]) ** 2 + (s["c"] * d[2]) ** 2)
    if k == "disk":
        return s["r"] * rho
    if k == "ellipse":
        return math.hypot(s["a"] * d[0], s["b"] * d[1])
    if k == "box":
        return 0.5 * (s["a"] * abs(d[0]) + s["b"] * abs(d[1]) + s["c"] * abs(d[2]))
    if k == "hull":
        return float(np.max(np.asarray(s["V"], dtype=float) @ d))
    raise ValueError(k)


def _normals(s, p):
    """candidate outward unit normals at/near p for the lower bound on the distance to the set"""
    k = s["kind"]
    c = [np.array(v, dtype=float) for v in ((1, 0, 0), (-1, 0, 0), (0, 1, 0), (0, -1, 0), (0, 0, 1), (0, 0, -1))]
    x, y, z = p
    rho = math.hypot(x, y)
    rad = np.array([x / rho, y / rho, 0.0]) if rho > 0 else np.array([1.0, 0.0, 0.0])
    if np.linalg.norm(p) > 0:
        c.append(p / np.linalg.norm(p))
    c.append(rad)
    if k == "capsule":
        zc = min(max(z, -0.5 * s["h"]), 0.5 * s["h"])
        v = np.array([x, y, z - zc])
        if np.linalg.norm(v) > 0:
            c.append(v / np.linalg.norm(v))
    if k == "cone":
        n = np.array([s["h"] * rad[0], s["h"] * rad[1], s["r"]])
        c.append(n / np.linalg.norm(n))
    if k == "ellipsoid":
        g = np.array([x / s["a"] ** 2, y / s["b"] ** 2, z / s["c"] ** 2])
        if np.linalg.norm(g) > 0:
            c.append(g / np.linalg.norm(g))
    if k == "ellipse":
        g = np.array([x / s["a"] ** 2, y / s["b"] ** 2, 0.0])
        if np.linalg.norm(g) > 0:
            c.append(g / np.linalg.norm(g))
    if k == "hull":
        V = np.asarray(s["V"], dtype=float)
        for f in hull_facets(s["V"]):
            n = np.array(f[0], dtype=float)
            c.append(n / np.linalg.norm(n))
    return c


_FACETS = {}


def hull_facets(V):
    if len(V) > 16:
        key = ("big", len(V), float(np.sum(V)))
        if key not in _FACETS:
            from scipy.spatial import ConvexHull
            eq = ConvexHull(np.asarray(V, dtype=float)).equations      # n.x + c <= 0 inside, |n| = 1
            _FACETS[key] = [((float(e[0]), float(e[1]), float(e[2])), -float(e[3])) for e in np.unique(np.round(eq, 12), axis=0)]
        return _FACETS[key]
    key = tuple(map(tuple, V))
    if key not in _FACETS:
        F = set()
        n = len(V)
        A = np.array(V, dtype=np.int64)
        for i, j, k in itertools.permutations(range(n), 3):
            if not (i < j and i < k):
                continue
            nv = np.cross(A[j] - A[i], A[k] - A[i])
            if not nv.any():
                continue
            c = int(nv @ A[i])
            if np.all(A @ nv <= c):
                g = math.gcd(math.gcd(abs(int(nv[0])), abs(int(nv[1]))), math.gcd(abs(int(nv[2])), abs(c))) or 1
                F.add((tuple(int(x) // g for x in nv), c // g))
        _FACETS[key] = sorted(F)
    return _FACETS[key]


def outside_lower_bound(s, p):
    """a lower bound (>= 0) on the distance from local point p to the shape, from support values"""
    p = np.asarray(p, dtype=float)
    return max(0.0, max(float(n @ p) - support_val(s, n) for n in _normals(s, p)))


def outside_lower_bound_m(s, p, margin):
    """lower bound on the distance from local point p to the shape inflated by `margin`"""
    p = np.asarray(p, dtype=float)
    return max(0.0, max(float(n @ p) - support_val(s, n) - margin for n in _normals(s, p)))


# ---------------- building real colliders ----------------
def hull_triangles(V):
    from distance3d.mesh import make_convex_mesh
    return make_convex_mesh(np.array(V, dtype=float))


def world_vertices(s, unit, R, tw):
    V = np.array(s["V"], dtype=float) * unit
    return np.ascontiguousarray(V @ R.T + tw)


def build(s, unit, R, tw, cls=None):
    """Returns {class name: collider} for the shape at rotation R (3x3 float) and world translation tw."""
    from distance3d import colliders as C
    T = np.eye(4)
    T[:3, :3] = R
    T[:3, 3] = tw
    T = np.ascontiguousarray(T)
    k = s["kind"]
    out = {}
    if k == "sphere":
        out["Sphere"] = C.Sphere(np.ascontiguousarray(tw, dtype=float).copy(), unit * s["r"])
    elif k == "capsule":
        out["Capsule"] = C.Capsule(T, unit * s["r"], unit * s["h"])
    elif k == "cylinder":
        out["Cylinder"] = C.Cylinder(T, unit * s["r"], unit * s["h"])
    elif k == "cone":
        out["Cone"] = C.Cone(T, unit * s["r"], unit * s["h"])
    elif k == "ellipsoid":
        out["Ellipsoid"] = C.Ellipsoid(T, unit * np.array([s["a"], s["b"], s["c"]], dtype=float))
    elif k == "disk":
        out["Disk"] = C.Disk(np.ascontiguousarray(tw, dtype=float).copy(), unit * s["r"], np.ascontiguousarray(R[:, 2]).copy())
    elif k == "ellipse":
        out["Ellipse"] = C.Ellipse(np.ascontiguousarray(tw, dtype=float).copy(), np.ascontiguousarray(R[:, :2].T).copy(),
                                   unit * np.array([s["a"], s["b"]], dtype=float))
    elif k == "box":
        out["Box"] = C.Box(T, unit * np.array([s["a"], s["b"], s["c"]], dtype=float))
    elif k == "hull":
        if cls in (None, "ConvexHullVertices"):
            out["ConvexHullVertices"] = C.ConvexHullVertices(world_vertices(s, unit, R, tw))
        if cls in (None, "MeshGraph"):
            V = np.ascontiguousarray(np.array(s["V"], dtype=float) * unit)
            out["MeshGraph"] = C.MeshGraph(T, V, hull_triangles(s["V"]))
    if cls is not None:
        return {cls: out[cls]}
    return out


def feature_size(s):
    k = s["kind"]
    if k == "hull":
        V = np.array(s["V"], dtype=float)
        return max(1.0, float(np.max(np.linalg.norm(V - V.mean(0), axis=1)) * 2))
    vals = [v for kk, v in s.items() if kk not in ("kind", "name")]
    return float(max(vals))


def scale_L(s, unit, tw):
    return max(1.0, unit * feature_size(s), float(np.linalg.norm(tw)))
