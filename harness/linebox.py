"""Binding of the case-analysis explorer specs/prims/LineBox.tla to distance3d.distance.line_to_box / line_segment_to_box:
TLC model-checks the transcription of Eberly's case analysis for every lattice configuration (point, direction, half sizes) within
the bounds of the cfg file, and the same configurations are replayed on the real functions at a random lattice pose of the box
(24 cube rotations x integer translations); TLC judges each result against the model's KKT-certified minimum."""
import itertools, random, re
from fractions import Fraction
import numpy as np
from . import tlc, trace
from .ratio import ticks

ROT24 = None


def rotations():
    global ROT24
    if ROT24 is None:
        out = []
        for perm in itertools.permutations(range(3)):
            for sg in itertools.product((1, -1), repeat=3):
                R = np.zeros((3, 3))
                for i in range(3):
                    R[i, perm[i]] = sg[i]
                if round(np.linalg.det(R)) == 1:
                    out.append(R)
        ROT24 = out
    return ROT24


def model_check(res, tier):
    jobs = [dict(spec_dir="prims", module="LineBox", cfg="LineBox1.cfg" if tier == "quick" else "LineBox2.cfg", workers=6 if tier == "quick" else 12,
                 heap="3g", tag="linebox", timeout=7200),
            dict(spec_dir="prims", module="LineBox", cfg="LineBox_case0param.cfg", workers=1, heap="1g", tag="linebox_v1"),
            dict(spec_dir="prims", module="LineBox", cfg="LineBox_clipi1.cfg", workers=1, heap="1g", tag="linebox_v2")]
    m, v1, v2 = tlc.run_many(jobs)
    for r in (m, v1, v2):
        res.add_tlc(r)
    if m.invariant_violated:
        res.violation("mc:LineBox", "ModelInvariant", f"TLC: {m.invariant_violated} violated on the line-box case analysis", {"tlc_tail": m.out[-3000:]})
    elif not m.ok:
        res.machinery("TLC LineBox failed:\n" + m.out[-2000:])
    if not v1.invariant_violated or not v2.invariant_violated:
        res.machinery("a slip variant of the line-box case analysis did not violate its invariants (vacuous model)")
    res.coverage["linebox_model_states"] = m.distinct


def point_box_dist(p, E):
    return float(np.linalg.norm(p - np.clip(p, -E, E)))


def records(tier, seed):
    from distance3d import distance as D
    rng = random.Random(seed * 47 + 11)
    dirs = [d for d in itertools.product((-1, 0, 1), repeat=3) if any(d)]
    if tier != "quick":
        dirs += [d for d in itertools.product((-2, -1, 0, 1, 2), repeat=3) if any(d) and max(abs(x) for x in d) == 2][::3]
    pts = list(itertools.product(range(-3, 4), repeat=3))
    boxes = list(itertools.product((1, 2), repeat=3)) + ([(1, 2, 3), (3, 1, 2), (2, 3, 1)] if tier != "quick" else [])
    cfgs = [(P, Dv, E) for E in boxes for Dv in dirs for P in pts]
    if tier == "quick":
        rng.shuffle(cfgs)
        cfgs = cfgs[:14000]
    R24 = rotations()
    recs = []
    for k, (P, Dv, E) in enumerate(cfgs):
        R = R24[rng.randrange(24)]
        t = np.array([rng.randint(-3, 3) for _ in range(3)], dtype=float)
        box2origin = np.eye(4)
        box2origin[:3, :3] = R
        box2origin[:3, 3] = t
        size = 2.0 * np.array(E, dtype=float)
        Pw = R @ np.array(P, dtype=float) + t
        Dw = R @ np.array(Dv, dtype=float)
        fn = "line" if k % 2 == 0 else "seg"
        r = {"id": f"b{k}", "fn": fn, "P": list(P), "D": list(Dv), "E": list(E), "exc": "none", "recon": False, "d2n": 0, "d2d": 1,
             "onTicks": 0, "consTicks": 0}
        try:
            if fn == "line":
                d, pl, pb = D.line_to_box(np.ascontiguousarray(Pw), np.ascontiguousarray(Dw / np.linalg.norm(Dw)), box2origin, size)
            else:
                d, pl, pb = D.line_segment_to_box(np.ascontiguousarray(Pw), np.ascontiguousarray(Pw + Dw), box2origin, size)
            d = float(d); pl = np.asarray(pl, dtype=float); pb = np.asarray(pb, dtype=float)
            fr = Fraction(d * d).limit_denominator(100000)
            if abs(float(fr) - d * d) <= 1e-9 * max(1.0, d * d):
                r["recon"], r["d2n"], r["d2d"] = True, fr.numerator, fr.denominator
            # residuals in the frame of the box
            ql = R.T @ (pl - t); qb = R.T @ (pb - t)
            Pa, Da = np.array(P, dtype=float), np.array(Dv, dtype=float)
            s = float((ql - Pa) @ Da) / float(Da @ Da)
            if fn == "seg":
                s = min(1.0, max(0.0, s))
            off_line = float(np.linalg.norm(ql - (Pa + s * Da)))
            L = max(1.0, float(np.max(np.abs(t))) + 6.0)
            r["onTicks"] = ticks(max(off_line, point_box_dist(qb, np.array(E, dtype=float))), 1e-9 * L / 8)
            r["consTicks"] = ticks(abs(float(np.linalg.norm(pl - pb)) - d), 1e-6 * L / 8)
        except Exception as e:
            r["exc"] = type(e).__name__
        recs.append(r)
    return recs


def run(res, tier, seed, prop):
    """prop: 'C10' judges NoException / PointsOnPrimitives / Consistent, 'C11' judges GlobalMinimum"""
    model_check(res, tier)
    recs = records(tier, seed)
    paths = set()
    rej = trace.judge(recs, "prims", "LineBoxTrace", "LineBoxTrace.cfg", "linebox", res, nshards=14, per_shard=400, collect=paths)
    mine = {"C10": {"NoException", "PointsOnPrimitives", "Consistent"}, "C11": {"GlobalMinimum"}}[prop]
    byid = {r["id"]: r for r in recs}
    for rid, clauses in sorted(rej.items()):
        r = byid[rid]
        if "ORACLE_CertInvalid" in clauses:
            res.machinery(f"LineBox model result fails its own KKT certificate for {r}")
            continue
        hit = clauses & mine
        if hit:
            fn = "line_to_box" if r["fn"] == "line" else "line_segment_to_box"
            res.violation(f"linebox:{fn}:{'+'.join(sorted(hit))}:{r['P']}{r['D']}{r['E']}", "+".join(sorted(hit)),
                          f"{fn} on lattice configuration point {r['P']} direction {r['D']} half sizes {r['E']} (box frame): {r}", {"record": r})
    res.coverage["linebox_configurations_replayed"] = len(recs)
    res.coverage["linebox_branch_labels_replayed"] = len(paths)
