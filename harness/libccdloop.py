"""Binding of the loop explorer specs/c18/GjkLibccd.tla to gjk_intersection_libccd: model checking of the loop model (all first
vertices, all support tie-breaks) and stateful trace validation (GjkLibccdTrace.tla) of real runs on the same lattice scenes,
recorded through a proxy that logs first_vertex() and every support evaluation."""
import json, os, itertools, random
import numpy as np
from . import tlc
from .env import WORK
from .gjkloop import SHAPES, SHAPES_A, SHAPES_B


def model_check(res, tier):
    """the loop model on all scenes; the variant without the 'support point before the origin' exit must exhaust the cap"""
    cfg = "GjkLibccd_1.cfg" if tier == "quick" else "GjkLibccd_3.cfg"
    jobs = [dict(spec_dir="c18", module="GjkLibccdMC", cfg=cfg, workers=6, heap="3g", tag="lccd"),
            dict(spec_dir="c18", module="GjkLibccdMC", cfg="GjkLibccd_nobefore.cfg", workers=2, heap="1g", tag="lccd_nb")]
    m, w = tlc.run_many(jobs)
    res.add_tlc(m)
    if m.invariant_violated:
        res.violation("mc:GjkLibccd", "ModelInvariant", f"TLC: {m.invariant_violated} violated on the libccd GJK loop model", {"tlc_tail": m.out[-3000:]})
    elif not m.ok:
        res.machinery("TLC GjkLibccd failed:\n" + m.out[-2000:])
    res.add_tlc(w)
    if "NeverExhausted" not in w.invariant_violated:
        res.machinery("the libccd loop variant without the before-origin exit did not violate NeverExhausted (vacuous model)")
    res.coverage["libccd_model_states"] = m.distinct


def scenes(tier, rng):
    R = 2 if tier == "quick" else 3
    offs = list(itertools.product(range(-R, R + 1), repeat=3))
    out = [(a, b, t) for a in SHAPES_A for b in SHAPES_B for t in offs]
    rng.shuffle(out)
    return out[:400] if tier == "quick" else out[:4000]


def record(scene_list, rng):
    """run gjk_intersection_libccd on ConvexHullVertices colliders (vertex order shuffled: other first vertices and
    tie-breaks) through recording proxies; returns trace events"""
    from distance3d import colliders as C, gjk
    from . import narrow as NW

    def Rec(inner, log):
        # instance-level tap: the library sees the ConvexHullVertices object itself (see narrow.tap)
        return NW.tap(inner, log, 400, "fs")

    def lat(w):
        wi = [int(round(x)) for x in w]
        return wi if np.allclose(w, wi, atol=1e-9) else [99, 99, 99]
    ev = []
    for k, (a, b, t) in enumerate(scene_list):
        VA, VB = list(SHAPES[a]), list(SHAPES[b])
        rng.shuffle(VA); rng.shuffle(VB)
        A = np.array(VA, dtype=float)
        B = np.array(VB, dtype=float) + np.array(t, dtype=float)
        D = sorted({tuple(int(x) for x in (np.array(p) - np.array(q) - np.array(t))) for p in SHAPES[a] for q in SHAPES[b]})
        sid = f"l{k}"
        log = []
        res = {"ev": "result", "id": sid, "exc": "none", "answer": False}
        try:
            ca, cb = Rec(C.ConvexHullVertices(np.ascontiguousarray(A)), log), Rec(C.ConvexHullVertices(np.ascontiguousarray(B)), log)
            with NW.time_limit(20.0):
                res["answer"] = bool(gjk.gjk_intersection_libccd(ca, cb))
        except Exception as e:
            res["exc"] = type(e).__name__
        firsts = [p for kind, p in log if kind == "f"]
        sups = [p for kind, p in log if kind == "s"]
        w0 = lat(firsts[0] - firsts[1]) if len(firsts) >= 2 else [99, 99, 99]
        ev.append({"ev": "scene", "id": sid, "D": [list(p) for p in D], "w0": w0})
        for j in range(0, len(sups) - 1, 2):
            ev.append({"ev": "iter", "id": f"{sid}.{j // 2}", "w": lat(sups[j] - sups[j + 1])})
        ev.append(res)
    return ev


def validate(res, events, name):
    from .trace import parse_rejects
    os.makedirs(os.path.join(WORK, "traces"), exist_ok=True)
    scenes_ev, cur = [], []
    for e in events:
        if e["ev"] == "scene" and cur:
            scenes_ev.append(cur); cur = []
        cur.append(e)
    if cur:
        scenes_ev.append(cur)
    nsh = max(1, min(12, len(scenes_ev) // 30 + 1))
    paths, counts = [], []
    for sh in range(nsh):
        p = os.path.join(WORK, "traces", f"{name}_{os.getpid()}_{sh}.ndjson")
        n = 0
        with open(p, "w") as fh:
            for sc in scenes_ev[sh::nsh]:
                for e in sc:
                    fh.write(json.dumps(e, separators=(",", ":")) + "\n"); n += 1
            fh.write(json.dumps({"ev": "end", "id": "end", "count": n}) + "\n")
        paths.append(p); counts.append(n + 1)
    outs = tlc.run_many([dict(spec_dir="c18", module="GjkLibccdTrace", cfg="GjkLibccdTrace.cfg", workers=1, env={"TRACE_FILE": p}, heap="1g",
                              timeout=3600, tag=f"{name}_{i}") for i, p in enumerate(paths)])
    rejects = {}
    for r, p, n in zip(outs, paths, counts):
        res.add_tlc(r)
        if not r.ok or "JUDGED" not in r.out:
            i = r.out.find("Error")
            res.machinery(f"GjkLibccdTrace did not consume {p}:\n" + r.out[i:i + 2000])
            continue
        try:
            rejects.update(parse_rejects(r.out))
        except ValueError as e:
            res.machinery(f"{e} for {p}")
        res.coverage["traces_validated_against_impl"] += n
        os.remove(p)
    return rejects


def run(res, tier, seed, mc=True):
    rng = random.Random(seed * 31 + 7)
    if mc:
        model_check(res, tier)
    sl = scenes(tier, rng)
    ev = record(sl, rng)
    rej = validate(res, ev, "libccdloop")
    byid = {e["id"]: e for e in ev}
    sc = {f"l{k}": s for k, s in enumerate(sl)}
    drift = 0
    for sid, clauses in sorted(rej.items()):
        prop = {c for c in clauses if not c.startswith("DRIFT_")}
        if prop:
            res.violation(f"libccdloop:{'+'.join(sorted(prop))}:{sc[sid][0]}-{sc[sid][1]}@{list(sc[sid][2])}", "+".join(sorted(prop)),
                          f"gjk_intersection_libccd on lattice scene {sc[sid]}: {byid[sid]}", {"scene": list(sc[sid]), "result": byid[sid]})
        elif clauses:
            drift += 1
            res.coverage.setdefault("drift_samples", [])
            if len(res.coverage["drift_samples"]) < 5:
                res.coverage["drift_samples"].append({"scene": list(sc[sid]), "clauses": sorted(clauses), "result": byid[sid]})
    res.coverage["drift"] += drift
    res.coverage["libccd_loop_scenes"] = len(sl)
    res.coverage["libccd_loop_iterations"] = sum(1 for e in ev if e["ev"] == "iter")
    res.coverage["libccd_loop_hits"] = sum(1 for e in ev if e["ev"] == "result" and e["answer"])
