"""C20 worker: execute one deterministic call list against the library and serialise every result.
Run twice by harness/props/c20.py: with numba compilation and with NUMBA_DISABLE_JIT=1.

    python -m harness.jitdiff <jit|nojit> <seed> <tier> <outfile>

Every item: {"id", "fn", "cls": closed|iter|discrete, "tol": absolute tolerance of the numeric part,
"in": digest of the arguments, "num": [floats], "disc": json value, "exc": type name, "boundary": bool}"""
import sys, os, json, math, random, hashlib, itertools
import numpy as np


def digest(*arrs):
    h = hashlib.sha256()
    for a in arrs:
        if isinstance(a, np.ndarray):
            h.update(np.ascontiguousarray(a).tobytes())
        else:
            h.update(repr(a).encode())
    return h.hexdigest()[:12]


def flat(out, num, disc):
    """split a result into its numeric and discrete parts (order of traversal is the structure)"""
    if isinstance(out, (bool, np.bool_)):
        disc.append(bool(out))
    elif isinstance(out, (int, np.integer)):
        disc.append(int(out))
    elif isinstance(out, (float, np.floating)):
        num.append(float(out))
    elif out is None:
        disc.append("None")
    elif isinstance(out, str):
        disc.append(out)
    elif isinstance(out, np.ndarray):
        if out.dtype == bool or np.issubdtype(out.dtype, np.integer):
            disc.append(["arr", list(out.shape), [int(x) for x in out.ravel()]])
        else:
            disc.append(["shape", list(out.shape)])
            num.extend(float(x) for x in out.ravel())
    elif isinstance(out, dict):
        for k in sorted(out, key=repr):
            disc.append(repr(k))
            flat(out[k], num, disc)
    elif isinstance(out, (tuple, list)):
        disc.append(["seq", len(out)])
        for o in out:
            flat(o, num, disc)
    else:
        disc.append(type(out).__name__)


class Sink:
    def __init__(self, path):
        self.fh = open(path, "w")
        self.n = 0
        self.prefix = "j"

    def call(self, fn, cls, tol, ins, thunk, boundary=False, post=None, limit=30, zone="none", desc=None):
        from .narrow import time_limit, Hang
        self.n += 1
        rec = {"id": f"{self.prefix}{self.n}", "fn": fn, "cls": cls, "tol": float(tol), "in": digest(*ins), "num": [], "disc": [], "exc": "none",
               "boundary": bool(boundary), "zone": zone}
        if os.environ.get("C20_DUMP") == rec["id"]:
            json.dump({"fn": fn, "ins": [a.tolist() if isinstance(a, np.ndarray) else a for a in ins], "desc": desc},
                      open(os.environ["C20_DUMP_FILE"], "w"))
        try:
            with time_limit(limit):
                out = thunk()
            if post is not None:
                out = post(out)
            flat(out, rec["num"], rec["disc"])
        except Hang:
            rec["exc"] = "Hang"
        except Exception as e:
            rec["exc"] = type(e).__name__
        rec["num"] = [x if math.isfinite(x) else repr(x) for x in rec["num"]]
        self.fh.write(json.dumps(rec, separators=(",", ":")) + "\n")
        self.fh.flush()                      # a compiled call that corrupts memory may abort the process: keep what was recorded
        return rec

    def close(self):
        self.fh.close()


def scale_of(*arrs):
    m = 1.0
    for a in arrs:
        a = np.asarray(a, dtype=float)
        if a.size:
            m = max(m, float(np.max(np.abs(a))))
    return m


# ---------------------------------------------------------------- families
def fam_prims(sink, rng, tier):
    """distance3d.distance: every function on lattice pairs (exactly degenerate relations) and on lifted copies"""
    from distance3d import distance as dd
    from . import prims as PR
    from .props.c10 import make_pair, prim_lift
    from .narrow import to_lattice
    per = 10 if tier == "quick" else 150
    for fname in PR.FUNCTIONS:
        ka, kb = PR.kinds_of(fname)
        f = getattr(dd, fname)
        prevB = None
        for i in range(per):
            A, B, nearpar = make_pair(ka, kb, rng, prevB)
            prevB = B
            for lk in ("id", rng.choice(("scale", "rigid", "rigid1"))):
                lift = prim_lift(rng, A, B, lk)
                args = [np.array(a, dtype=float) if isinstance(a, np.ndarray) else a for a in A.args(lift) + B.args(lift)]
                L = scale_of(*[a for a in args if isinstance(a, np.ndarray)])
                # closest points are not unique for parallel / coincident features: compare the distance, the distance between the
                # returned points and how far each returned point is from its primitive
                def post(out, A=A, B=B, lift=lift, ka=ka):
                    pts = [np.asarray(o, dtype=float) for o in out[1:] if isinstance(o, np.ndarray) and np.shape(o) == (3,)]
                    res = [float(out[0])]
                    owners = [B] if (ka == "point" and len(pts) == 1) else [A, B]
                    if len(pts) == 2:
                        res.append(float(np.linalg.norm(pts[0] - pts[1])))
                    for P, q in zip(owners, pts):
                        res.append(float(P.dist_to(to_lattice(lift, q))) * lift[0])
                    return res + [len(out)]
                # a line (segment) exactly on the axis of a circle before the lift: the library's exact test '!= 0.0' is decided by the
                # rounding of the lift (the decision boundary of C10's known finding line_segment_to_circle:near-axis)
                bnd = False
                if kb == "circle" and ka in ("line", "line_segment") and lk != "id":
                    d0 = np.array(A.p["d"], dtype=float) if ka == "line" else np.array(A.p["b"], dtype=float) - np.array(A.p["a"], dtype=float)
                    x0 = np.array(A.p["x"] if ka == "line" else A.p["a"], dtype=float)
                    nn = np.array(B.p["n"], dtype=float)
                    bnd = not np.cross(d0, nn).any() and not np.cross(x0 - np.array(B.p["c"], dtype=float), nn).any()
                sink.call("distance." + fname, "closed", 1e-9 * L, args, lambda: f(*args), post=post, boundary=bnd,
                          zone="clamped_line_optimum" if fname == "line_segment_to_circle" else "none")
    # the systematic family of exactly parallel / antiparallel / collinear line-like pairs (same line given by two base points
    # included), identity and one rigid lift each: the distance only (closest points are not unique)
    from .props.c10 import parallel_family
    fam = parallel_family()
    if tier == "quick":
        fam = fam[::3]
    for fname, A, B in fam:
        f = getattr(dd, fname)
        for lk in ("id", "rigid1"):
            lift = prim_lift(rng, A, B, lk)
            args = [np.array(a, dtype=float) if isinstance(a, np.ndarray) else a for a in A.args(lift) + B.args(lift)]
            L = scale_of(*[a for a in args if isinstance(a, np.ndarray)])
            sink.call("distance." + fname + "[parallel]", "closed", 1e-9 * L, args, lambda: f(*args), post=lambda out: [float(out[0])])
    # exactly degenerate arguments of the point queries: the point on the axis / in the centre / on the rim
    c = np.array([0.5, -1.0, 2.0]); n = np.array([0.0, 0.0, 1.0])
    for p in (c, c + 2.0 * n, c - 3.0 * n, c + np.array([1.0, 0, 0]), c + np.array([1.0, 0, 1.0])):
        p = np.ascontiguousarray(p)
        sink.call("distance.point_to_disk", "closed", 1e-9, [p, c], lambda: dd.point_to_disk(p, c, 1.0, n))
        sink.call("distance.point_to_circle", "closed", 1e-9, [p, c], lambda: dd.point_to_circle(p, c, 1.0, n), boundary=bool(np.allclose((p - c)[:2], 0)))
        T = np.eye(4); T[:3, 3] = c
        sink.call("distance.point_to_cylinder", "closed", 1e-9, [p, c], lambda: dd.point_to_cylinder(p, T, 1.0, 2.0))
        sink.call("distance.point_to_ellipsoid", "closed", 1e-9, [p, c], lambda: dd.point_to_ellipsoid(p, T, np.array([1.0, 2.0, 3.0])))
        sink.call("distance.point_to_box", "closed", 1e-9, [p, c], lambda: dd.point_to_box(p, T, np.array([2.0, 2.0, 2.0])))
        sink.call("distance.disk_to_disk", "closed", 1e-9, [p, c], lambda: dd.disk_to_disk(p, 0.5, n, c, 1.0, n))


def fam_colliders(sink, rng, tier):
    """support functions, aabb, centre of every collider class: fresh and after update_pose (a caller history)"""
    from . import shapes as S
    from distance3d import colliders as C
    nrot = 2 if tier == "quick" else 10
    dirs = [np.eye(3)[i] * s for i in range(3) for s in (1.0, -1.0)]
    for s in S.catalogue():
        for _ in range(nrot):
            R = S.random_rotation(rng) if rng.random() < 0.7 else np.array(rng.choice(S.CUBE)[0], dtype=float)
            unit = rng.choice((1.0, 0.1, 3.0))
            tw = np.array([rng.uniform(-3, 3) for _ in range(3)])
            for cname, coll in S.build(s, unit, R, tw).items():
                L = max(1.0, unit * S.feature_size(s) + float(np.linalg.norm(tw)))
                ds = dirs + [np.ascontiguousarray(S.random_rotation(rng)[:, 0]) for _ in range(3)]
                for phase in ("fresh", "moved"):
                    if phase == "moved":
                        T = np.eye(4); T[:3, :3] = S.random_rotation(rng); T[:3, 3] = [rng.uniform(-3, 3) for _ in range(3)]
                        T = np.ascontiguousarray(T)
                        sink.call(f"{cname}.update_pose", "discrete", 1.0, [T], lambda: coll.update_pose(T))
                    for d in ds:
                        d = np.ascontiguousarray(d, dtype=float)
                        # the support VALUE is unique, the support point is not (faces orthogonal to d): compare the value
                        sink.call(f"{cname}.support_function[{phase}]", "closed", 1e-9 * L, [d], lambda: coll.support_function(d),
                                  post=lambda p: float(np.dot(p, d)))
                    sink.call(f"{cname}.aabb[{phase}]", "closed", 1e-9 * L, [phase], lambda: coll.aabb())
                    sink.call(f"{cname}.center[{phase}]", "closed", 1e-9 * L, [phase], lambda: coll.center())
                m = C.Margin(coll, 0.25 * unit)
                d = np.ascontiguousarray(ds[-1])
                sink.call(f"Margin({cname}).support_function", "closed", 1e-9 * L, [d], lambda: m.support_function(d), post=lambda p: float(np.dot(p, d)))
                sink.call(f"Margin({cname}).aabb", "closed", 1e-9 * L, [], lambda: m.aabb())


def epa_zone(ca, cb, L):
    """C07's known finding: the distance query that precedes EPA ended with fewer than four simplex points
    (observed like in harness/props/c07.py), the rows handed to EPA are partly uninitialised"""
    from distance3d import gjk
    from . import narrow as NW
    try:
        NW.install_observers()
        NW._OBS["rows"] = 4
        gjk.gjk_distance_jolt(ca, cb, max_distance_squared=float("inf"))
        return "epa_incomplete_simplex" if int(NW._OBS["rows"]) < 4 else "none"
    except Exception:
        return "none"


def fam_narrow(sink, rng, tier):
    """GJK flavours, MPR, EPA on lattice scenes and lifted copies; booleans are compared outside the grazing band"""
    from . import narrow as NW
    from .props.c19 import entry_points
    from fractions import Fraction
    eps = entry_points()
    tol = {"gjk_distance_jolt": 1e-5, "gjk_distance_original": 1e-3, "gjk_nesterov_accelerated": 1e-3, "gjk_nesterov_accelerated[acc]": 1e-3,
           "mpr_penetration": 2e-3, "epa": 1e-6}
    for A, B in NW.gen_scenes(rng, 40 if tier == "quick" else 700):
        lift = NW.random_lift(rng, A, B, rng.choice(("id", "scale", "rigid")))
        L = NW.scene_L(A, B, lift)
        smooth = A.spec["kind"] in ("sphere", "capsule", "cylinder", "cone", "ellipsoid", "disk", "ellipse") or B.spec["kind"] in (
            "sphere", "capsule", "cylinder", "cone", "ellipsoid", "disk", "ellipse") or A.margin or B.margin
        try:
            cert = NW.exact_certificate(A, B)
            gap = NW.true_distance(cert) * lift[0]
            deep = NW.deep_overlap(A, B, cert, 2e-3 * L / lift[0]) if gap == 0 else False
        except Exception:
            gap, deep = 0.0, False
        decided = gap > 2e-3 * L or deep            # away from the grazing band (delta of C02, doubled)
        clsA, clsB = rng.choice(A.classes()), rng.choice(B.classes())
        desc = {"A": A.describe(), "B": B.describe(), "lift": [lift[0], lift[1].tolist(), lift[2].tolist()], "clsA": clsA, "clsB": clsB}
        for fname, (call, _) in eps.items():
            ca, cb = A.build(lift, clsA), B.build(lift, clsB)
            zone = "none"
            if fname == "epa":
                zone = epa_zone(A.build(lift, clsA), B.build(lift, clsB), L)
            if fname in tol:
                # distances / depths: the value (first entry); witness points are not unique
                def post(out, fname=fname):
                    if out is None:
                        return "None"
                    if fname == "epa":
                        return [float(np.linalg.norm(out[0])), bool(out[1])]
                    if fname == "mpr_penetration":
                        return [bool(out[0]), float(out[1]) if out[1] is not None else "None"]
                    return float(out[0])
                # smooth shapes: the iterative solvers stop anywhere inside their tolerance, in both modes
                sink.call("narrow." + fname, "iter", (tol[fname] if not smooth else max(tol[fname], 1e-3)) * L, [fname, clsA, clsB, json.dumps(desc)], lambda: call(ca, cb), post=post,
                          boundary=not decided, zone=zone, desc=desc)
            else:
                sink.call("narrow." + fname, "discrete", 1.0, [fname, clsA, clsB, json.dumps(desc)], lambda: call(ca, cb), boundary=not decided, desc=desc)


def fam_aabbtree(sink, rng, tier):
    """AabbTree histories (integer boxes: every comparison is exact in both modes), empty trees, all_aabbs_overlap"""
    from distance3d.aabb_tree import AabbTree, all_aabbs_overlap
    from .props.c05 import random_histories
    def boxes_arr(bs):
        return np.array(bs, dtype=float).reshape(len(bs), 3, 2)
    probes = [[[0, 2], [0, 2], [0, 2]], [[-10, 10], [-10, 10], [-10, 10]], [[1, 1], [0, 0], [0, 0]], [[50, 51], [50, 51], [50, 51]], [[2, 4], [0, 2], [4, 4]]]
    for hi, h in enumerate(random_histories(30 if tier == "quick" else 500, rng)):
        tree = AabbTree()
        other = AabbTree()
        inserted = []

        def observe():
            for q in probes:
                qa = np.array(q, dtype=float)
                sink.call("AabbTree.overlaps_aabb", "discrete", 1.0, [qa, len(inserted)], lambda: tree.overlaps_aabb(qa),
                          post=lambda o: [bool(o[0]), sorted(int(tree.insert_index_list[int(i)]) if tree.insert_index_list[int(i)] is not None else -9 for i in o[1])])
            sink.call("AabbTree.overlaps_aabb_tree", "discrete", 1.0, [len(inserted)], lambda: tree.overlaps_aabb_tree(other),
                      post=lambda o: [bool(o[0]), sorted(map(int, o[1])), sorted(map(int, o[2])), sorted([int(a), int(b)] for a, b in o[3])])
            if inserted:
                sink.call("AabbTree.get_root_aabb", "closed", 1e-9, [len(inserted)], lambda: tree.get_root_aabb())
        observe()
        for call in h:
            if call["mode"] == "shuffle":
                continue                               # random insertion order: not comparable call by call
            arr = boxes_arr(call["boxes"])
            data = list(call["data"]) if call["data"] else None
            if call["mode"] == "single":
                sink.call("AabbTree.insert_aabb", "discrete", 1.0, [arr], lambda: tree.insert_aabb(arr[0], data[0] if data else None))
            else:
                sink.call("AabbTree.insert_aabbs[" + call["mode"] + "]", "discrete", 1.0, [arr], lambda: tree.insert_aabbs(arr, data, pre_insertion_methode=call["mode"]))
            inserted += call["boxes"]
            if len(inserted) % 2 == 0 and call["boxes"]:
                sink.call("AabbTree.insert_aabbs[other]", "discrete", 1.0, [arr], lambda: other.insert_aabbs(arr))
            observe()
        if inserted:
            a1 = boxes_arr(inserted)
            a2 = boxes_arr(inserted[::-1][:max(1, len(inserted) // 2)])
            sink.call("all_aabbs_overlap", "discrete", 1.0, [a1, a2], lambda: all_aabbs_overlap(a1, a2),
                      post=lambda o: [sorted(map(int, o[0])), sorted(map(int, o[1])), sorted([int(a), int(b)] for a, b in o[2])])
    e = np.zeros((0, 3, 2))
    sink.call("all_aabbs_overlap[empty]", "discrete", 1.0, [e], lambda: all_aabbs_overlap(e, e), post=lambda o: [len(o[0]), len(o[1]), len(o[2])])


def fam_hydro(sink, rng, tier):
    """barycentric transforms, tetrahedron pairs, half-plane intersection, polygon forces, mesh utilities, body queries"""
    from distance3d import hydroelastic_contact as H
    from distance3d.hydroelastic_contact import _halfplanes as HP, _tetrahedron_intersection as TI, _forces as F
    from .props.c15 import gen_pairs
    from .props import c16
    pairs = gen_pairs("quick", rng)
    rng.shuffle(pairs)
    for t1, e1, t2, e2, E1, E2, tag in pairs[:120 if tier == "quick" else 1000]:
        t1, t2 = np.ascontiguousarray(t1, dtype=float), np.ascontiguousarray(t2, dtype=float)
        e1, e2 = np.ascontiguousarray(e1, dtype=float), np.ascontiguousarray(e2, dtype=float)
        L = scale_of(t1, t2)
        r = sink.call("barycentric_transforms", "closed", 1e-9 * max(1.0, 1.0 / max(abs(np.linalg.det(t1[1:] - t1[0])), 1e-12)) * L ** 2, [t1], lambda: H.barycentric_transforms(t1[None])[0])
        try:
            X1 = np.ascontiguousarray(H.barycentric_transforms(t1[None])[0]); X2 = np.ascontiguousarray(H.barycentric_transforms(t2[None])[0])
        except Exception:
            continue
        # lattice pairs: faces through lattice points meet the contact plane in exactly concurrent lines, decisions are exact zeros
        def post(out):
            hit, (plane, poly) = out
            if not hit:
                return [False]
            poly = np.asarray(poly)
            n = np.asarray(plane[:3])
            area = 0.5 * float(np.linalg.norm(sum(np.cross(poly[i] - poly[0], poly[i + 1] - poly[0]) for i in range(1, len(poly) - 1)))) if len(poly) >= 3 else 0.0
            return [True, np.asarray(plane, dtype=float), float(area)]
        sink.call("intersect_tetrahedron_pair[" + tag + "]", "closed", 1e-7 * L ** 2, [t1, t2, e1, e2], lambda: H.intersect_tetrahedron_pair(t1, e1, X1, t2, e2, X2, E1, E2),
                  post=post, boundary=(tag != "float"))
    # half-plane intersection on small integer configurations, incl. none / parallel / unbounded
    pool = [(1, 0), (0, 1), (-1, 0), (0, -1), (1, 1), (-1, 1), (1, -1), (-1, -1), (2, 1), (1, 2)]
    for k in range(40 if tier == "quick" else 600):
        m = rng.choice((0, 1, 2, 3, 4, 5, 6, 8))
        hp = np.zeros((m, 4))
        for i in range(m):
            nx, ny = rng.choice(pool)
            off = rng.choice((1.0, 2.0, 0.5, 3.0))
            nrm = math.hypot(nx, ny)
            # boundary line through p = -n * off (inside is towards the origin), direction = n rotated
            hp[i] = [-nx * off / nrm, -ny * off / nrm, ny, -nx]
        th = rng.uniform(0, 2 * math.pi) if k % 2 else 0.0
        c, s = math.cos(th), math.sin(th)
        Rm = np.array([[c, -s], [s, c]])
        hp2 = np.ascontiguousarray(np.hstack((hp[:, :2] @ Rm.T + (0.3 if k % 2 else 0.0), hp[:, 2:] @ Rm.T)))
        sink.call("intersect_halfplanes", "closed", 1e-9, [hp2], lambda: HP.intersect_halfplanes(hp2),
                  post=lambda P: [int(len(P))] + sorted(round(float(x), 9) for x in np.asarray(P).sum(axis=1)) if k % 2 == 0 else [int(len(P))],
                  boundary=(k % 2 == 1))
    # half-plane sets with repeated boundary lines (coinciding tetrahedron faces produce them): every polygon vertex is then the
    # intersection of several pairs of rows, the number of candidate vertices grows quadratically with the multiplicity
    for k in range(12 if tier == "quick" else 120):
        nl, mult = rng.choice(((3, 3), (4, 2), (4, 3), (3, 4), (5, 2), (4, 4)))
        lines = [(1, 0), (0, 1), (-1, 0), (0, -1), (-1, -1), (1, 1)][:nl] if nl <= 4 else [(1, 0), (0, 1), (-1, 0), (0, -1), (-1, -1)]
        if nl == 3:
            lines = [(1, 0), (0, 1), (-1, -1)]
        rows = []
        for (nx, ny) in lines:
            nrm = math.hypot(nx, ny)
            off = rng.choice((1.0, 2.0))
            rows += [[-nx * off / nrm, -ny * off / nrm, ny, -nx]] * mult
        rng.shuffle(rows)
        hp3 = np.ascontiguousarray(np.array(rows, dtype=float))
        sink.call(f"intersect_halfplanes[{nl}x{mult}]", "closed", 1e-9, [hp3], lambda: HP.intersect_halfplanes(hp3), post=lambda P: [int(len(P))])
    # contact force of ordered polygons with 3 .. 12 vertices (the tesselation table holds 6 triangles)
    tet = np.array([[0.0, 0, 0], [4, 0, 0], [0, 4, 0], [0, 0, 4]])
    eps_ = np.array([0.0, 0.0, 0.0, 1.0])
    plane = np.array([0.0, 0.0, 1.0, 0.5])
    for m in range(3, 13):
        ang = np.linspace(0, 2 * math.pi, m, endpoint=False)
        poly = np.ascontiguousarray(np.column_stack((0.8 + 0.5 * np.cos(ang), 0.8 + 0.5 * np.sin(ang), np.full(m, 0.5))))
        sink.call(f"compute_contact_force[{m}-gon]", "closed", 1e-9, [poly], lambda: F.compute_contact_force(tet, eps_, plane, poly, 2.0))
    # mesh utilities and body level queries
    for kind in c16.KINDS:
        T = c16.rand_pose(rng, np.zeros(3))
        b = c16.make_body(kind, T, 1.0)
        tp = np.ascontiguousarray(b.tetrahedra_points)
        sink.call(f"tetrahedral_mesh_volumes[{kind}]", "closed", 1e-9, [tp], lambda: H.tetrahedral_mesh_volumes(tp))
        sink.call(f"tetrahedral_mesh_aabbs[{kind}]", "closed", 1e-9, [tp], lambda: H.tetrahedral_mesh_aabbs(tp))
        sink.call(f"center_of_mass_tetrahedral_mesh[{kind}]", "closed", 1e-9, [tp], lambda: H.center_of_mass_tetrahedral_mesh(tp))
    for k in range(6 if tier == "quick" else 60):
        k1, k2 = rng.choice(c16.KINDS), rng.choice(c16.KINDS)
        T1, T2 = c16.rand_pose(rng, np.zeros(3)), c16.rand_pose(rng, np.zeros(3))
        for trees in (False, True):
            b1, b2 = c16.make_body(k1, T1, 1.0), c16.make_body(k2, T2, 3.0)
            def q():
                cs = H.find_contact_surface(b1, b2, use_aabb_trees=trees)
                w = F.accumulate_wrenches(cs, b1, b2)
                return [bool(cs.intersection), sorted([int(i), int(j)] for i, j in zip(cs.intersecting_tetrahedra1, cs.intersecting_tetrahedra2)), np.asarray(w[0]), np.asarray(w[1])]
            sink.call(f"find_contact_surface[{k1},{k2},trees={trees}]", "closed", 1e-7, [T1, T2], q)


def fam_utils(sink, rng, tier):
    """utils, geometry, containment tests and AABBs on random and exactly degenerate arguments"""
    from distance3d import utils as U, geometry as G
    from . import shapes as S
    from .props.c13 import predicate
    from .props.c04 import free_function_aabb
    for k in range(25 if tier == "quick" else 400):
        v = np.array([rng.gauss(0, 1) for _ in range(3)]) * rng.choice((1.0, 1e-3, 100.0))
        if k % 7 == 0:
            v = np.zeros(3)
        if k % 7 == 1:
            v = np.eye(3)[k % 3] * rng.choice((-2.0, 1.0))
        w = np.array([rng.gauss(0, 1) for _ in range(3)])
        T = np.eye(4); T[:3, :3] = S.random_rotation(rng); T[:3, 3] = w
        T = np.ascontiguousarray(T)
        P = np.ascontiguousarray(np.array([[rng.gauss(0, 1) for _ in range(3)] for _ in range(rng.choice((0, 1, 5)))], dtype=float).reshape(-1, 3))
        L = scale_of(v, w)
        sink.call("utils.norm_vector", "closed", 1e-9, [v], lambda: U.norm_vector(v))
        sink.call("utils.invert_transform", "closed", 1e-9 * L, [T], lambda: U.invert_transform(T))
        sink.call("utils.transform_point", "closed", 1e-9 * L, [T, v], lambda: U.transform_point(T, v))
        sink.call("utils.transform_points", "closed", 1e-9 * L, [T, P], lambda: U.transform_points(T, P))
        sink.call("utils.transform_directions", "closed", 1e-9 * L, [T, P], lambda: U.transform_directions(T, P))
        sink.call("utils.inverse_transform_point", "closed", 1e-9 * L, [T, v], lambda: U.inverse_transform_point(T, v))
        sink.call("utils.adjoint_from_transform", "closed", 1e-9 * L, [T], lambda: U.adjoint_from_transform(T))
        sink.call("utils.cross_product_matrix", "closed", 1e-9 * L, [v], lambda: U.cross_product_matrix(v))
        sink.call("utils.scalar_triple_product", "closed", 1e-9 * L ** 3, [v, w], lambda: U.scalar_triple_product(v, w, T[:3, 0].copy()))
        # an orthonormal basis of the plane is not unique: compare what it must satisfy
        if np.any(v):
            n = v / np.linalg.norm(v)
            sink.call("utils.plane_basis_from_normal", "closed", 1e-9, [n], lambda: U.plane_basis_from_normal(n),
                      post=lambda xy: [float(np.dot(xy[0], n)), float(np.dot(xy[1], n)), float(np.dot(xy[0], xy[1])), float(np.linalg.norm(xy[0])), float(np.linalg.norm(xy[1])),
                                       np.cross(xy[0], xy[1]) - n])
        sink.call("geometry.barycentric_coordinates_tetrahedron", "closed", 1e-6, [v, T], lambda: G.barycentric_coordinates_tetrahedron(v, np.ascontiguousarray(T[:, :3] + np.eye(4)[:, :3])))
    for s in S.catalogue():
        if s["kind"] in ("disk", "ellipse", "hull"):
            continue
        R = S.random_rotation(rng); tw = np.array([rng.uniform(-2, 2) for _ in range(3)])
        pred = predicate(s, 1.0, R, tw)[0]
        fs = S.feature_size(s)
        # points well inside / well outside by construction (scaled copies of boundary-ish points about the centre)
        Q = []
        for _ in range(12):
            d = S.random_rotation(rng)[:, 0]
            Q.append(tw + d * fs * rng.choice((0.0, 0.05, 3.0, 10.0)))
        Q = np.ascontiguousarray(np.array(Q))
        sink.call(f"containment_test[{s['kind']}]", "discrete", 1.0, [Q], lambda: pred(Q))
        sink.call(f"containment.{s['kind']}_aabb", "closed", 1e-9 * (fs + 3), [R, tw], lambda: free_function_aabb(s, 1.0, R, tw))


def fam_pinned(sink, rng, tier):
    """inputs of the known findings of this property (harness/pinned/c20_calls.json), replayed on every run"""
    from distance3d import distance as dd
    from . import narrow as NW
    from .props.c19 import entry_points
    sink.prefix = "p"
    sink.n = 0
    for item in json.load(open(os.path.join(os.path.dirname(os.path.abspath(__file__)), "pinned", "c20_calls.json"))):
        if item["kind"] == "prim":
            args = [np.ascontiguousarray(a, dtype=float) if isinstance(a, list) else a for a in item["args"]]
            f = getattr(dd, item["fn"])
            sink.call("distance." + item["fn"], "closed", 1e-9, args, lambda: f(*args), post=lambda out: [float(out[0])], zone=item["zone"])
        else:
            sc = item["scene"]
            A = NW.Body(sc["A"]["shape"], sc["A"]["M"], sc["A"]["t"], sc["A"]["margin"])
            B = NW.Body(sc["B"]["shape"], sc["B"]["M"], sc["B"]["t"], sc["B"]["margin"])
            lift = (sc["lift"][0], np.array(sc["lift"][1]), np.array(sc["lift"][2]))
            ca, cb = A.build(lift, sc["clsA"]), B.build(lift, sc["clsB"])
            call = entry_points()["epa"][0]
            sink.call("narrow.epa", "iter", 1e-6, [json.dumps(sc)], lambda: call(ca, cb),
                      post=lambda out: "None" if out is None else [float(np.linalg.norm(out[0])), bool(out[1])],
                      zone=epa_zone(A.build(lift, sc["clsA"]), B.build(lift, sc["clsB"]), 1.0))
    sink.prefix = "j"


FAMILIES = [("pinned", fam_pinned), ("prims", fam_prims), ("colliders", fam_colliders), ("narrow", fam_narrow), ("aabbtree", fam_aabbtree), ("hydro", fam_hydro),
            ("utils", fam_utils)]


def main():
    mode, seed, tier, out = sys.argv[1], int(sys.argv[2]), sys.argv[3], sys.argv[4]
    from . import env
    env.setup(jit=(mode == "jit"))
    import numba
    assert bool(numba.config.DISABLE_JIT) == (mode != "jit"), "numba mode does not match the request"
    only = sys.argv[5].split(",") if len(sys.argv) > 5 else None
    sink = Sink(out)
    for name, fam in FAMILIES:
        if only and name not in only:
            continue
        rng = random.Random(f"{seed}:{name}")
        np.random.seed(seed % (2 ** 31))
        fam(sink, rng, tier)
    sink.close()


if __name__ == "__main__":
    main()
