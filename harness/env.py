"""Process environment for every harness run: numba cache outside /repo, open3d stub,
the library imported from /repo's working tree (editable install)."""
import os, sys, types

VERIF = os.path.dirname(os.path.dirname(os.path.abspath(__file__)))
REPO = os.environ.get("VERIF_REPO", "/repo")
CACHE = os.path.join(VERIF, ".cache")
WORK = os.path.join(VERIF, "work")
GUARD = "DISTANCE3D_VERIF"


def source_hash():
    """hash of the library sources under REPO: numba's on-disk cache is keyed per file, so a cached caller in one file can keep
    the old code of a changed callee in another file; a cache directory per source state rules that out"""
    import hashlib
    h = hashlib.sha256()
    root = os.path.join(REPO, "distance3d")
    for d, dirs, files in sorted(os.walk(root)):
        dirs.sort()
        if "__pycache__" in d:
            continue
        for f in sorted(files):
            if f.endswith(".py"):
                h.update(os.path.relpath(os.path.join(d, f), root).encode())
                h.update(open(os.path.join(d, f), "rb").read())
    return h.hexdigest()[:12]


def cache_dir(jit=True):
    d = os.path.join(CACHE, ("numba_" if jit else "numba_nojit_") + source_hash())
    if not os.path.isdir(d):
        os.makedirs(d, exist_ok=True)
        # keep the cache directories of the few most recent source states only
        olds = sorted((x for x in os.listdir(CACHE) if x.startswith("numba_") and os.path.join(CACHE, x) != d),
                      key=lambda x: os.path.getmtime(os.path.join(CACHE, x)))
        import shutil
        for x in olds[:-4]:
            shutil.rmtree(os.path.join(CACHE, x), ignore_errors=True)
    return d


def setup(jit=True):
    os.makedirs(CACHE, exist_ok=True)
    os.environ.setdefault("NUMBA_CACHE_DIR", cache_dir(jit))
    os.environ[GUARD] = "1"
    if not jit:
        os.environ["NUMBA_DISABLE_JIT"] = "1"
    os.makedirs(os.environ["NUMBA_CACHE_DIR"], exist_ok=True)
    os.makedirs(WORK, exist_ok=True)
    if REPO not in sys.path:
        sys.path.insert(0, REPO)
    if "open3d" not in sys.modules:
        # open3d cannot load in this sandbox (libusb missing); visualisation is never called
        sys.modules["open3d"] = types.ModuleType("open3d")
    import numpy as np  # noqa
    import warnings
    warnings.filterwarnings("ignore")
    np.seterr(all="ignore")


def seed():
    try:
        return int(os.environ.get("VERIF_SEED", "0"))
    except ValueError:
        return 0
