"""Process environment for every harness run: numba cache outside /repo, open3d stub,
the library imported from /repo's working tree (editable install)."""
import os, sys, types

VERIF = os.path.dirname(os.path.dirname(os.path.abspath(__file__)))
REPO = os.environ.get("VERIF_REPO", "/repo")
CACHE = os.path.join(VERIF, ".cache")
WORK = os.path.join(VERIF, "work")
GUARD = "DISTANCE3D_VERIF"


def setup(jit=True):
    os.environ.setdefault("NUMBA_CACHE_DIR", os.path.join(CACHE, "numba" if jit else "numba_nojit"))
    os.environ[GUARD] = "1"
    if not jit:
        os.environ["NUMBA_DISABLE_JIT"] = "1"
    os.makedirs(os.environ["NUMBA_CACHE_DIR"], exist_ok=True)
    os.makedirs(WORK, exist_ok=True)
    if REPO not in sys.path:
        sys.path.insert(0, REPO)
    if "open3d" not in sys.modules:
        # open3d cannot load in this sandbox (libusb missing); visualisation is never called
        sys.modules["open3d"] = types.ModuleType("open3d")
    import numpy as np  # noqa
    import warnings
    warnings.filterwarnings("ignore")
    np.seterr(all="ignore")


def seed():
    try:
        return int(os.environ.get("VERIF_SEED", "0"))
    except ValueError:
        return 0
