"""Rational reconstruction of floats (harness side measuring instrument)."""
from fractions import Fraction
from math import gcd, isfinite


def recon_vec(v, maxden, tol):
    """Return (ok, xn(list int), xd) with |v - xn/xd|_inf <= tol, xd <= maxden, else (False, [0,0,0], 1)."""
    fr = []
    for c in v:
        c = float(c)
        if not isfinite(c):
            return False, [0] * len(v), 1
        f = Fraction(c).limit_denominator(maxden)
        if abs(float(f) - c) > tol:
            return False, [0] * len(v), 1
        fr.append(f)
    d = 1
    for f in fr:
        d = d * f.denominator // gcd(d, f.denominator)
    if d > maxden:
        return False, [0] * len(v), 1
    return True, [int(f * d) for f in fr], d


def ticks(residual, tick):
    """quantise a non-negative residual to integer ticks (ceil), saturating at 10**6"""
    import math
    if not isfinite(residual):
        return 10 ** 6
    if tick <= 0:
        return 0 if residual == 0 else 10 ** 6
    t = residual / tick
    if t >= 1e6:
        return 10 ** 6
    return int(math.ceil(t - 1e-12)) if t > 0 else 0
