"""Verdict bookkeeping: violations, known findings, evidence files, replay files."""
import json, os, time, hashlib
from .env import VERIF

KF_FILE = os.path.join(VERIF, "known_findings.json")


def load_known():
    if not os.path.exists(KF_FILE):
        return []
    return json.load(open(KF_FILE)).get("findings", [])


def chash(obj):
    return hashlib.sha256(json.dumps(obj, sort_keys=True, default=str).encode()).hexdigest()[:12]


class Result:
    def __init__(self, pid, tier, seed, level="model_checking"):
        self.pid, self.tier, self.seed, self.level = pid, tier, seed, level
        self.t0 = time.time()
        self.violations = []      # dicts: key, clause, what, replay(data)
        self.coverage = {"states": 0, "transitions": 0, "traces_validated_against_impl": 0,
                         "samples": [], "evaluations": 0, "distinct_nontrivial": 0, "rule": "",
                         "not_judged": 0, "drift": 0}
        self.assumptions = []
        self.notes = []
        self.machinery_errors = []

    def add_tlc(self, r):
        self.coverage["states"] += r.distinct
        self.coverage["transitions"] += r.generated

    def violation(self, key, clause, what, replay):
        self.violations.append({"key": key, "clause": clause, "what": what, "replay": replay})

    def machinery(self, msg):
        self.machinery_errors.append(msg)

    def finish(self):
        """Write evidence, print verdict lines, return exit code."""
        known = load_known()
        unlisted, listed = [], {}
        for v in self.violations:
            hit = None
            for k in known:
                if k["property"] != self.pid:
                    continue
                if k.get("prefix"):
                    if v["key"].startswith(k["key"]):
                        hit = k
                elif v["key"] == k["key"]:
                    hit = k
                if hit:
                    break
            if hit:
                listed.setdefault(hit["key"], [hit, 0])[1] += 1
            else:
                unlisted.append(v)
        for key, (k, n) in listed.items():
            print(f"KNOWN-FINDING: property={self.pid} {k['what']} [key={key}, {n} occurrence(s) this run]")
        rdir = os.path.join(VERIF, "evidence", "replays", self.pid)
        if os.path.isdir(rdir):        # replay files always describe the latest run only
            for f in os.listdir(rdir):
                if f.endswith(".json"):
                    os.remove(os.path.join(rdir, f))
        seen = set()
        for v in unlisted:
            if v["key"] in seen:
                continue
            seen.add(v["key"])
            os.makedirs(rdir, exist_ok=True)
            path = os.path.join(rdir, chash(v["key"]) + ".json")
            json.dump({"property": self.pid, **v}, open(path, "w"), indent=1, default=str)
            if len(seen) <= 20:
                print(f"VIOLATION property={self.pid} replay={path}")
                print(f"  clause={v['clause']} {v['what']}"[:400])
        cov = dict(self.coverage)
        cov["samples"] = cov["samples"][:8] or ["(none)"]
        cov["known_findings_matched"] = {k: n for k, (_, n) in listed.items()}
        cov["notes"] = self.notes
        ev = {"property_id": self.pid, "tier": self.tier, "seed": self.seed, "level": self.level,
              "coverage": cov, "assumptions": self.assumptions,
              "wall_s": round(time.time() - self.t0, 2), "violations": len(seen)}
        os.makedirs(os.path.join(VERIF, "evidence"), exist_ok=True)
        json.dump(ev, open(os.path.join(VERIF, "evidence", self.pid + ".json"), "w"), indent=1, default=str)
        if self.machinery_errors:
            for m in self.machinery_errors[:10]:
                print("MACHINERY-ERROR:", m[:2000])
            return 2
        if unlisted:
            return 1
        print(f"OK property={self.pid} tier={self.tier} states={cov['states']} "
              f"traces={cov['traces_validated_against_impl']} evaluations={cov['evaluations']} "
              f"wall={ev['wall_s']}s")
        return 0
