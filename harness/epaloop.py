"""Binding of the composite explorer GjkEpa.tla to gjk_distance_jolt + epa.epa: model checking and stateful trace
validation (GjkEpaTrace.tla) of real runs recorded through a proxy that logs the direction and result of every
support evaluation."""
import json, os, itertools, random, math
from fractions import Fraction
import numpy as np
from . import tlc
from .env import WORK

SHAPES = {   # the vertex sequences of GjkEpaMC.tla (order matters: support ties go to the first maximal vertex)
    "point": [(0, 0, 0)], "seg": [(0, 0, 0), (2, 0, 0)], "sq": [(-1, -1, 0), (1, -1, 0), (1, 1, 0), (-1, 1, 0)],
    "tet": [(0, 0, 0), (2, 0, 0), (0, 2, 0), (0, 0, 2)],
    "cube": [(-1, -1, -1), (-1, -1, 1), (-1, 1, -1), (-1, 1, 1), (1, -1, -1), (1, -1, 1), (1, 1, -1), (1, 1, 1)],
    "octa": [(2, 0, 0), (-2, 0, 0), (0, 2, 0), (0, -2, 0), (0, 0, 1), (0, 0, -1)],
    "wedge": [(0, 0, 0), (2, 0, 0), (0, 2, 0), (0, 0, 1), (2, 0, 1), (0, 2, 1)],
    "tet2": [(0, 0, 2), (0, 2, 0), (2, 0, 0), (0, 0, 0)],
    "cube2": [(1, 1, 1), (-1, 1, 1), (1, -1, 1), (1, 1, -1), (-1, -1, 1), (-1, 1, -1), (1, -1, -1), (-1, -1, -1)]}
SHAPES_A = ("tet", "cube", "octa", "wedge", "tet2", "cube2")
SHAPES_B = ("point", "seg", "sq", "tet", "tet2")


def model_check(res):
    """TLC on the GJK+EPA model.  Since the repair 18911a2 (the start tetrahedron is oriented before its faces are built) the
    design terminates with the exact penetration depth for EVERY closest-face tie-breaking (GjkEpa_any.cfg), for first-index
    ties (GjkEpa.cfg) and also with a real vertex swap in fix_ccw_normal_direction (GjkEpa_correctswap.cfg).  The design as found
    (GjkEpa_noorient.cfg: faces from the simplex rows as GJK left them) must violate EpaTerminates - the vacuity guard, and the
    design-level form of the defect."""
    jobs = [dict(spec_dir="c18", module="GjkEpaMC", cfg="GjkEpa_any.cfg", workers=6, heap="3g", tag="gjkepa_any"),
            dict(spec_dir="c18", module="GjkEpaMC", cfg="GjkEpa.cfg", workers=3, heap="2g", tag="gjkepa_first"),
            dict(spec_dir="c18", module="GjkEpaMC", cfg="GjkEpa_correctswap.cfg", workers=3, heap="2g", tag="gjkepa_swap"),
            dict(spec_dir="c18", module="GjkEpaMC", cfg="GjkEpa_noorient.cfg", workers=3, heap="2g", tag="gjkepa_noorient")]
    r, first, swap, noor = tlc.run_many(jobs)
    for name, x in (("GjkEpa_any", r), ("GjkEpa", first)):
        res.add_tlc(x)
        if x.invariant_violated:
            res.violation(f"mc:{name}", "ModelInvariant", f"TLC: {x.invariant_violated} violated on the GJK+EPA model ({name}.cfg)", {"tlc_tail": x.out[-3000:]})
        elif not x.ok:
            res.machinery(f"TLC {name} failed:\n" + x.out[-2000:])
    res.add_tlc(swap); res.add_tlc(noor)
    res.coverage["epa_model_corrected_swap"] = "violates " + ",".join(swap.invariant_violated) if swap.invariant_violated else ("holds" if swap.ok else "error")
    res.coverage["epa_model_start_not_oriented"] = "violates " + ",".join(noor.invariant_violated) if noor.invariant_violated else ("holds" if noor.ok else "error")
    if "EpaTerminates" not in noor.invariant_violated:
        res.machinery("the GJK+EPA model without the orientation of the start tetrahedron did not violate EpaTerminates (vacuous model)")


def prim(d):
    """a float direction as a primitive integer vector, or None"""
    d = np.asarray(d, dtype=float)
    m = float(np.max(np.abs(d)))
    if m == 0:
        return None
    for k in range(1, 200):
        v = d / m * k
        r = np.round(v)
        if np.allclose(v, r, atol=1e-7):
            r = [int(x) for x in r]
            g = math.gcd(math.gcd(abs(r[0]), abs(r[1])), abs(r[2]))
            return [x // g for x in r]
    return None


def record(scene_list, rng):
    from distance3d import colliders as C, gjk, epa
    from . import narrow as NW

    def Rec(inner, log):
        # instance-level tap: the library sees the ConvexHullVertices object itself (see narrow.tap)
        return NW.tap(inner, log, 600, "dp")

    def points(log):
        out = []
        for j in range(0, len(log) - 1, 2):
            w = log[j][1] - log[j + 1][1]
            wi = [int(round(x)) for x in w]
            out.append((log[j][0], wi if np.allclose(w, wi, atol=1e-9) else [99, 99, 99]))
        return out
    ev = []
    NW.install_observers()
    for k, (a, b, t, m) in enumerate(scene_list):
        A = [[m * c for c in p] for p in SHAPES[a]]
        B = [[m * p[i] + t[i] for i in range(3)] for p in SHAPES[b]]
        sid = f"e{k}"
        ev.append({"ev": "scene", "id": sid, "A": A, "B": B})
        log = []
        ca = Rec(C.ConvexHullVertices(np.ascontiguousarray(np.array(A, dtype=float))), log)
        cb = Rec(C.ConvexHullVertices(np.ascontiguousarray(np.array(B, dtype=float))), log)
        end = {"ev": "gjkend", "id": sid + ".g", "rows": 0, "exc": "none", "hit": False}
        try:
            NW._OBS["rows"] = 4
            with NW.time_limit(20.0):
                d, p, q, Y = gjk.gjk_distance_jolt(ca, cb, max_distance_squared=float("inf"))
            end["rows"], end["hit"] = int(NW._OBS["rows"]), bool(d == 0.0)
        except Exception as e:
            end["exc"] = type(e).__name__
        for j, (_, w) in enumerate(points(log)):
            ev.append({"ev": "iter", "id": f"{sid}.{j}", "w": w})
        ev.append(end)
        if end["exc"] != "none" or not end["hit"]:
            continue
        del log[:]
        r = {"ev": "eresult", "id": sid + ".r", "exc": "none", "ok": False, "recon": False, "m2n": 0, "m2d": 1, "faces": 0}
        try:
            with NW.time_limit(20.0):
                mtv, faces, ok = epa.epa(Y, ca, cb)
            r["ok"], r["faces"] = bool(ok), int(len(faces))
            m2 = float(np.dot(mtv, mtv))
            fr = Fraction(m2).limit_denominator(4000)
            if abs(float(fr) - m2) <= 1e-9 * max(1.0, m2):
                r["recon"], r["m2n"], r["m2d"] = True, fr.numerator, fr.denominator
        except Exception as e:
            r["exc"] = type(e).__name__
        for j, (dvec, w) in enumerate(points(log)):
            n = prim(dvec)
            ev.append({"ev": "eiter", "id": f"{sid}.e{j}", "n": n if n is not None else [0, 0, 0], "w": w})
        ev.append(r)
    return ev


def run(res, tier, seed):
    from .gjkloop import validate as _unused   # noqa (same sharding helper below)
    rng = random.Random(seed * 23 + 7)
    model_check(res)
    offs = list(itertools.product((-1, 0, 1), repeat=3))
    odd = list(itertools.product((-3, -1, 1, 3), (-1, 1), (-3, -1, 1)))
    sl = [(a, b, t, 1) for a in SHAPES_A for b in SHAPES_B for t in offs] + [(a, b, t, 2) for a in SHAPES_A for b in SHAPES_B for t in odd]
    if tier == "quick":
        rng.shuffle(sl)
        sl = sl[:400]
    ev = record(sl, rng)
    rej = validate(res, ev, "gjkepa")
    byid = {e["id"]: e for e in ev}
    sc = {f"e{k}": s for k, s in enumerate(sl)}
    drift = 0
    for rid, clauses in sorted(rej.items()):
        sid = rid.split(".")[0]
        prop = {c for c in clauses if not c.startswith("DRIFT_")}
        if prop:
            res.violation(f"gjkepa:{'+'.join(sorted(prop))}:{sc[sid][0]}-{sc[sid][1]}@{list(sc[sid][2])}x{sc[sid][3]}", "+".join(sorted(prop)),
                          f"gjk_distance_jolt + epa on {sc[sid]}: {byid[rid]} (the model's exact penetration depth differs)", {"scene": list(sc[sid]), "result": byid[rid]})
        elif clauses:
            drift += 1
            res.coverage.setdefault("drift_samples", [])
            if len(res.coverage["drift_samples"]) < 5:
                res.coverage["drift_samples"].append({"scene": list(sc[sid]), "clauses": sorted(clauses), "result": byid[rid]})
    res.coverage["drift"] += drift
    res.coverage["epa_loop_scenes"] = len(sl)
    res.coverage["epa_runs_validated"] = sum(1 for e in ev if e["ev"] == "eresult")
    res.coverage["epa_iterations"] = sum(1 for e in ev if e["ev"] == "eiter")
    res.coverage["epa_runs_with_full_simplex"] = sum(1 for e in ev if e["ev"] == "gjkend" and e["hit"] and e["rows"] == 4)


def validate(res, events, name):
    from .trace import parse_rejects
    os.makedirs(os.path.join(WORK, "traces"), exist_ok=True)
    scenes_ev, cur = [], []
    for e in events:
        if e["ev"] == "scene" and cur:
            scenes_ev.append(cur); cur = []
        cur.append(e)
    if cur:
        scenes_ev.append(cur)
    nsh = max(1, min(12, len(scenes_ev) // 40 + 1))
    paths, counts = [], []
    for sh in range(nsh):
        p = os.path.join(WORK, "traces", f"{name}_{os.getpid()}_{sh}.ndjson")
        n = 0
        with open(p, "w") as fh:
            for s in scenes_ev[sh::nsh]:
                for e in s:
                    fh.write(json.dumps(e, separators=(",", ":")) + "\n"); n += 1
            fh.write(json.dumps({"ev": "end", "id": "end", "count": n}) + "\n")
        paths.append(p); counts.append(n + 1)
    outs = tlc.run_many([dict(spec_dir="c18", module="GjkEpaTrace", cfg="GjkEpaTrace.cfg", workers=1, env={"TRACE_FILE": p}, heap="1g",
                              timeout=3600, tag=f"{name}_{i}") for i, p in enumerate(paths)])
    rejects = {}
    for r, p, n in zip(outs, paths, counts):
        res.add_tlc(r)
        if not r.ok or "JUDGED" not in r.out:
            i = r.out.find("Error")
            res.machinery(f"GjkEpaTrace did not consume {p}:\n" + r.out[i:i + 2000])
            continue
        try:
            rejects.update(parse_rejects(r.out))
        except ValueError as e:
            res.machinery(f"{e} for {p}")
        res.coverage["traces_validated_against_impl"] += n
        os.remove(p)
    return rejects
