"""Binding of the GJK loop explorer (specs/c18/GjkJolt.tla) to gjk_distance_jolt: model checking of the loop model and
stateful trace validation (GjkJoltTrace.tla) of real runs on the same lattice scenes, recorded through a proxy that logs
every support evaluation."""
import json, os, itertools, random
from fractions import Fraction
import numpy as np
from . import tlc
from .env import WORK

SHAPES = {   # the shapes of GjkJoltMC.tla
    "point": [(0, 0, 0)], "seg": [(0, 0, 0), (2, 0, 0)], "tri": [(0, 0, 0), (2, 0, 0), (0, 2, 0)],
    "sq": [(-1, -1, 0), (1, -1, 0), (1, 1, 0), (-1, 1, 0)], "tet": [(0, 0, 0), (2, 0, 0), (0, 2, 0), (0, 0, 2)],
    "cube": [(x, y, z) for x in (-1, 1) for y in (-1, 1) for z in (-1, 1)],
    "octa": [(2, 0, 0), (-2, 0, 0), (0, 2, 0), (0, -2, 0), (0, 0, 1), (0, 0, -1)]}
SHAPES_A = ("point", "seg", "tri", "sq", "tet", "cube", "octa")
SHAPES_B = ("point", "seg", "sq", "tet", "cube")


def model_check(res, tier):
    """the loop model for both loops on all scenes (all tie-breaking choices); the weakened variant must fail"""
    sfx = "1" if tier == "quick" else ""
    jobs = [dict(spec_dir="c18", module="GjkJoltMC", cfg=f"GjkJolt_distance{sfx}.cfg", workers=6, heap="3g", tag="gjk_d"),
            dict(spec_dir="c18", module="GjkJoltMC", cfg=f"GjkJolt_intersection{sfx}.cfg", workers=6, heap="3g", tag="gjk_i"),
            dict(spec_dir="c18", module="GjkJoltMC", cfg="GjkJolt_weak.cfg", workers=4, heap="2g", tag="gjk_w")]
    d, i, w = tlc.run_many(jobs)
    for r, name in ((d, "distance"), (i, "intersection")):
        res.add_tlc(r)
        if r.invariant_violated:
            res.violation(f"mc:GjkJolt:{name}", "ModelInvariant", f"TLC: {r.invariant_violated} violated on the {name} loop model", {"tlc_tail": r.out[-3000:]})
        elif not r.ok:
            res.machinery(f"TLC GjkJolt ({name}) failed:\n" + r.out[-2000:])
    res.add_tlc(w)
    if "Terminates" not in w.invariant_violated:
        res.machinery("the weakened GJK loop variant did not violate Terminates (vacuous model)")


def scenes(tier, rng):
    R = 1 if tier == "quick" else 2
    offs = list(itertools.product(range(-R, R + 1), repeat=3))
    out = [(a, b, t) for a in SHAPES_A for b in SHAPES_B for t in offs]
    if tier == "quick":
        rng.shuffle(out)
        out = out[:500]
    return out


def record(scene_list):
    """run gjk_distance_jolt on ConvexHullVertices colliders through recording proxies; returns trace events"""
    from distance3d import colliders as C, gjk
    from . import narrow as NW
    from .ratio import recon_vec

    def Rec(inner, log):
        # instance-level tap: the library sees the ConvexHullVertices object itself (see narrow.tap)
        return NW.tap(inner, log, 400, "p")
    ev = []
    NW.install_observers()
    for k, (a, b, t) in enumerate(scene_list):
        A = np.array(SHAPES[a], dtype=float)
        B = np.array(SHAPES[b], dtype=float) + np.array(t, dtype=float)
        D = sorted({tuple(int(x) for x in (np.array(p) - np.array(q) - np.array(t))) for p in SHAPES[a] for q in SHAPES[b]})
        sid = f"g{k}"
        ev.append({"ev": "scene", "id": sid, "D": [list(p) for p in D]})
        log = []
        res = {"ev": "result", "id": sid, "exc": "none", "recon": False, "d2n": 0, "d2d": 1, "rows": 0}
        try:
            ca, cb = Rec(C.ConvexHullVertices(np.ascontiguousarray(A)), log), Rec(C.ConvexHullVertices(np.ascontiguousarray(B)), log)
            NW._OBS["rows"] = 4
            with NW.time_limit(20.0):
                out = gjk.gjk_distance_jolt(ca, cb, max_distance_squared=float("inf"))
            d = float(out[0])
            res["rows"] = int(NW._OBS["rows"])
            # the squared distance of lattice polytopes is a rational with a small denominator
            fr = Fraction(d * d).limit_denominator(4000)
            if abs(float(fr) - d * d) <= 1e-9 * max(1.0, d * d):
                res["recon"], res["d2n"], res["d2d"] = True, fr.numerator, fr.denominator
        except Exception as e:
            res["exc"] = type(e).__name__
        for j in range(0, len(log) - 1, 2):
            w = log[j] - log[j + 1]
            wi = [int(round(x)) for x in w]
            ev.append({"ev": "iter", "id": f"{sid}.{j // 2}", "w": wi if np.allclose(w, wi, atol=1e-9) else [99, 99, 99]})
        ev.append(res)
    return ev


def validate(res, events, name):
    """GjkJoltTrace over the recorded events; returns {scene id: clauses}"""
    from .trace import parse_rejects
    os.makedirs(os.path.join(WORK, "traces"), exist_ok=True)
    # split by scene into shards
    scenes_ev, cur = [], []
    for e in events:
        if e["ev"] == "scene" and cur:
            scenes_ev.append(cur); cur = []
        cur.append(e)
    if cur:
        scenes_ev.append(cur)
    nsh = max(1, min(12, len(scenes_ev) // 40 + 1))
    paths, counts = [], []
    for sh in range(nsh):
        p = os.path.join(WORK, "traces", f"{name}_{os.getpid()}_{sh}.ndjson")
        n = 0
        with open(p, "w") as fh:
            for sc in scenes_ev[sh::nsh]:
                for e in sc:
                    fh.write(json.dumps(e, separators=(",", ":")) + "\n"); n += 1
            fh.write(json.dumps({"ev": "end", "id": "end", "count": n}) + "\n")
        paths.append(p); counts.append(n + 1)
    outs = tlc.run_many([dict(spec_dir="c18", module="GjkJoltTrace", cfg="GjkJoltTrace.cfg", workers=1, env={"TRACE_FILE": p}, heap="1g",
                              timeout=3600, tag=f"{name}_{i}") for i, p in enumerate(paths)])
    rejects = {}
    for r, p, n in zip(outs, paths, counts):
        res.add_tlc(r)
        if not r.ok or "JUDGED" not in r.out:
            i = r.out.find("Error")
            res.machinery(f"GjkJoltTrace did not consume {p}:\n" + r.out[i:i + 2000])
            continue
        try:
            rejects.update(parse_rejects(r.out))
        except ValueError as e:
            res.machinery(f"{e} for {p}")
        res.coverage["traces_validated_against_impl"] += n
        os.remove(p)
    return rejects


def run(res, tier, seed):
    rng = random.Random(seed * 17 + 3)
    model_check(res, tier)
    sl = scenes(tier, rng)
    ev = record(sl)
    rej = validate(res, ev, "gjkloop")
    byid = {e["id"]: e for e in ev}
    sc = {f"g{k}": s for k, s in enumerate(sl)}
    drift = 0
    for sid, clauses in sorted(rej.items()):
        prop = {c for c in clauses if not c.startswith("DRIFT_")}
        if prop:
            res.violation(f"gjkloop:{'+'.join(sorted(prop))}:{sc[sid][0]}-{sc[sid][1]}@{list(sc[sid][2])}", "+".join(sorted(prop)),
                          f"gjk_distance_jolt on {sc[sid]}: {byid[sid]} (model result differs)", {"scene": list(sc[sid]), "result": byid[sid]})
        elif clauses:
            drift += 1
            res.coverage.setdefault("drift_samples", [])
            if len(res.coverage["drift_samples"]) < 5:
                res.coverage["drift_samples"].append({"scene": list(sc[sid]), "clauses": sorted(clauses), "result": byid[sid]})
    res.coverage["drift"] += drift
    res.coverage["gjk_loop_scenes"] = len(sl)
    res.coverage["gjk_loop_iterations"] = sum(1 for e in ev if e["ev"] == "iter")
