"""Binding of the case-analysis explorer specs/prims/SegSeg.tla to distance3d.distance.line_segment_to_line_segment: TLC model-checks
the transcription for every pair of lattice segments in the cube (-K..K)^3, and every one of those configurations is replayed on
the real function (at a random lattice translation, both argument orders); TLC judges each result against the exact minimum."""
import itertools, random
from fractions import Fraction
import numpy as np
from . import tlc, trace
from .ratio import ticks


def model_check(res, tier):
    jobs = [dict(spec_dir="prims", module="SegSeg", cfg="SegSeg1.cfg" if tier == "quick" else "SegSeg2.cfg", workers=6, heap="3g", tag="segseg"),
            dict(spec_dir="prims", module="SegSeg", cfg="SegSeg_noreclamp.cfg", workers=1, heap="1g", tag="segseg_nr")]
    m, w = tlc.run_many(jobs)
    res.add_tlc(m); res.add_tlc(w)
    if m.invariant_violated:
        res.violation("mc:SegSeg", "ModelInvariant", f"TLC: {m.invariant_violated} violated on the segment-segment case analysis", {"tlc_tail": m.out[-3000:]})
    elif not m.ok:
        res.machinery("TLC SegSeg failed:\n" + m.out[-2000:])
    if "GlobalMinimum" not in w.invariant_violated:
        res.machinery("the segment-segment variant without re-clamping did not violate GlobalMinimum (vacuous model)")
    res.coverage["segseg_model_states"] = m.distinct


def records(tier, seed):
    from distance3d import distance as D
    rng = random.Random(seed * 41 + 3)
    pts = list(itertools.product((-1, 0, 1), repeat=3))
    cfgs = [(a2, b1, b2) for a2 in pts for b1 in pts for b2 in pts]
    if tier == "quick":
        rng.shuffle(cfgs)
        cfgs = cfgs[:6000]
    recs = []
    for k, (a2, b1, b2) in enumerate(cfgs):
        t = np.array([rng.randint(-3, 3) for _ in range(3)], dtype=float)
        A1, A2, B1, B2 = t + 0.0, t + np.array(a2, dtype=float), t + np.array(b1, dtype=float), t + np.array(b2, dtype=float)
        swap = rng.random() < 0.5
        r = {"id": f"g{k}", "a1": [int(x) for x in t], "a2": [int(x) for x in A2], "b1": [int(x) for x in B1], "b2": [int(x) for x in B2],
             "exc": "none", "recon": False, "d2n": 0, "d2d": 1, "onTicks": 0, "consTicks": 0}
        try:
            if swap:
                d, p2, p1 = D.line_segment_to_line_segment(np.ascontiguousarray(B1), np.ascontiguousarray(B2), np.ascontiguousarray(A1), np.ascontiguousarray(A2))
            else:
                d, p1, p2 = D.line_segment_to_line_segment(np.ascontiguousarray(A1), np.ascontiguousarray(A2), np.ascontiguousarray(B1), np.ascontiguousarray(B2))
            d = float(d); p1 = np.asarray(p1, dtype=float); p2 = np.asarray(p2, dtype=float)
            fr = Fraction(d * d).limit_denominator(100000)
            if abs(float(fr) - d * d) <= 1e-9 * max(1.0, d * d):
                r["recon"], r["d2n"], r["d2d"] = True, fr.numerator, fr.denominator

            def off(p, u, v):
                w = v - u
                tt = 0.0 if not w.any() else min(1.0, max(0.0, float((p - u) @ w) / float(w @ w)))
                return float(np.linalg.norm(p - (u + tt * w)))
            L = max(1.0, float(np.max(np.abs(t))) + 2.0)
            r["onTicks"] = ticks(max(off(p1, A1, A2), off(p2, B1, B2)), 1e-9 * L / 8)
            r["consTicks"] = ticks(abs(float(np.linalg.norm(p1 - p2)) - d), 1e-6 * L / 8)
        except Exception as e:
            r["exc"] = type(e).__name__
        recs.append(r)
    return recs


def model_check_pt(res, tier):
    jobs = [dict(spec_dir="prims", module="PointTri", cfg="PointTri_lib.cfg" if tier == "quick" else "PointTri_lib2.cfg", workers=6, heap="3g", tag="pointtri"),
            dict(spec_dir="prims", module="PointTri", cfg="PointTri_bc_first.cfg", workers=1, heap="1g", tag="pointtri_bc")]
    m, w = tlc.run_many(jobs)
    res.add_tlc(m); res.add_tlc(w)
    if m.invariant_violated:
        res.violation("mc:PointTri", "ModelInvariant", f"TLC: {m.invariant_violated} violated on the point-triangle case analysis", {"tlc_tail": m.out[-3000:]})
    elif not m.ok:
        res.machinery("TLC PointTri failed:\n" + m.out[-2000:])
    if not w.invariant_violated:
        res.machinery("the point-triangle variant with a wrong BC edge test did not violate its invariants (vacuous model)")
    res.coverage["pointtri_model_states"] = m.distinct


def records_pt(tier, seed):
    from distance3d import distance as D
    from .prims import _dist_point_hull
    rng = random.Random(seed * 43 + 5)
    pts = list(itertools.product((-1, 0, 1), repeat=3))
    qpts = list(itertools.product((-2, -1, 0, 1, 2), repeat=3))
    tris = [(b, c) for b in pts for c in pts if np.cross(b, c).any()]
    cfgs = [(b, c, p) for (b, c) in tris for p in qpts]
    if tier == "quick":
        rng.shuffle(cfgs)
        cfgs = cfgs[:6000]
    recs = []
    for k, (b, c, p) in enumerate(cfgs):
        t = np.array([rng.randint(-3, 3) for _ in range(3)], dtype=float)
        A, B, C, P = t + 0.0, t + np.array(b, dtype=float), t + np.array(c, dtype=float), t + np.array(p, dtype=float)
        r = {"id": f"q{k}", "a": [int(x) for x in A], "b": [int(x) for x in B], "c": [int(x) for x in C], "p": [int(x) for x in P],
             "exc": "none", "recon": False, "d2n": 0, "d2d": 1, "onTicks": 0, "consTicks": 0}
        try:
            d, q = D.point_to_triangle(np.ascontiguousarray(P), np.ascontiguousarray(np.array([A, B, C])))
            d = float(d); q = np.asarray(q, dtype=float)
            fr = Fraction(d * d).limit_denominator(100000)
            if abs(float(fr) - d * d) <= 1e-9 * max(1.0, d * d):
                r["recon"], r["d2n"], r["d2d"] = True, fr.numerator, fr.denominator
            L = max(1.0, float(np.max(np.abs(t))) + 3.0)
            r["onTicks"] = ticks(_dist_point_hull(q, np.array([A, B, C])), 1e-9 * L / 8)
            r["consTicks"] = ticks(abs(float(np.linalg.norm(P - q)) - d), 1e-6 * L / 8)
        except Exception as e:
            r["exc"] = type(e).__name__
        recs.append(r)
    return recs


def run_pt(res, tier, seed, prop):
    model_check_pt(res, tier)
    recs = records_pt(tier, seed)
    rej = trace.judge(recs, "prims", "PointTriTrace", "PointTriTrace.cfg", "pointtri", res, nshards=12, per_shard=400)
    mine = {"C10": {"NoException", "PointOnTriangle", "Consistent"}, "C11": {"GlobalMinimum"}}[prop]
    byid = {r["id"]: r for r in recs}
    drift = 0
    for rid, clauses in sorted(rej.items()):
        hit = clauses & mine
        if hit:
            r = byid[rid]
            res.violation(f"pointtri:{'+'.join(sorted(hit))}:{r['a']}{r['b']}{r['c']}{r['p']}", "+".join(sorted(hit)),
                          f"point_to_triangle on lattice triangle {r['a']} {r['b']} {r['c']} and point {r['p']}: {r}", {"record": r})
        elif clauses:
            drift += 1
    res.coverage["drift"] += drift
    res.coverage["pointtri_configurations_replayed"] = len(recs)


def run(res, tier, seed, prop):
    """prop: 'C10' judges NoException / PointsOnSegments / Consistent, 'C11' judges GlobalMinimum; the rest is reported as drift"""
    model_check(res, tier)
    recs = records(tier, seed)
    rej = trace.judge(recs, "prims", "SegSegTrace", "SegSegTrace.cfg", "segseg", res, nshards=12, per_shard=400)
    mine = {"C10": {"NoException", "PointsOnSegments", "Consistent"}, "C11": {"GlobalMinimum"}}[prop]
    byid = {r["id"]: r for r in recs}
    drift = 0
    for rid, clauses in sorted(rej.items()):
        hit = clauses & mine
        if hit:
            r = byid[rid]
            res.violation(f"segseg:{'+'.join(sorted(hit))}:{r['a1']}{r['a2']}{r['b1']}{r['b2']}", "+".join(sorted(hit)),
                          f"line_segment_to_line_segment on lattice segments {r['a1']}-{r['a2']} and {r['b1']}-{r['b2']}: {r}", {"record": r})
        elif clauses:
            drift += 1
    res.coverage["drift"] += drift
    res.coverage["segseg_configurations_replayed"] = len(recs)
