#!/bin/sh
# usage: tools/seedtest.sh <patch.diff> <ID> [tier]   - apply a seeded change to /repo, run the check, undo
P="$(realpath "$1")"; ID="$2"; TIER="${3:-quick}"
cd /repo || exit 2
git diff --quiet || { echo "/repo has local changes"; exit 2; }
git apply "$P" || { echo "patch does not apply"; exit 2; }
cd /verif && ./check "$ID" "$TIER" > /tmp/seedtest_$ID.out 2>&1
RC=$?
git -C /repo checkout -- .
echo "rc=$RC  $(grep -c '^VIOLATION' /tmp/seedtest_$ID.out) violation lines"
grep -m3 -A1 '^VIOLATION\|MACHINERY' /tmp/seedtest_$ID.out | cut -c1-300
exit $RC
