#!/usr/bin/env python3
"""usage: tools/mkagentprompt.py <ID> [first_n] [count]  - writes /tmp/agents/<ID>/PROMPT.md (property text + protocol only)."""
import json, sys, os
pid = sys.argv[1]; first = int(sys.argv[2]) if len(sys.argv) > 2 else 4
count = int(sys.argv[3]) if len(sys.argv) > 3 else 3
nums = ', '.join(str(first+i) for i in range(count)); word = {1:'One',2:'Two',3:'Three'}[count]
p = next(json.loads(l) for l in open('/verif/properties.jsonl') if json.loads(l)['id'] == pid)
os.makedirs(f'/tmp/agents/{pid}', exist_ok=True)
txt = f"""# Task: seed realistic property-breaking changes into a Python library

You work ONLY in the git worktree `/tmp/wt/{pid}` (a scratch checkout of the library
AlexanderFabisch/distance3d: pure-Python/numba 3D computational geometry: GJK/EPA/MPR collision and
distance, primitive distance functions, AABB tree broad phase, hydroelastic contact) and write your
deliverables to `/tmp/agents/{pid}/`. Do not look at or touch `/repo`, `/verif` or any other directory
under `/tmp/wt` or `/tmp/agents`.

## The property

**{p['title']}**

{p['statement']}

Quantified over: {p['quantifier']['text']}

Code anchors: {json.dumps(p['anchors'].get('files', []))}

## What to produce

{word} *different* source changes to the library (numbered {nums}), each of which

1. makes the library violate the property above for inputs inside the stated domain,
2. still imports/compiles (numba `@njit` functions must still compile) and
3. still passes the library's pinned test suite (62 tests; see below), and
4. looks like a plausible change a maintainer could make (an "optimisation", a refactoring slip, a
   tolerance tweak, a wrong index in a rarely taken branch, caching added without invalidation, an early
   exit, reuse of a buffer, …) — not sabotage that any ordinary use exposes at once.

Prefer changes that need something **specific** to manifest: a particular multi-step sequence of
operations, an unusual but valid input (degenerate/touching/parallel/nested/identical placement, extreme
but in-domain aspect ratio or size, far from the origin, a special direction), a rarely taken branch, or
two cooperating sites that each look fine alone. Changes that a random generic-position unit-scale input
would expose immediately are of little value. Make the changes touch different mechanisms.

For each change n write:

* `/tmp/agents/{pid}/patch<n>.diff` — `git diff` of the worktree relative to HEAD (apply-able with
  `git apply` at the worktree root), containing only the library change (no tests, no demo).
* `/tmp/agents/{pid}/demo<n>.py` — a small stand-alone program using only the library's public API that
  exits 0 on the unchanged library and exits non-zero (assertion failure with a clear message) with the
  change applied; it shows an in-domain input/sequence on which the property is violated. It must
  import the library from the worktree (`sys.path.insert(0, "/tmp/wt/{pid}")` at the top).
  If it needs `distance3d.hydroelastic_contact`, stub open3d first:
  `import sys, types; sys.modules.setdefault("open3d", types.ModuleType("open3d"))`.
* `/tmp/agents/{pid}/meta<n>.json` — {{"property": "{pid}", "summary": "<what was changed and why it
  breaks the property>", "needs": "<what is needed for it to manifest>", "ran": ["<commands you ran>"]}}

## How to run things

* Python: `/venv/bin/python`. Always set `NUMBA_CACHE_DIR=/tmp/agents/{pid}/nbcache` so the compile
  cache is private. First compilation of the library takes 1–2 minutes.
* Demo: `cd /tmp/wt/{pid} && NUMBA_CACHE_DIR=/tmp/agents/{pid}/nbcache /venv/bin/python /tmp/agents/{pid}/demo<n>.py`
* Pinned test suite (must pass with each change applied; run it from the worktree root):
  `cd /tmp/wt/{pid} && NUMBA_CACHE_DIR=/tmp/agents/{pid}/nbcache /venv/bin/python -m pytest -ra -q -p no:cacheprovider --timeout=900 --continue-on-collection-errors --junitxml=/tmp/agents/{pid}/junit<n>.xml`
  Some test modules fail to collect in this sandbox even on the unchanged tree (missing optional
  dependencies); that is expected. What matters: run the suite once on the unchanged worktree first and
  remember the set of passing tests; with your change applied exactly the same tests must pass.
* Between changes restore the worktree: `git -C /tmp/wt/{pid} checkout -- .`
* There is no network. Do not install anything. Do not use `git stash` (the stash is shared between worktrees); use `git diff > file`, `git checkout -- .` and `git apply file` instead.
* The suite collects more than 62 tests here (about 132 pass on the unchanged tree; `test_benchmark.py` timing tests are flaky under load and may be ignored).

For every change verify yourself: demo exits 0 without the change, non-zero with it; test suite unchanged
with it. When done, leave the worktree clean (`git checkout -- .`) and reply with a short list: for each n
one line saying what was changed and what it needs to manifest. If you cannot produce all of them, produce
what you can.
"""
open(f'/tmp/agents/{pid}/PROMPT.md', 'w').write(txt)
print(f'/tmp/agents/{pid}/PROMPT.md')
