#!/bin/sh
# usage: tools/reconfirm_seed.sh <seedname>
# Re-confirms a stored seed against the current /repo HEAD in a scratch worktree:
# demo passes on HEAD, fails with the patch, the 62 pinned tests pass with the patch. Writes seeded/<seed>/reconfirm.json.
NAME="$1"; D=/verif/seeded/$NAME
WT=/tmp/rc/$NAME
mkdir -p /tmp/rc
git -C /repo worktree add -q --detach "$WT" HEAD || exit 2
export NUMBA_CACHE_DIR=/tmp/rc/nb_$NAME
cd "$WT" || exit 2
sed "s#/tmp/wt/[A-Za-z0-9]*#$WT#g; s#/tmp/cs/[A-Za-z0-9-]*#$WT#g" "$D/demo.py" > /tmp/rc/$NAME.demo.py
PYTHONPATH="$WT:/tmp/stub" /venv/bin/python /tmp/rc/$NAME.demo.py > /tmp/rc/$NAME.clean.out 2>&1; RC_CLEAN=$?
if git apply "$D/patch.diff" 2>/tmp/rc/$NAME.apply.err; then APPLIES=true; else APPLIES=false; fi
RC_PATCH=-1; MISSING=-1
if $APPLIES; then
  PYTHONPATH="$WT:/tmp/stub" /venv/bin/python /tmp/rc/$NAME.demo.py > /tmp/rc/$NAME.patched.out 2>&1; RC_PATCH=$?
  /venv/bin/python -m pytest -q -p no:cacheprovider --timeout=900 --continue-on-collection-errors --junitxml=/tmp/rc/$NAME.xml > /tmp/rc/$NAME.pytest.out 2>&1
  MISSING=$(python3 - "$NAME" <<'PY'
import json,sys,xml.etree.ElementTree as ET
b=json.load(open('/root/.vp/BASELINE.json'))
ok=set()
for tc in ET.parse('/tmp/rc/%s.xml'%sys.argv[1]).iter('testcase'):
    if not list(tc): ok.add(tc.get('classname')+'::'+tc.get('name'))
print(len([x for x in b['stable_pass'] if x not in ok]))
PY
)
fi
HEAD=$(git -C /repo rev-parse --short HEAD)
cd /; git -C /repo worktree remove --force "$WT"; rm -rf "$NUMBA_CACHE_DIR"
python3 - "$D" "$HEAD" "$APPLIES" "$RC_CLEAN" "$RC_PATCH" "$MISSING" <<'PY'
import json,sys
d,head,app,c,p,m=sys.argv[1:]
ok = app=="true" and c=="0" and p not in ("0","-1") and m=="0"
json.dump({"repo_head":head,"patch_applies":app=="true","demo_rc_on_HEAD":int(c),"demo_rc_with_patch":int(p),"pinned_missing_with_patch":int(m),"confirmed":ok},open(d+"/reconfirm.json","w"),indent=1)
PY
echo "$NAME applies=$APPLIES clean_rc=$RC_CLEAN patched_rc=$RC_PATCH baseline_missing=$MISSING"
