#!/usr/bin/env python3
"""Append / refresh the 'Round 4' section of seeded/MATRIX.md from seeded/matrix_round4.json (first-run results of tools/seedpar.py
plus the re-runs after strengthening, recorded by hand in that file)."""
import json, os, re
V = os.path.dirname(os.path.dirname(os.path.abspath(__file__)))
rows = json.load(open(os.path.join(V, "seeded", "matrix_round4.json")))
p = os.path.join(V, "seeded", "MATRIX.md")
txt = open(p).read()
txt = re.sub(r"\n## Round 4 .*?(?=\n## |\Z)", "\n", txt, flags=re.S).rstrip("\n") + "\n"
out = ["", "## Round 4 (fourth session: seeds *-7, *-8 for the twelve properties without a round 3, *-9, *-10 for C05, C06, C14, C16, and C02, C08, C10, C19)", "",
       "`first run` = the checks as committed when the seed arrived (tools/seedpar.py, quick tier, VERIF_SEED=1); `after strengthening` = re-run against the checks as committed now.", "",
       "| seed | property | first run: caught by | clause | after strengthening: caught by | clause | note |", "|---|---|---|---|---|---|---|"]
n1 = n2 = 0
for r in rows:
    n1 += bool(r["initial"]); n2 += bool(r["final"])
    out.append(f"| {r['seed']} | {r['property']} | {r['initial'] or '**not reported**'} | {r['initial_clause']} | {r['final'] or '**not reported**'} | {r['final_clause']} | {r.get('note', '')} |")
out += ["", f"{n1} of {len(rows)} reported in the first run, {n2} of {len(rows)} after strengthening.", ""]
open(p, "w").write(txt + "\n".join(out))
print(n1, n2, len(rows))
