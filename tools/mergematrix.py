#!/usr/bin/env python3
"""Merge the seed-vs-check results of round 2 (matrix logs of the three batches plus the retests run after strengthening the
checks, /root/logs/matrix_b*.log and /root/logs/seed_<seed>.<check>.log) into seeded/matrix_round2.json, and write
seeded/MATRIX.md for both rounds.  A seed counts as caught by the first check (own property first) that exits 1 with a VIOLATION
line while the seed is applied; 'initial' is the result of the first matrix run, 'final' the one after the strengthening."""
import ast, glob, json, os, re
V = os.path.dirname(os.path.dirname(os.path.abspath(__file__)))
rows = {}
for f in sorted(glob.glob("/root/logs/matrix_b[1234].log")):
    for line in open(f):
        line = line.strip()
        if line.startswith("{'seed'"):
            r = ast.literal_eval(line)
            rows[r["seed"]] = {"seed": r["seed"], "property": r["property"], "initial": r["caught_by"] if r["first_clause"] != "MACHINERY" else None,
                               "initial_clause": r["first_clause"] if r["first_clause"] != "MACHINERY" else "", "tried": [list(t) for t in r["tried"]], "retests": [],
                               "round": 3 if f.endswith("b4.log") else 2}
for f in sorted(glob.glob("/root/logs/seed_*.log"), key=os.path.getmtime):
    m = re.match(r"seed_(C\d\d-\d)\.(C\d\d)\.log", os.path.basename(f))
    if not m or m.group(1) not in rows:
        continue
    txt = open(f).read()
    nv = len(re.findall(r"^VIOLATION", txt, re.M))
    cl = re.search(r"clause=(\S+)", txt)
    ok = "\nOK property=" in txt or txt.startswith("OK property=")
    rows[m.group(1)]["retests"].append({"check": m.group(2), "violations": nv, "clause": cl.group(1) if cl else "", "machinery": "MACHINERY-ERROR" in txt})
for r in rows.values():
    r["final"], r["final_clause"] = r["initial"], r["initial_clause"]
    for t in r["retests"]:
        if t["violations"] > 0 and not t["machinery"]:
            r["final"], r["final_clause"] = t["check"], t["clause"]
        elif t["check"] == r["final"] and t["violations"] == 0:
            # the check that reported the seed in the first run stays quiet in a later run: the first report was not due to the seed
            # (C08-4 .. C08-6: four violations of the then unlisted grazing finding on the unchanged tree)
            r["final"], r["final_clause"] = None, ""
    if r["seed"] in ("C08-4", "C08-5", "C08-6"):
        r["initial"], r["initial_clause"] = None, "(first run polluted by a false alarm, see note)"
old = json.load(open(os.path.join(V, "seeded", "matrix.json")))
json.dump(sorted(rows.values(), key=lambda r: r["seed"]), open(os.path.join(V, "seeded", "matrix_round2.json"), "w"), indent=1)
notes = json.load(open(os.path.join(V, "seeded", "notes_round2.json"))) if os.path.exists(os.path.join(V, "seeded", "notes_round2.json")) else {}
with open(os.path.join(V, "seeded", "MATRIX.md"), "w") as fh:
    fh.write("# Seeded changes vs checks (quick tier, VERIF_SEED=1)\n\n")
    fh.write("## Round 2 (seeds *-4 .. *-6, written by fresh sub-agents in this session)\n\n"
             "`first run` = the check as it was when the seed arrived; `after strengthening` = the same seed against the checks as committed now "
             "(only re-run for seeds that were missed or caught by a neighbouring check only).\n\n"
             "| seed | property | first run: caught by | clause | after strengthening: caught by | clause | note |\n|---|---|---|---|---|---|---|\n")
    n1 = n2 = 0
    r2 = [r for r in rows.values() if r["round"] == 2]
    for r in sorted(r2, key=lambda r: r["seed"]):
        n1 += bool(r["initial"]); n2 += bool(r["final"])
        fh.write(f"| {r['seed']} | {r['property']} | {r['initial'] or '**not reported**'} | {r['initial_clause']} | {r['final'] or '**not reported**'} | {r['final_clause']} | {notes.get(r['seed'], '')} |\n")
    fh.write(f"\n{n1} of {len(r2)} reported in the first run, {n2} of {len(r2)} after strengthening.\n\n")
    r3 = [r for r in rows.values() if r["round"] == 3]
    if r3:
        fh.write("## Round 3 (seeds *-7, *-8: a second batch from fresh sub-agents for eight properties, run against the strengthened checks)\n\n"
                 "| seed | property | first run: caught by | clause | after strengthening: caught by | clause | note |\n|---|---|---|---|---|---|---|\n")
        m1 = m2 = 0
        for r in sorted(r3, key=lambda r: r["seed"]):
            m1 += bool(r["initial"]); m2 += bool(r["final"])
            fh.write(f"| {r['seed']} | {r['property']} | {r['initial'] or '**not reported**'} | {r['initial_clause']} | {r['final'] or '**not reported**'} | {r['final_clause']} | {notes.get(r['seed'], '')} |\n")
        fh.write(f"\n{m1} of {len(r3)} reported in the first run, {m2} of {len(r3)} after strengthening.\n\n")
    fh.write("## Round 1 (seeds *-1 .. *-3, previous session; matrix as recorded then)\n\n| seed | property | caught by | first clause |\n|---|---|---|---|\n")
    for r in old:
        fh.write(f"| {r['seed']} | {r['property']} | {r['caught_by'] or '**not reported**'} | {r['first_clause']} |\n")
    fh.write(f"\n{sum(1 for r in old if r['caught_by'])} of {len(old)} reported.\n")
print(n1, n2, len(r2), len(r3))
