#!/usr/bin/env python3
"""usage: tools/seedpar.py [-j N] [--out file.json] <seed> ...
Runs stored seeds against the check of their property (and, when that stays quiet, neighbouring checks) in parallel.
Each job gets its own scratch worktree of /repo HEAD with the patch applied and its own copy of /verif (so evidence files and
work directories do not collide); VERIF_REPO points the harness at the worktree. /repo itself is never touched.
Everything under /tmp/sp is removed afterwards."""
import json, os, subprocess, sys, time, shutil
from concurrent.futures import ThreadPoolExecutor
V = os.path.dirname(os.path.dirname(os.path.abspath(__file__)))
sys.path.insert(0, os.path.join(V, "tools"))
NEIGH = {"C01": ["C14", "C09", "C19", "C12"], "C02": ["C01", "C19", "C14"], "C03": ["C14", "C01"], "C04": ["C16", "C14", "C06"], "C05": ["C06", "C16"], "C06": ["C05"],
         "C07": ["C19"], "C08": ["C19", "C12", "C14"], "C09": ["C14", "C01", "C02", "C19"], "C10": ["C11", "C12"], "C11": ["C10", "C12"],
         "C12": ["C14", "C10", "C11", "C01"], "C13": ["C03"], "C14": ["C03", "C04"], "C15": ["C16"], "C16": ["C15", "C04"], "C17": ["C16"],
         "C18": ["C01", "C09"], "C19": ["C01", "C02"], "C20": ["C10", "C14"]}


def sh(*a, **k):
    return subprocess.run(list(a), stdout=subprocess.PIPE, stderr=subprocess.STDOUT, text=True, **k)


def job(seed, only_own=False):
    d = os.path.join(V, "seeded", seed)
    meta = json.load(open(os.path.join(d, "meta.json")))
    prop = meta.get("property") or seed.split("-")[0]
    base = f"/tmp/sp/{seed}"
    shutil.rmtree(base, ignore_errors=True)
    os.makedirs(base)
    wt, vc = base + "/repo", base + "/verif"
    tried, caught = [], None
    try:
        r = sh("git", "-C", "/repo", "worktree", "add", "-q", "--detach", wt, "HEAD")
        if r.returncode:
            return {"seed": seed, "property": prop, "caught_by": None, "tried": [("-", "worktree failed " + r.stdout[-200:])]}
        if sh("git", "-C", wt, "apply", os.path.join(d, "patch.diff")).returncode:
            return {"seed": seed, "property": prop, "caught_by": None, "tried": [("-", "patch does not apply")]}
        sh("rsync", "-a", "--exclude", ".git", "--exclude", ".cache", "--exclude", "work", "--exclude", "seeded", V + "/", vc + "/")
        for pid in [prop] + ([] if only_own else [p for p in NEIGH.get(prop, []) if p != prop]):
            t0 = time.time()
            p = sh("./check", pid, "quick", cwd=vc, timeout=5400, env=dict(os.environ, VERIF_SEED="1", VERIF_REPO=wt))
            out = p.stdout
            nv = sum(1 for l in out.splitlines() if l.startswith("VIOLATION"))
            clause = next((l.strip().split(" ")[0][7:] for l in out.splitlines() if l.strip().startswith("clause=")), "")
            tried.append((pid, f"rc={p.returncode} violations={nv} {clause} ({time.time() - t0:.0f}s)"))
            if p.returncode == 1:
                caught = (pid, nv, clause); break
            if p.returncode == 2:
                caught = (pid, -1, "MACHINERY: " + "".join(l for l in out.splitlines(True) if "MACHINERY" in l)[:300]); break
    finally:
        sh("git", "-C", "/repo", "worktree", "remove", "--force", wt)
        shutil.rmtree(base, ignore_errors=True)
    return {"seed": seed, "property": prop, "caught_by": caught[0] if caught else None, "violations": caught[1] if caught else 0,
            "first_clause": caught[2] if caught else "", "tried": tried}


def main(argv):
    par, out, seeds, own = 4, None, [], False
    it = iter(argv)
    for a in it:
        if a == "-j":
            par = int(next(it))
        elif a == "--out":
            out = next(it)
        elif a == "--own":
            own = True
        else:
            seeds.append(a)
    rows = []
    with ThreadPoolExecutor(max_workers=par) as ex:
        for r in ex.map(lambda s: job(s, own), seeds):
            rows.append(r)
            print(json.dumps(r), flush=True)
            if out:
                json.dump(rows, open(out, "w"), indent=1)
    sh("git", "-C", "/repo", "worktree", "prune")
    return 0


if __name__ == "__main__":
    sys.exit(main(sys.argv[1:]))
