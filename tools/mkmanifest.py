#!/usr/bin/env python3
"""Regenerate MANIFEST.json from tools/claims.json (one entry per claimed property)."""
import json, os
V = os.path.dirname(os.path.dirname(os.path.abspath(__file__)))
props = [json.loads(l) for l in open(os.path.join(V, "properties.jsonl"))]
claims = json.load(open(os.path.join(V, "tools", "claims.json")))
m = {"version": 1,
     "setup_cmd": "./check setup",
     "hooks": {"guard": "DISTANCE3D_VERIF",
               "enable": "no in-source hooks: the harness sets DISTANCE3D_VERIF=1 for its own observers (instance-level counters and taps on collider objects, wrappers on module attributes); /repo is imported from its working tree",
               "baseline_off_cmd": "cd /repo && /venv/bin/python -m pytest -ra -q -p no:cacheprovider --timeout=900 --continue-on-collection-errors",
               "source_commits": [], "add_only": True},
     "engines": [{"name": "tlc", "path": "/opt/veriftools/tla/tla2tools.jar",
                  "serves_properties": sorted(claims["claimed"]),
                  "kind_free_text": "TLC 1.8 explicit-state model checker: model checking of specs/ and batch/stateful trace validation of implementation runs"},
                 {"name": "apalache", "path": "/opt/veriftools/apalache",
                  "serves_properties": ["C06"],
                  "kind_free_text": "Apalache 0.58 symbolic model checker: inductive invariant of the BVH life-cycle model (specs/c06/BvhLifeInd.tla), an unbounded complement to the TLC runs of the same check"}],
     "checks": [],
     "notes": "See DESIGN.md. ./check <ID> quick|thorough; exit 0 held / 1 violation / 2 machinery failure.",
     "not_applicable": []}
for p in props:
    pid = p["id"]
    if pid in claims["claimed"]:
        c = claims["claimed"][pid]
        m["checks"].append({"property_id": pid, "quick_cmd": f"./check {pid} quick", "thorough_cmd": f"./check {pid} thorough",
                            "evidence_file": f"/verif/evidence/{pid}.json",
                            "replay_cmd_template": f"./check {pid} --replay {{path}}", "engine": "tlc",
                            "level_claimed": {"category": c.get("category", "model_checking"), "text": c["text"], "design_ref": c["ref"]},
                            "level_note": c["note"], "technique": c["technique"]})
    else:
        m["not_applicable"].append({"property_id": pid, "reason": claims["not_applicable"].get(
            pid, "check not built yet in this round (see DESIGN.md section 5); not claimed until its TLA+ judge and binding exist")})
json.dump(m, open(os.path.join(V, "MANIFEST.json"), "w"), indent=1)
print("claimed:", sorted(claims["claimed"]))
