#!/bin/sh
# usage: tools/confirm_seed.sh <agentdir> <n> <seedname>
# Confirms a seeded change in a scratch worktree: demo passes on HEAD, fails with the patch, 62 pinned tests pass with it.
# On success stores /verif/seeded/<seedname>/{patch.diff,demo.py,meta.json,confirm.json}; removes the worktree.
AD="$1"; N="$2"; NAME="$3"
WT=/tmp/cs/$NAME
mkdir -p /tmp/cs
git -C /repo worktree add -q --detach "$WT" HEAD || exit 2
export NUMBA_CACHE_DIR=/tmp/cs/nb_$NAME
cd "$WT" || exit 2
# demos assert that the library is imported from the agent's own worktree: point them at this one
sed "s#/tmp/wt/[A-Z0-9]*#$WT#g" "$AD/demo$N.py" > /tmp/cs/$NAME.demo.py
PYTHONPATH="$WT" /venv/bin/python /tmp/cs/$NAME.demo.py > /tmp/cs/$NAME.clean.out 2>&1; RC_CLEAN=$?
git apply "$AD/patch$N.diff" || { echo "patch does not apply"; git -C /repo worktree remove --force "$WT"; exit 2; }
PYTHONPATH="$WT" /venv/bin/python /tmp/cs/$NAME.demo.py > /tmp/cs/$NAME.patched.out 2>&1; RC_PATCH=$?
/venv/bin/python -m pytest -q -p no:cacheprovider --timeout=900 --continue-on-collection-errors --junitxml=/tmp/cs/$NAME.xml > /tmp/cs/$NAME.pytest.out 2>&1
MISSING=$(python3 - "$NAME" <<'PY'
import json,sys,xml.etree.ElementTree as ET
b=json.load(open('/root/.vp/BASELINE.json'))
ok=set()
for tc in ET.parse('/tmp/cs/%s.xml'%sys.argv[1]).iter('testcase'):
    if not list(tc): ok.add(tc.get('classname')+'::'+tc.get('name'))
print(len([x for x in b['stable_pass'] if x not in ok]))
PY
)
cd /; git -C /repo worktree remove --force "$WT"; rm -rf "$NUMBA_CACHE_DIR"
echo "$NAME clean_rc=$RC_CLEAN patched_rc=$RC_PATCH baseline_missing=$MISSING"
if [ "$RC_CLEAN" = 0 ] && [ "$RC_PATCH" != 0 ] && [ "$MISSING" = 0 ]; then
  D=/verif/seeded/$NAME; mkdir -p "$D"
  cp "$AD/patch$N.diff" "$D/patch.diff"; cp "$AD/demo$N.py" "$D/demo.py"
  python3 - "$AD/meta$N.json" "$D" "$NAME" "$RC_CLEAN" "$RC_PATCH" <<'PY'
import json,sys
m=json.load(open(sys.argv[1])); d=sys.argv[2]
out={"seed":sys.argv[3],"property":m.get("property"),"summary":m.get("summary"),"needs":m.get("needs"),
     "confirmed":{"demo_rc_on_HEAD":int(sys.argv[4]),"demo_rc_with_patch":int(sys.argv[5]),"pinned_62_pass_with_patch":True,
                  "ran":["tools/confirm_seed.sh (scratch worktree of /repo HEAD: demo, git apply, demo, pinned pytest suite)"]},
     "agent_ran":m.get("ran")}
json.dump(out,open(d+"/meta.json","w"),indent=1)
PY
  echo CONFIRMED
else
  echo NOT-CONFIRMED
fi
