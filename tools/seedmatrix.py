#!/usr/bin/env python3
"""Run every stored seed against the check of its property (and, when that stays quiet, against neighbouring checks);
writes seeded/MATRIX.md and seeded/matrix.json. /repo must be clean; each patch is applied and reverted."""
import json, os, subprocess, sys, time
V = os.path.dirname(os.path.dirname(os.path.abspath(__file__)))
NEIGH = {"C01": ["C09", "C19", "C12"], "C02": ["C01", "C19"], "C03": ["C14", "C01"], "C04": ["C16", "C06"], "C05": ["C06", "C16"], "C06": ["C05"],
         "C07": ["C19"], "C08": ["C19", "C12"], "C09": ["C01", "C02", "C19"], "C10": ["C11", "C12"], "C11": ["C10", "C12"], "C12": ["C10", "C11", "C14", "C01"],
         "C13": ["C03"], "C14": ["C03", "C04"], "C15": ["C16"], "C16": ["C15", "C04"], "C17": ["C16"], "C18": ["C01", "C09"], "C19": ["C01", "C02"], "C20": ["C14", "C10"]}
only = sys.argv[1:] 
rows = []
for seed in sorted(os.listdir(os.path.join(V, "seeded"))):
    d = os.path.join(V, "seeded", seed)
    if not os.path.isdir(d) or (only and seed not in only):
        continue
    meta = json.load(open(os.path.join(d, "meta.json")))
    prop = meta.get("property") or seed.split("-")[0]
    tried, caught = [], None
    for pid in [prop] + [p for p in NEIGH.get(prop, []) if p != prop]:
        if subprocess.run(["git", "-C", "/repo", "diff", "--quiet"]).returncode != 0:
            sys.exit("/repo has local changes")
        if subprocess.run(["git", "-C", "/repo", "apply", os.path.join(d, "patch.diff")]).returncode != 0:
            tried.append((pid, "patch does not apply")); break
        t0 = time.time()
        try:
            p = subprocess.run(["./check", pid, "quick"], cwd=V, stdout=subprocess.PIPE, stderr=subprocess.STDOUT, text=True, timeout=3600,
                               env=dict(os.environ, VERIF_SEED="1"))
            rc, out = p.returncode, p.stdout
        finally:
            subprocess.run(["git", "-C", "/repo", "checkout", "--", "."])
        nv = out.count("\nVIOLATION") + (1 if out.startswith("VIOLATION") else 0)
        clause = ""
        for line in out.splitlines():
            if line.strip().startswith("clause="):
                clause = line.strip().split(" ")[0][7:]; break
        tried.append((pid, f"rc={rc} violations={nv} {clause} ({time.time() - t0:.0f}s)"))
        if rc == 1:
            caught = (pid, nv, clause); break
        if rc == 2:
            caught = (pid, -1, "MACHINERY"); break
    rows.append({"seed": seed, "property": prop, "caught_by": caught[0] if caught else None, "violations": caught[1] if caught else 0,
                 "first_clause": caught[2] if caught else "", "tried": tried})
    print(rows[-1], flush=True)
    json.dump(rows, open(os.path.join(V, "seeded", "matrix.json" if not only else "matrix_partial.json"), "w"), indent=1)
if not only:
    with open(os.path.join(V, "seeded", "MATRIX.md"), "w") as fh:
        fh.write("# Seeded changes vs checks (quick tier, VERIF_SEED=1)\n\n| seed | property | caught by | violation lines | first clause | checks tried |\n|---|---|---|---|---|---|\n")
        for r in rows:
            fh.write(f"| {r['seed']} | {r['property']} | {r['caught_by'] or '**missed**'} | {r['violations']} | {r['first_clause']} | {'; '.join(p + ': ' + t for p, t in r['tried'])} |\n")
        n = sum(1 for r in rows if r["caught_by"])
        fh.write(f"\n{n} of {len(rows)} seeds caught.\n")
