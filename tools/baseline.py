#!/usr/bin/env python3
"""Run the pinned suite of /repo and report which of the stable_pass tests do not pass (none expected)."""
import json, subprocess, sys, tempfile, os, xml.etree.ElementTree as ET
base = json.load(open("/root/.vp/BASELINE.json"))
out = tempfile.mktemp(suffix=".xml", dir="/var/tmp")
cmd = base["cmd"].replace("<file>", out)
subprocess.run(cmd, shell=True, stdout=subprocess.DEVNULL, stderr=subprocess.DEVNULL)
ok = set()
for tc in ET.parse(out).getroot().iter("testcase"):
    if not any(c.tag in ("failure", "error", "skipped") for c in tc):
        ok.add(f"{tc.get('classname')}::{tc.get('name')}")
os.remove(out)
missing = [t for t in base["stable_pass"] if t not in ok]
if len(sys.argv) > 1:
    open(sys.argv[1], "w").write("\n".join(sorted(ok)) + "\n")
print(f"stable_pass {len(base['stable_pass'])} passing-now {len(ok)} missing {missing}")
sys.exit(1 if missing else 0)
