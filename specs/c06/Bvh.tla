--------------------------------- MODULE Bvh ---------------------------------
(* C06 - JUDGE for the BVH broad phase and the self-collision detection built on it.

   Abstract state after update_collider_poses: for every collider frame F
     box[F]   its current axis-aligned bounding box (integer lattice bounds; the robots of the
              conformance corpus are lattice robots: prismatic joints in integer steps, revolute
              joints in quarter turns, geometry with lattice extents)
     wl[F]    the self-collision whitelist of F (as generated or as supplied)
     hit[F]   the set of frames G # F that an all-pairs narrow-phase test finds colliding with F
   The three broad-phase queries must return exactly the frames / pairs with closed-interval
   overlapping boxes; detect / detect_any must satisfy the postconditions below, which are stated
   relative to the whitelists actually in force (they may be asymmetric). *)
EXTENDS Integers, Sequences, FiniteSets

ClosedOverlap(b, c) == \A k \in 1..3 : b[k][1] <= c[k][2] /\ b[k][2] >= c[k][1]

(* aabb_overlapping_colliders(query box, whitelist) *)
QColliderExact(Frames, box, q, whitelist, result) ==
  result = { F \in Frames : ClosedOverlap(box[F], q) } \ whitelist

(* aabb_overlapping_with_other_bvh: pairs <<F, j>>, j an index into the other hierarchy's boxes *)
QOtherExact(Frames, box, other, pairs) ==
  /\ { pairs[k] : k \in DOMAIN pairs } = { p \in Frames \X DOMAIN other : ClosedOverlap(box[p[1]], other[p[2]]) }
  /\ \A j, k \in DOMAIN pairs : j # k => pairs[j] # pairs[k]

(* aabb_overlapping_with_self: ordered pairs of distinct frames *)
QSelfExact(Frames, box, pairs) ==
  /\ { pairs[k] : k \in DOMAIN pairs } = { p \in Frames \X Frames : p[1] # p[2] /\ ClosedOverlap(box[p[1]], box[p[2]]) }
  /\ \A j, k \in DOMAIN pairs : j # k => pairs[j] # pairs[k]

(* self_collision.detect: c = the returned marking *)
DetectComplete(Frames, wl, hit, c) ==
  \A F \in Frames : (\E G \in hit[F] : G \notin wl[F]) => (F \in DOMAIN c /\ c[F])
DetectSound(Frames, wl, hit, c) ==
  \A F \in DOMAIN c : c[F] => \E G \in hit[F] : (G \notin wl[F] \/ F \notin wl[G])
DetectTotal(Frames, c) == DOMAIN c = Frames
DetectAnyExact(Frames, wl, hit, any) ==
  any = (\E F \in Frames : \E G \in hit[F] : G \notin wl[F])
=============================================================================
