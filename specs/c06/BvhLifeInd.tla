------------------------------ MODULE BvhLifeInd ------------------------------
(* C06 - the safety core of BvhLife.tla without its step bound and history variable, with Apalache type annotations, for an
   UNBOUNDED proof that the eager design keeps every tree current: IndInv is inductive (checked by Apalache:
   Init => IndInv, IndInv /\ Next => IndInv') and implies TreesCurrent.  The lazy design is not covered by it (TLC shows
   its counterexample in BvhLife.tla). *)
EXTENDS Integers, Apalache

CONSTANTS
  \* @type: Set(Str);
  H,
  \* @type: Set(Str);
  Cs

VARIABLES
  \* @type: Str -> (Str -> Int);
  tm,
  \* @type: Str -> (Str -> Int);
  col,
  \* @type: Str -> (Str -> Int);
  tree,
  \* @type: Str;
  bad

CInit == H = {"r", "o"} /\ Cs = {"c1", "c2"}

Init == /\ tm = [h \in H |-> [c \in Cs |-> 0]] /\ col = tm /\ tree = tm /\ bad = ""
Synced(h) == \A c \in Cs : col[h][c] = tm[h][c]
Move(h, c) == /\ bad = "" /\ tm' = [tm EXCEPT ![h][c] = @ + 1] /\ UNCHANGED <<col, tree, bad>>
Update(h) == /\ bad = "" /\ col' = [col EXCEPT ![h] = tm[h]] /\ tree' = [tree EXCEPT ![h] = tm[h]] /\ UNCHANGED <<tm, bad>>
QOwn(h) == /\ bad = "" /\ Synced(h)
           /\ bad' = (IF tree[h] # col[h] THEN "stale tree in own query" ELSE "")
           /\ UNCHANGED <<tm, col, tree>>
QOther(h, g) == /\ h # g /\ bad = "" /\ Synced(h) /\ Synced(g)
                /\ bad' = (IF tree[h] # col[h] \/ tree[g] # col[g] THEN "stale tree in cross query" ELSE "")
                /\ UNCHANGED <<tm, col, tree>>
Next == \/ \E h \in H, c \in Cs : Move(h, c)
        \/ \E h \in H : Update(h) \/ QOwn(h)
        \/ \E h, g \in H : QOther(h, g)

TreesCurrent == bad = ""
(* the inductive invariant: no query has read a stale tree, and every tree entry equals the collider's pose version *)
IndInv == bad = "" /\ \A h \in H : \A c \in Cs : tree[h][c] = col[h][c]
(* control: "the colliders always hold the transform manager's poses" is NOT inductive (Move breaks it): Apalache must refute it *)
NotInductive == IndInv /\ \A h \in H : \A c \in Cs : col[h][c] = tm[h][c]
(* an arbitrary state satisfying IndInv (Gen: any function of that type with at most 3 points per level) *)
IndInit == /\ tm = Gen(3) /\ col = Gen(3) /\ tree = Gen(3) /\ bad = ""
           /\ DOMAIN tm = H /\ DOMAIN col = H /\ DOMAIN tree = H
           /\ \A h \in H : DOMAIN tm[h] = Cs /\ DOMAIN col[h] = Cs /\ DOMAIN tree[h] = Cs
           /\ IndInv
===============================================================================
