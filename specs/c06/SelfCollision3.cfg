SPECIFICATION Spec
CONSTANTS
  N = 3
  CandChoice = "all"
INVARIANT DetectOK
INVARIANT DetectAnyOK
