SPECIFICATION Spec
CONSTANT N = 3
INVARIANT DetectOK
INVARIANT DetectAnyOK
