----------------------------- MODULE SelfCollision -----------------------------
(* C06 - EXPLORER: self_collision.detect / detect_any as written, over every small
   configuration: iteration order over the colliders, symmetric collision relation, broad
   phase = any superset of it, arbitrary (possibly asymmetric) whitelists that contain the
   frame itself.  detect: "if frame in contacts: continue", candidates = overlapping frames
   minus the frame's whitelist (dictionary order = tree order, here: any order), mark both
   frames and "break" after the first narrow-phase hit. *)
EXTENDS Bvh, TLC

CONSTANTS N,
          CandChoice     \* "all": every broad-phase superset of the colliding frames; "hit": the colliding frames only (detect reads
                         \* the candidates only through (cand \ whitelist) /\ hit, which does not depend on the superset - for N = 4
                         \* the supersets would multiply the 6.3 million configurations by up to 65536 without adding a behaviour)
Frames == 1..N
VARIABLES order, hit, wl, cand, phase
vars == <<order, hit, wl, cand, phase>>

Perms == { f \in [1..N -> Frames] : \A i, j \in 1..N : i # j => f[i] # f[j] }
SymRel == { h \in [Frames -> SUBSET Frames] : \A F, G \in Frames : (G \in h[F]) = (F \in h[G]) /\ F \notin h[F] }

Init == /\ order \in Perms /\ phase = "hit"
        /\ hit = [F \in Frames |-> {}] /\ wl = [F \in Frames |-> {F}] /\ cand = [F \in Frames |-> {}]
(* staged choice keeps the number of initial states small *)
ChooseHit == phase = "hit" /\ hit' \in SymRel /\ phase' = "wl" /\ UNCHANGED <<order, wl, cand>>
ChooseWl  == phase = "wl" /\ wl' \in { w \in [Frames -> SUBSET Frames] : \A F \in Frames : F \in w[F] } /\ phase' = "cand"
             /\ UNCHANGED <<order, hit, cand>>
(* broad phase candidates: a superset of the colliding frames (AABB overlap is necessary for collision) *)
ChooseCand == phase = "cand" /\ phase' = "done"
              /\ cand' \in (IF CandChoice = "hit" THEN {hit} ELSE { b \in [Frames -> SUBSET Frames] : \A F \in Frames : hit[F] \subseteq b[F] })
              /\ UNCHANGED <<order, hit, wl>>
Next == ChooseHit \/ ChooseWl \/ ChooseCand
Spec == Init /\ [][Next]_vars

(* detect(), one frame at a time in dictionary order; the candidate that produces the first hit is
   whichever colliding candidate comes first in the tree's answer: nondeterministic, so the result is
   the SET of possible markings *)
RECURSIVE Run(_, _)
Run(k, c) ==      \* c: function from the frames marked so far to BOOLEAN; returns a set of final markings
  IF k > N THEN {c}
  ELSE LET F == order[k] IN
       IF F \in DOMAIN c THEN Run(k + 1, c)
       ELSE LET cs == (cand[F] \ wl[F]) \cap hit[F] IN
            IF cs = {} THEN Run(k + 1, [x \in DOMAIN c \cup {F} |-> IF x = F THEN FALSE ELSE c[x]])
            ELSE UNION { Run(k + 1, [x \in DOMAIN c \cup {F, G} |-> IF x \in {F, G} THEN TRUE ELSE c[x]]) : G \in cs }

DetectResults == Run(1, <<>>)
DetectAnyResult == \E F \in Frames : ((cand[F] \ wl[F]) \cap hit[F]) # {}

DetectOK ==
  phase = "done" =>
    \A c \in DetectResults :
      /\ DetectTotal(Frames, c) /\ DetectComplete(Frames, wl, hit, c) /\ DetectSound(Frames, wl, hit, c)
DetectAnyOK == phase = "done" => DetectAnyExact(Frames, wl, hit, DetectAnyResult)
=============================================================================
