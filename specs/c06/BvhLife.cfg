SPECIFICATION Spec
CONSTANTS
  H = {"r", "o"}
  Cs = {"c1", "c2"}
  Rebuild = "eager"
  MaxSteps = 6
  Emit = "none"
INVARIANT TreesCurrent
