------------------------------- MODULE BvhTrace -------------------------------
(* C06 - binds recorded runs of BoundingVolumeHierarchy / self_collision on generated robots
   to the judge (module Bvh).  Events:
     robot     frames, the whitelists in force (frame -> list of frames)
     state     after set_joint / add_transform + update_collider_poses: box (frame -> lattice box of the
               collider's current aabb()), hit (frame -> frames found colliding by an all-pairs
               gjk_intersection on the current colliders), poseTicks (frame -> |collider pose - transform
               manager pose| in ticks of 1e-9*L/8)
     qcollider / qother / qself / detect / detectany   the results of the five public calls *)
EXTENDS Bvh, TLC, Json, IOUtils

T == ndJsonDeserialize(IOEnv.TRACE_FILE)
VARIABLES frames, wl, box, hit, l
tv == <<frames, wl, box, hit, l>>
Slack == 8 + 1
Ev == T[l]
Is(e) == l <= Len(T) /\ Ev.ev = e /\ l' = l + 1
SetOf(s) == { s[k] : k \in DOMAIN s }
Reject(id, cl) == cl # {} => PrintT(<<"REJECT", id, cl>>)
Pairs(s) == [k \in DOMAIN s |-> <<s[k][1], s[k][2]>>]

TRobot == /\ Is("robot") /\ frames' = SetOf(Ev.frames)
          /\ wl' = [F \in SetOf(Ev.frames) |-> SetOf(Ev.wl[F])]
          /\ box' = <<>> /\ hit' = <<>>
TState == /\ Is("state")
          /\ box' = [F \in frames |-> Ev.box[F]]
          /\ hit' = [F \in frames |-> SetOf(Ev.hit[F])]
          /\ Reject(Ev.id, IF Ev.exc # "none" THEN {"NoException"}
                           ELSE IF \A F \in frames : Ev.poseTicks[F] <= Slack THEN {} ELSE {"PoseFollowsTM"})
          /\ UNCHANGED <<frames, wl>>
Keep == UNCHANGED <<frames, wl, box, hit>>
TQCol  == /\ Is("qcollider") /\ Keep
          /\ Reject(Ev.id, IF Ev.exc # "none" THEN {"NoException"}
                           ELSE IF QColliderExact(frames, box, Ev.q, SetOf(Ev.whitelist), SetOf(Ev.result)) /\ Len(Ev.result) = Cardinality(SetOf(Ev.result))
                                THEN {} ELSE {"QColliderExact"})
TQOther == /\ Is("qother") /\ Keep
           /\ Reject(Ev.id, IF Ev.exc # "none" THEN {"NoException"}
                            ELSE IF QOtherExact(frames, box, Ev.other, Pairs(Ev.pairs)) THEN {} ELSE {"QOtherExact"})
TQSelf == /\ Is("qself") /\ Keep
          /\ Reject(Ev.id, IF Ev.exc # "none" THEN {"NoException"}
                           ELSE IF QSelfExact(frames, box, Pairs(Ev.pairs)) THEN {} ELSE {"QSelfExact"})
TDetect == /\ Is("detect") /\ Keep
           /\ LET c == [F \in SetOf(Ev.marked) |-> F \in SetOf(Ev.colliding)] IN
              Reject(Ev.id, IF Ev.exc # "none" THEN {"NoException"}
                            ELSE {x \in {"DetectComplete", "DetectSound", "DetectTotal"} :
                                    ~ CASE x = "DetectComplete" -> DetectComplete(frames, wl, hit, c)
                                        [] x = "DetectSound"    -> DetectSound(frames, wl, hit, c)
                                        [] x = "DetectTotal"    -> DetectTotal(frames, c)})
TAny == /\ Is("detectany") /\ Keep
        /\ Reject(Ev.id, IF Ev.exc # "none" THEN {"NoException"}
                         ELSE IF DetectAnyExact(frames, wl, hit, Ev.any) THEN {} ELSE {"DetectAnyExact"})
TEnd == Is("end") /\ Keep /\ PrintT(<<"JUDGED", Ev.count, 0>>)

TInit == frames = {} /\ wl = <<>> /\ box = <<>> /\ hit = <<>> /\ l = 1
TNext == TRobot \/ TState \/ TQCol \/ TQOther \/ TQSelf \/ TDetect \/ TAny \/ TEnd
TSpec == TInit /\ [][TNext]_tv
Consumed == TLCGet("stats").diameter - 1 = Len(T)
=============================================================================
