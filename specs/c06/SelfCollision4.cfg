SPECIFICATION Spec
CONSTANTS
  N = 4
  CandChoice = "hit"
INVARIANT DetectOK
INVARIANT DetectAnyOK
