SPECIFICATION Spec
CONSTANT N = 4
INVARIANT DetectOK
INVARIANT DetectAnyOK
