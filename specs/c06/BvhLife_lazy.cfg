SPECIFICATION Spec
CONSTANTS
  H = {"r", "o"}
  Cs = {"c1", "c2"}
  Rebuild = "lazy_own"
  MaxSteps = 4
  Emit = "witness"
INVARIANT EmitHist
