------------------------------- MODULE BvhLife -------------------------------
(* C06 - EXPLORER of the life cycle of BoundingVolumeHierarchy (broad_phase.py): two hierarchies over their transform
   managers, each collider with the version of its pose in the transform manager (tm), in the collider object (col) and
   in the AABB tree (tree).

     Move(h, c)        the user changes a joint / transform: tm[h][c] grows
     Update(h)         update_collider_poses(): every collider gets the transform manager's pose and - in the library,
                       Rebuild = "eager" - the tree is rebuilt from the colliders at once
     QOwn(h)           aabb_overlapping_colliders / aabb_overlapping_with_self: reads h's tree
     QOther(h, g)      h.aabb_overlapping_with_other_bvh(g): reads h's tree and g's tree
     AddCollider(h)    add_collider(): the new collider enters the tree with its current pose

   The property quantifies over histories in which every pose change is followed by update_collider_poses before the
   next query (Synced); then every query must read trees that hold the latest poses:
     TreesCurrent   a query never reads a tree entry older than the collider's pose at the hierarchy's last update
   Design constant Rebuild: "eager" (library); "lazy_own" = update_collider_poses only marks the tree dirty and a query
   rebuilds the tree of the hierarchy it is called ON (not of the other hierarchy it reads) - must violate TreesCurrent:
   [Move(g,c), Update(g), QOther(h,g)] (the regression of seed C06-5). *)
EXTENDS Integers, Sequences, FiniteSets, TLC, Json
CONSTANTS H, Cs, Rebuild, MaxSteps, Emit
VARIABLES tm, col, tree, dirty, bad, steps, hist
vars == <<tm, col, tree, dirty, bad, steps, hist>>

Init == /\ tm = [h \in H |-> [c \in Cs |-> 0]] /\ col = tm /\ tree = tm
        /\ dirty = [h \in H |-> FALSE] /\ bad = "" /\ steps = 0 /\ hist = <<>>
Tick == steps < MaxSteps /\ bad = "" /\ steps' = steps + 1
Log(op, h, g, c) == hist' = Append(hist, [op |-> op, h |-> h, g |-> g, c |-> c])
Synced(h) == \A c \in Cs : col[h][c] = tm[h][c]

Move(h, c) == /\ Tick /\ Log("move", h, h, c) /\ tm' = [tm EXCEPT ![h][c] = @ + 1] /\ UNCHANGED <<col, tree, dirty, bad>>
Update(h) == /\ Tick /\ Log("update", h, h, "-") /\ col' = [col EXCEPT ![h] = tm[h]]
             /\ IF Rebuild = "eager" THEN tree' = [tree EXCEPT ![h] = tm[h]] /\ UNCHANGED dirty
                ELSE dirty' = [dirty EXCEPT ![h] = TRUE] /\ UNCHANGED tree
             /\ UNCHANGED <<tm, bad>>
Refresh(h, t) == IF dirty[h] THEN [t EXCEPT ![h] = col[h]] ELSE t
QOwn(h) == /\ Tick /\ Synced(h) /\ Log("qown", h, h, "-")
           /\ LET t == Refresh(h, tree) IN
              /\ tree' = t /\ dirty' = [dirty EXCEPT ![h] = FALSE]
              /\ bad' = IF t[h] # col[h] THEN "stale tree in own query" ELSE ""
           /\ UNCHANGED <<tm, col>>
QOther(h, g) == /\ h # g /\ Tick /\ Synced(h) /\ Synced(g) /\ Log("qother", h, g, "-")
                /\ LET t == Refresh(h, tree) IN
                   /\ tree' = t /\ dirty' = [dirty EXCEPT ![h] = FALSE]
                   /\ bad' = IF t[h] # col[h] \/ t[g] # col[g] THEN "stale tree in cross query" ELSE ""
                /\ UNCHANGED <<tm, col>>
Next == \/ \E h \in H, c \in Cs : Move(h, c)
        \/ \E h \in H : Update(h) \/ QOwn(h)
        \/ \E h, g \in H : QOther(h, g)
Spec == Init /\ [][Next]_vars

TreesCurrent == bad = ""
(* behaviours for the replay on real hierarchies: complete histories of the library design, or (Emit = "witness") every
   history that exposes the design regression *)
EmitHist == /\ (Emit = "hist" /\ steps = MaxSteps) => PrintT(<<"HIST", ToJson(hist)>>)
            /\ (Emit = "witness" /\ bad # "") => PrintT(<<"WITNESS", ToJson(hist)>>)
=============================================================================
