SPECIFICATION TSpec
POSTCONDITION Consumed
CHECK_DEADLOCK FALSE
