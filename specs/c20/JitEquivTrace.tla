--------------------------- MODULE JitEquivTrace ---------------------------
(* batch trace validation of paired call records against JitEquiv *)
EXTENDS JitEquiv, TLC, Json, IOUtils
T == ndJsonDeserialize(IOEnv.TRACE_FILE)
Bad == {i \in 1..Len(T) : Failing(T[i]) # {}}
ASSUME \A i \in Bad : PrintT(<<"REJECT", T[i].id, Failing(T[i])>>)
ASSUME PrintT(<<"JUDGED", Len(T), Cardinality(Bad)>>)
VARIABLE x
Init == x = 0
Next == UNCHANGED x
=============================================================================
