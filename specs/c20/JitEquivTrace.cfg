INIT Init
NEXT Next
