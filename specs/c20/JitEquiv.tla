------------------------------ MODULE JitEquiv ------------------------------
(* C20 - JUDGE of one call executed twice: in an interpreter running the library with numba compilation
   (as installed) and in one running it with NUMBA_DISABLE_JIT=1 (as the README runs the tests).
   The harness (harness/jitdiff.py, harness/props/c20.py) executes the same deterministic call list in
   both processes and pairs the serialised outputs by call id.  A record carries
     cls       "closed" (closed-form numeric), "iter" (iterative solver), "discrete" (booleans, index
               sets, structured integer results)
     excJ/excI the exception type raised in the compiled / interpreted run ("none")
     shape     both outputs have the same structure (lengths, kinds of entries)
     ticks     largest difference of corresponding numbers in units of tol/8, tol = 1e-9 relative for
               closed forms and the accuracy stated in C01, C07-C09 for iterative solvers
     same      the discrete parts of the two outputs are equal
     boundary  the input lies in the grazing band of the decision the function takes (then booleans
               and exception types may legitimately differ by rounding)
     inputsSame  both processes were given bit-identical arguments (harness self-check)          *)
EXTENDS Integers, Sequences, FiniteSets
Slack == 8 + 1
Clauses == {"SameInputs", "SameException", "SameStructure", "NumbersAgree", "DiscreteAgree"}
Holds(c, r) ==
  LET both == r.excJ = "none" /\ r.excI = "none" IN
  CASE c = "SameInputs"     -> r.inputsSame
    [] c = "SameException"  -> ~r.boundary => r.excJ = r.excI
    [] c = "SameStructure"  -> (both /\ ~r.boundary) => r.shape
    [] c = "NumbersAgree"   -> (both /\ r.shape /\ ~r.boundary) => r.ticks <= Slack
    [] c = "DiscreteAgree"  -> (both /\ r.shape /\ ~r.boundary) => r.same
(* Named input patterns of known findings (described by the harness from the input, not from the outcome):
     epa_incomplete_simplex   EPA started from a GJK simplex with fewer than four points (C07's finding): what EPA does
                              with the uninitialised rows differs between the two modes
     clamped_line_optimum     line_segment_to_circle clamps the optimum of the infinite line to the segment (C11's
                              finding): which local minimum is returned depends on rounding *)
Failing(r) ==
  LET f == {c \in Clauses : ~Holds(c, r)}
      allowed == IF r.zone = "clamped_line_optimum" THEN {"NumbersAgree"}
                 ELSE IF r.zone = "epa_incomplete_simplex" THEN {"SameException", "NumbersAgree", "DiscreteAgree", "SameStructure"}
                 ELSE {} IN
  IF f # {} /\ f \subseteq allowed THEN f \cup {"ZONE_" \o r.zone} ELSE f
=============================================================================
