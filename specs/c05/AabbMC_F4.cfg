SPECIFICATION Spec
CONSTANTS Pool <- PoolF  Probes <- ProbesF  MaxIns = 4  MaxBatch = 3  Modes <- AllModes  SortVariant = "offset"  EmptyGuard = TRUE
INVARIANT NoOOB
INVARIANT QueriesExact
INVARIANT TreeQueryExact
INVARIANT WellFormed
INVARIANT RefinesJudge
INVARIANT RootBoxIsUnion
INVARIANT EmitHistory
