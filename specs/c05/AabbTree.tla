------------------------------ MODULE AabbTree ------------------------------
(* C05 - JUDGE: what the AABB tree API promises, in the vocabulary of the
   property.  The abstract state is the bag of inserted boxes; a box is
   <<<<xlo,xhi>>, <<ylo,yhi>>, <<zlo,zhi>>>> with integer (lattice) bounds.
   Nothing here mentions nodes, parents or traversal order. *)
EXTENDS Integers, Sequences, FiniteSets

NoData == -1                       \* the API stores None for a box without payload

VARIABLES leaves,                  \* set of [ins |-> k, box |-> b, data |-> d], k = 0,1,2,... in insertion order
          nextIns                  \* number of boxes inserted so far

ClosedOverlap(b, c) == \A k \in 1..3 : b[k][1] <= c[k][2] /\ b[k][2] >= c[k][1]

JInit == leaves = {} /\ nextIns = 0

(* insert_aabbs(batch, data, mode) / insert_aabb: every box of the batch is
   stored, whatever the pre-insertion mode; data = <<>> means "no payload" *)
JInsert(batch, data) ==
  /\ leaves' = leaves \cup { [ins  |-> nextIns + i - 1,
                               box  |-> batch[i],
                               data |-> IF data = <<>> THEN NoData ELSE data[i]] : i \in 1..Len(batch) }
  /\ nextIns' = nextIns + Len(batch)

Hits(q) == { l \in leaves : ClosedOverlap(l.box, q) }

(* result of overlaps_aabb(q): sequence of [ins, data] obtained by looking the
   returned internal indices up in insert_index_list / external_data_list *)
NoneMissing(q, r)    == \A l \in Hits(q) : \E k \in DOMAIN r : r[k].ins = l.ins
NoneSpurious(q, r)   == \A k \in DOMAIN r : \E l \in Hits(q) : l.ins = r[k].ins
NoneDuplicated(r)    == \A j, k \in DOMAIN r : j # k => r[j].ins # r[k].ins
PayloadMaps(r)       == \A k \in DOMAIN r : \A l \in leaves : l.ins = r[k].ins => l.data = r[k].data
FlagConsistent(q, f) == f = (Hits(q) # {})

(* tree-against-tree: other = sequence of boxes of the second tree (its own
   insertion indices 0..), pairs = sequence of <<ins1, ins2>> *)
PairSet(other) == { <<l.ins, j - 1>> : l \in leaves, j \in DOMAIN other } \cap
                  { p \in (0..(nextIns - 1)) \X (0..(Len(other) - 1)) :
                      \E l \in leaves : l.ins = p[1] /\ ClosedOverlap(l.box, other[p[2] + 1]) }
PairsExact(other, pairs) ==
  /\ { pairs[k] : k \in DOMAIN pairs } = PairSet(other)
  /\ \A j, k \in DOMAIN pairs : j # k => pairs[j] # pairs[k]
UniqueConsistent(pairs, u1, u2) ==
  /\ { u1[k] : k \in DOMAIN u1 } = { pairs[k][1] : k \in DOMAIN pairs } /\ Len(u1) = Cardinality({ u1[k] : k \in DOMAIN u1 })
  /\ { u2[k] : k \in DOMAIN u2 } = { pairs[k][2] : k \in DOMAIN pairs } /\ Len(u2) = Cardinality({ u2[k] : k \in DOMAIN u2 })

(* get_root_aabb: the union box of everything inserted (defined for a non-empty tree) *)
MinOf(S) == CHOOSE x \in S : \A y \in S : x <= y
MaxOf(S) == CHOOSE x \in S : \A y \in S : x >= y
UnionBox == [k \in 1..3 |-> << MinOf({l.box[k][1] : l \in leaves}), MaxOf({l.box[k][2] : l \in leaves}) >>]
=============================================================================
