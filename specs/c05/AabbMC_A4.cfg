SPECIFICATION Spec
CONSTANTS Pool <- PoolA  Probes <- ProbesA  MaxIns = 4  MaxBatch = 3  Modes <- AllModes  SortVariant = "offset"  EmptyGuard = TRUE
INVARIANT NoOOB
INVARIANT QueriesExact
INVARIANT TreeQueryExact
INVARIANT WellFormed
INVARIANT RefinesJudge
INVARIANT RootBoxIsUnion
INVARIANT EmitHistory
