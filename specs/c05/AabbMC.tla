------------------------------- MODULE AabbMC -------------------------------
EXTENDS AabbTreeImpl
B(x1, x2, y1, y2, z1, z2) == <<<<x1, x2>>, <<y1, y2>>, <<z1, z2>>>>
(* generic pool: touching, nested, duplicate, point, disjoint *)
PoolA == << B(0,1,0,1,0,1), B(1,2,0,1,0,1), B(0,2,0,2,0,2), B(3,4,3,4,3,4),
            B(0,1,0,1,0,1), B(1,1,1,1,1,1) >>
(* flat pool: coplanar zero-volume plates and a segment *)
PoolF == << B(0,1,0,0,0,1), B(2,3,0,0,0,1), B(5,6,0,0,2,3), B(0,6,0,0,0,0), B(1,2,0,0,1,2) >>
Grid(pool) == LET cs == UNION { {pool[i][k][1], pool[i][k][2]} : i \in DOMAIN pool, k \in 1..3 } IN cs
ProbesOf(pool) == { pool[i] : i \in DOMAIN pool } \cup
                  { B(a, a, b, b, c, c) : a \in Grid(pool), b \in {0, 1}, c \in {0, 1} } \cup
                  { B(-2, -1, 0, 1, 0, 1), B(0, 6, 0, 6, 0, 6) }
ProbesA == ProbesOf(PoolA)
ProbesF == ProbesOf(PoolF)
AllModes == {"none", "sort", "shuffle"}
=============================================================================
