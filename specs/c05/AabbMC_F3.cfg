SPECIFICATION Spec
CONSTANTS Pool <- PoolF  Probes <- ProbesF  MaxIns = 3  MaxBatch = 2  Modes <- AllModes  SortVariant = "offset"  EmptyGuard = TRUE
INVARIANT NoOOB
INVARIANT QueriesExact
INVARIANT TreeQueryExact
INVARIANT WellFormed
INVARIANT RefinesJudge
INVARIANT RootBoxIsUnion
INVARIANT EmitHistory
