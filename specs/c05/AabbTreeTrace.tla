---------------------------- MODULE AabbTreeTrace ----------------------------
(* C05 - binds recorded runs of the real AabbTree to the judge (module AabbTree).
   The ndjson file named by TRACE_FILE holds many histories; each starts with a
   "new" event.  Events:
     new      a fresh AabbTree()
     insert   insert_aabbs(boxes, data, mode)    data = <<>> for "no payload"
     probe    results of overlaps_aabb for a list of query boxes, each result the
              returned internal indices looked up in insert_index_list /
              external_data_list, plus the is_overlapping flag and the exception
              class ("none" if none; "crashed" if the process died)
     tree     overlaps_aabb_tree(other): other's boxes in its insertion order,
              pairs mapped to <<ins1, ins2>>, unique index lists, flag
     rootbox  get_root_aabb()
   One TLC state per event; the judge's clauses are evaluated on every probe /
   tree / rootbox event.  A failing clause does not stop the replay: it is
   printed as REJECT with the event id, so the rest of the trace is still checked. *)
EXTENDS AabbTree, TLC, Json, IOUtils

T == ndJsonDeserialize(IOEnv.TRACE_FILE)
VARIABLE l
tvars == <<leaves, nextIns, l>>

Ev == T[l]
Is(e) == l <= Len(T) /\ Ev.ev = e /\ l' = l + 1

ProbeFailing(p) ==   \* p = [q, res, flag, exc]
  IF p.exc # "none" THEN {"NoException"}
  ELSE {c \in {"NoneMissing", "NoneSpurious", "NoneDuplicated", "PayloadMaps", "FlagConsistent"} :
          ~ CASE c = "NoneMissing"    -> NoneMissing(p.q, p.res)
              [] c = "NoneSpurious"   -> NoneSpurious(p.q, p.res)
              [] c = "NoneDuplicated" -> NoneDuplicated(p.res)
              [] c = "PayloadMaps"    -> PayloadMaps(p.res)
              [] c = "FlagConsistent" -> FlagConsistent(p.q, p.flag)}

TreeFailing(e) ==
  IF e.exc # "none" THEN {"NoException"}
  ELSE {c \in {"TreeTreePairs", "UniqueListsConsistent", "FlagConsistent"} :
          ~ CASE c = "TreeTreePairs"         -> PairsExact(e.other, e.pairs)
              [] c = "UniqueListsConsistent" -> UniqueConsistent(e.pairs, e.u1, e.u2)
              [] c = "FlagConsistent"        -> e.flag = (PairSet(e.other) # {})}

Reject(id, cl) == cl # {} => PrintT(<<"REJECT", id, cl>>)

TNew    == Is("new")    /\ leaves' = {} /\ nextIns' = 0
TInsert == Is("insert") /\ JInsert(Ev.boxes, Ev.data)
TProbe  == /\ Is("probe")
           /\ \A k \in DOMAIN Ev.probes : Reject(Ev.probes[k].id, ProbeFailing(Ev.probes[k]))
           /\ UNCHANGED <<leaves, nextIns>>
TTree   == /\ Is("tree") /\ Reject(Ev.id, TreeFailing(Ev)) /\ UNCHANGED <<leaves, nextIns>>
TRoot   == /\ Is("rootbox")
           /\ Reject(Ev.id, IF Ev.exc # "none" THEN {"NoException"}
                            ELSE IF Ev.box = UnionBox THEN {} ELSE {"RootBoxIsUnion"})
           /\ UNCHANGED <<leaves, nextIns>>
TEnd    == /\ Is("end") /\ PrintT(<<"JUDGED", Ev.count, 0>>) /\ UNCHANGED <<leaves, nextIns>>

TInit == JInit /\ l = 1
TNext == TNew \/ TInsert \/ TProbe \/ TTree \/ TRoot \/ TEnd
TSpec == TInit /\ [][TNext]_tvars

(* acceptance: the whole file was consumed *)
Consumed == TLCGet("stats").diameter - 1 = Len(T)
=============================================================================
