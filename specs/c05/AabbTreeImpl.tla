---------------------------- MODULE AabbTreeImpl ----------------------------
(* C05 - EXPLORER: the array-based tree of distance3d/aabb_tree.py, line by line.

   Python level (AabbTree.insert_aabbs):  filled_len arithmetic, growth of the
   node / box / payload / insert-index arrays, choice of the insertion order
   (none / sort / shuffle), truncation.  Compiled level: insert_leaf (descent by
   merged-volume cost, new parent at index filled_len, relinking),
   fix_upward_tree, query_overlap (explicit LIFO stack), and
   query_overlap_of_other_tree.  Arrays are 0-based in the code; here a sequence
   s models the array with s[i+1] = array[i].  Index NONE = -1.

   One action per step of the real control flow: BeginBatch, InsertLeaf (one leaf
   per step, so that "shuffle" is a nondeterministic choice TLC explores),
   EndBatch.  Queries are pure functions of a quiescent state and are checked as
   invariants against the judge (module AabbTree) for every probe box. *)
EXTENDS AabbTree, TLC, Json

CONSTANTS Pool,          \* sequence of lattice boxes available for insertion
          Probes,        \* set of query boxes
          MaxIns,        \* bound on the number of inserted boxes
          MaxBatch,      \* bound on the batch size
          Modes,         \* subset of {"none", "sort", "shuffle"}
          SortVariant,   \* "offset" (code after the fix) | "argument_slice" (code as first found)
          EmptyGuard     \* TRUE: queries return at once on a tree without root (code after the fix)

VARIABLES nodes, boxes, root, filled, ext, ins, insMax,   \* fields of the Python object
          pending,       \* insertion order still to be processed (sequence of array indices), or <<>>
          pmode,         \* "idle" | "ordered" | "shuffle"
          oob,           \* TRUE once an array index outside its array was used
          hist           \* history variable: the public calls made so far, <<[boxes, data, mode], ...>>

ivars == <<nodes, boxes, root, filled, ext, ins, insMax, pending, pmode, oob, hist>>
vars  == <<leaves, nextIns, ivars>>

NONE == -1
OOBRES == -2      \* query result marker: an index outside the arrays was used
LOOPRES == -3     \* query result marker: traversal did not terminate within 2n+2 steps
LEAF == 1
BRANCH == 2
ZeroBox == <<<<0, 0>>, <<0, 0>>, <<0, 0>>>>
NoneRow == [p |-> NONE, l |-> NONE, r |-> NONE, t |-> NONE]

At(s, i)        == s[i + 1]
Upd(s, i, v)    == [s EXCEPT ![i + 1] = v]
InDom(s, i)     == i >= 0 /\ i < Len(s)
Rep(v, n)       == [k \in 1..n |-> v]
Mn(a, b)        == IF a <= b THEN a ELSE b
Mx(a, b)        == IF a >= b THEN a ELSE b
Merge(b, c)     == [k \in 1..3 |-> <<Mn(b[k][1], c[k][1]), Mx(b[k][2], c[k][2])>>]
Vol(b)          == (b[1][2] - b[1][1]) * (b[2][2] - b[2][1]) * (b[3][2] - b[3][1])

Init ==
  /\ JInit
  /\ nodes = <<>> /\ boxes = <<>> /\ root = NONE /\ filled = 0
  /\ ext = <<>> /\ ins = <<>> /\ insMax = 0
  /\ pending = <<>> /\ pmode = "idle" /\ oob = FALSE /\ hist = <<>>

(* ---------------- Python level: AabbTree.insert_aabbs ---------------- *)
Perms(S) == { f \in [1..Cardinality(S) -> S] : \A i, j \in 1..Cardinality(S) : i # j => f[i] # f[j] }

(* argsort of the x-lower bounds of a sequence of boxes: any permutation of the
   0-based positions that is sorted by key (numpy's default sort is not stable) *)
ArgSorts(bs) ==
  { f \in Perms(0..(Len(bs) - 1)) :
      \A i, j \in 1..Len(bs) : i < j => bs[f[i] + 1][1][1] <= bs[f[j] + 1][1][1] }

BeginBatch(batch, data, mode) ==
  LET n        == Len(batch)
      old      == filled
      newFill  == filled + n
      nodes1   == nodes \o Rep(NoneRow, 2 * (newFill - Len(nodes)))
      boxes1   == boxes \o batch
      boxes2   == boxes1 \o Rep(ZeroBox, Len(nodes1) - Len(boxes1))
      ext1     == IF data = <<>> THEN ext ELSE ext \o data
      ext2     == ext1 \o Rep(NoData, Len(nodes1) - Len(ext1))
      ins1     == ins \o [k \in 1..n |-> insMax + k - 1]
      ins2     == ins1 \o Rep(NONE, Len(nodes1) - Len(ins1))
      plain    == [k \in 1..n |-> old + k - 1]
  IN
  /\ pmode = "idle" /\ ~oob
  /\ n >= 1
  /\ JInsert(batch, data)
  /\ hist' = Append(hist, [boxes |-> batch, data |-> data, mode |-> mode])
  /\ filled' = newFill
  /\ nodes' = nodes1 /\ boxes' = boxes2 /\ ext' = ext2 /\ ins' = ins2
  /\ insMax' = insMax + n
  /\ CASE mode = "none"    -> pending' = plain /\ pmode' = "ordered"
       [] mode = "shuffle" -> pending' = plain /\ pmode' = "shuffle"
       [] mode = "sort"    ->
            /\ IF SortVariant = "offset"
               THEN \E f \in ArgSorts(batch) : pending' = [k \in 1..n |-> old + f[k]]
               ELSE \* insert_order = _sort_aabbs(aabbs[old_filled_len : len(self.nodes) - self.filled_len])
                    \* a Python slice of the ARGUMENT; its argsort positions are used as array indices
                    LET lo == Mn(old, n)
                        hi == Mx(lo, Mn(Len(nodes1) - newFill, n))
                        sl == SubSeq(batch, lo + 1, hi)
                    IN  \E f \in ArgSorts(sl) : pending' = [k \in 1..Len(sl) |-> f[k]]
            /\ pmode' = "ordered"
  /\ UNCHANGED <<root, oob>>

(* ---------------- compiled level: insert_leaf, fix_upward_tree ---------------- *)
RECURSIVE Descend(_, _, _, _)
Descend(nd, bx, leaf, cur) ==
  IF At(nd, cur).t = BRANCH
  THEN LET l  == At(nd, cur).l
           r  == At(nd, cur).r
           cl == Vol(Merge(At(bx, leaf), At(bx, l)))
           cr == Vol(Merge(At(bx, leaf), At(bx, r)))
       IN  IF cl < cr THEN Descend(nd, bx, leaf, l) ELSE Descend(nd, bx, leaf, r)
  ELSE cur

RECURSIVE FixUp(_, _, _)
FixUp(nd, bx, i) ==
  IF i = NONE THEN bx
  ELSE FixUp(nd, Upd(bx, i, Merge(At(bx, At(nd, i).l), At(bx, At(nd, i).r))), At(nd, i).p)

InsertLeafStep(leaf) ==
  IF ~InDom(nodes, leaf) \/ ~InDom(nodes, filled)
  THEN oob' = TRUE /\ UNCHANGED <<nodes, boxes, root, filled>>
  ELSE
  LET nd0 == Upd(nodes, leaf, [At(nodes, leaf) EXCEPT !.t = LEAF]) IN
  IF root = NONE
  THEN /\ root' = leaf /\ nodes' = nd0
       /\ UNCHANGED <<boxes, filled, oob>>
  ELSE
  LET sib    == Descend(nd0, boxes, leaf, root)
      oldPar == At(nd0, sib).p
      np     == filled
      nd1    == Upd(nd0, np, [p |-> oldPar, l |-> sib, r |-> leaf, t |-> BRANCH])
      bx1    == Upd(boxes, np, Merge(At(boxes, leaf), At(boxes, sib)))
      nd2    == Upd(nd1, leaf, [At(nd1, leaf) EXCEPT !.p = np])
      nd3    == Upd(nd2, sib, [At(nd2, sib) EXCEPT !.p = np])
      nd4    == IF oldPar = NONE THEN nd3
                ELSE IF At(nd3, oldPar).l = sib
                     THEN Upd(nd3, oldPar, [At(nd3, oldPar) EXCEPT !.l = np])
                     ELSE Upd(nd3, oldPar, [At(nd3, oldPar) EXCEPT !.r = np])
  IN /\ root' = IF oldPar = NONE THEN np ELSE root
     /\ nodes' = nd4
     /\ boxes' = FixUp(nd4, bx1, At(nd4, leaf).p)
     /\ filled' = filled + 1
     /\ UNCHANGED oob

InsertLeaf ==
  /\ pmode \in {"ordered", "shuffle"} /\ pending # <<>> /\ ~oob
  /\ \E k \in (IF pmode = "shuffle" THEN DOMAIN pending ELSE {1}) :
        /\ InsertLeafStep(pending[k])
        /\ pending' = [j \in 1..(Len(pending) - 1) |-> IF j < k THEN pending[j] ELSE pending[j + 1]]
  /\ UNCHANGED <<leaves, nextIns, ext, ins, insMax, pmode, hist>>

EndBatch ==
  /\ pmode # "idle" /\ pending = <<>> /\ ~oob
  /\ nodes' = SubSeq(nodes, 1, filled) /\ boxes' = SubSeq(boxes, 1, filled)
  /\ ext' = SubSeq(ext, 1, filled) /\ ins' = SubSeq(ins, 1, filled)
  /\ pmode' = "idle"
  /\ UNCHANGED <<leaves, nextIns, root, filled, insMax, pending, oob, hist>>

(* ---------------- compiled level: query_overlap (LIFO stack) ---------------- *)
RECURSIVE QueryLoop(_, _, _, _)
(* returns the sequence of leaf indices in the order the code appends them, or
   <<OOBRES>> (a marker) if it would index outside the arrays; fuel bounds the loop for TLC *)
QueryLoop(q, stack, acc, fuel) ==
  IF stack = <<>> THEN acc
  ELSE IF fuel = 0 THEN <<LOOPRES>>
  ELSE
  LET i    == stack[Len(stack)]
      rest == SubSeq(stack, 1, Len(stack) - 1)
  IN  IF ~InDom(boxes, i) \/ ~InDom(nodes, i) THEN <<OOBRES>>
      ELSE IF ClosedOverlap(At(boxes, i), q)
           THEN IF At(nodes, i).t = LEAF THEN QueryLoop(q, rest, Append(acc, i), fuel - 1)
                ELSE QueryLoop(q, rest \o <<At(nodes, i).l, At(nodes, i).r>>, acc, fuel - 1)
           ELSE QueryLoop(q, rest, acc, fuel - 1)

Query(q) == IF EmptyGuard /\ root = NONE THEN <<>>
            ELSE QueryLoop(q, <<root>>, <<>>, 2 * Len(nodes) + 2)

(* ---------------- compiled level: query_overlap_of_other_tree, with the tree queried against ITSELF ----------------
   The traversal walks tree 2 with a LIFO stack; a branch is descended when query_overlap(its box, tree 1,
   break_at_first_leaf) finds a leaf (the early break only truncates the result, so "found one" = Query(box) # <<>>);
   a leaf contributes the pairs <<leaf of tree 1, itself>> for every leaf Query returns.  Result: sequence of pairs. *)
RECURSIVE TreeLoop(_, _, _)
BadPairs == <<<<OOBRES, OOBRES>>>>                       \* marker: an index outside the arrays / no termination
TreeLoop(stack, acc, fuel) ==
  IF stack = <<>> THEN acc
  ELSE IF fuel = 0 THEN BadPairs
  ELSE
  LET i    == stack[Len(stack)]
      rest == SubSeq(stack, 1, Len(stack) - 1)
  IN  IF ~InDom(boxes, i) \/ ~InDom(nodes, i) THEN BadPairs
      ELSE LET ov == Query(At(boxes, i)) IN
           IF Len(ov) = 1 /\ ov[1] < 0 THEN BadPairs
           ELSE IF At(nodes, i).t = BRANCH
                THEN IF Len(ov) >= 1 THEN TreeLoop(rest \o <<At(nodes, i).l, At(nodes, i).r>>, acc, fuel - 1)
                     ELSE TreeLoop(rest, acc, fuel - 1)
                ELSE IF At(nodes, i).t = LEAF
                     THEN TreeLoop(rest, acc \o [k \in DOMAIN ov |-> <<ov[k], i>>], fuel - 1)
                     ELSE TreeLoop(rest, acc, fuel - 1)
SelfTreeQuery == IF EmptyGuard /\ root = NONE THEN <<>> ELSE TreeLoop(<<root>>, <<>>, 2 * Len(nodes) + 2)

AsResult(idx) == [k \in DOMAIN idx |-> [ins |-> At(ins, idx[k]), data |-> At(ext, idx[k])]]

(* ---------------- next-state relation ---------------- *)
Batches == UNION { [1..n -> DOMAIN Pool] : n \in 1..MaxBatch }

Next ==
  \/ \E sel \in Batches, mode \in Modes, withData \in BOOLEAN :
        /\ nextIns + Len(sel) <= MaxIns
        /\ BeginBatch([k \in DOMAIN sel |-> Pool[sel[k]]],
                      IF withData THEN [k \in DOMAIN sel |-> 100 + nextIns + k - 1] ELSE <<>>,
                      mode)
  \/ InsertLeaf
  \/ EndBatch

Spec == Init /\ [][Next]_vars

(* ---------------- properties ---------------- *)
Quiescent == pmode = "idle" /\ ~oob

NoOOB == ~oob

QueriesExact ==
  Quiescent =>
    \A q \in Probes :
      LET idx == Query(q) IN
      /\ idx # <<OOBRES>> /\ idx # <<LOOPRES>>
      /\ LET r == AsResult(idx) IN
         /\ NoneMissing(q, r) /\ NoneSpurious(q, r) /\ NoneDuplicated(r) /\ PayloadMaps(r)

(* tree-vs-tree query of the tree against itself: exactly the overlapping leaf pairs, each once *)
TreeQueryExact ==
  Quiescent =>
    LET pr == SelfTreeQuery IN
    /\ pr # BadPairs
    /\ LET L == { i \in 0..(Len(nodes) - 1) : At(nodes, i).t = LEAF }
           S == { pr[k] : k \in DOMAIN pr }
       IN /\ S = { <<i, j>> \in L \X L : ClosedOverlap(At(boxes, i), At(boxes, j)) }
          /\ Cardinality(S) = Len(pr)

(* structural well-formedness: mutual links, every stored box reachable, branch
   box = union of its children, exactly 2n-1 nodes *)
LeafIdx   == { i \in 0..(Len(nodes) - 1) : At(nodes, i).t = LEAF }
BranchIdx == { i \in 0..(Len(nodes) - 1) : At(nodes, i).t = BRANCH }
WellFormed ==
  Quiescent =>
    /\ Len(nodes) = filled /\ Len(boxes) = filled /\ Len(ext) = filled /\ Len(ins) = filled
    /\ (nextIns = 0) = (root = NONE)
    /\ nextIns > 0 => filled = 2 * nextIns - 1
    /\ Cardinality(LeafIdx) = nextIns
    /\ \A i \in BranchIdx :
         /\ InDom(nodes, At(nodes, i).l) /\ InDom(nodes, At(nodes, i).r)
         /\ At(nodes, At(nodes, i).l).p = i /\ At(nodes, At(nodes, i).r).p = i
         /\ At(boxes, i) = Merge(At(boxes, At(nodes, i).l), At(boxes, At(nodes, i).r))
    /\ \A i \in 0..(Len(nodes) - 1) : (At(nodes, i).p = NONE) = (i = root)
    /\ { At(ins, i) : i \in LeafIdx } = 0..(nextIns - 1)

(* refinement of the judge's bag by the leaf rows *)
RefinesJudge ==
  Quiescent =>
    { [ins |-> At(ins, i), box |-> At(boxes, i), data |-> At(ext, i)] : i \in LeafIdx } = leaves

(* S->C: every quiescent state's call history is printed as one JSON line and
   replayed on the real tree by the harness (always TRUE) *)
EmitHistory == (Quiescent /\ hist # <<>>) => PrintT(<<"HIST", ToJson(hist)>>)

RootBoxIsUnion == (Quiescent /\ root # NONE) => At(boxes, root) = UnionBox
=============================================================================
