SPECIFICATION Spec
CONSTANTS Pool <- PoolA  Probes <- ProbesA  MaxIns = 3  MaxBatch = 2  Modes <- AllModes  SortVariant = "offset"  EmptyGuard = TRUE
INVARIANT NoOOB
INVARIANT QueriesExact
INVARIANT TreeQueryExact
INVARIANT WellFormed
INVARIANT RefinesJudge
INVARIANT RootBoxIsUnion
INVARIANT EmitHistory
