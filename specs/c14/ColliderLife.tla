---------------------------- MODULE ColliderLife ----------------------------
(* C14 - collider life cycle: a collider after update_pose behaves like a fresh one.

   JUDGE (abstract): each collider has a "last pose", the VALUE of the pose array at
   its construction or at its latest update_pose call; every observation must equal
   the observation of a fresh collider built at that value and must not raise.

   EXPLORER (how colliders.py stores poses): NumPy arrays have identity.  A collider
   keeps, per class,
     "ref"      a reference to the caller's 4x4 array        (Capsule, Cylinder, Cone, Ellipsoid, Box.box2origin, MeshGraph)
     "refcache" a reference plus data derived at call time    (Box.vertices, the mesh support functor's own reference and start vertex)
     "view"     slices of the caller's array                  (Sphere.c, Disk.c / normal, Ellipse.c / axes after update_pose)
     "copy"     a private copy                                (what a defensive implementation would do)
     "writethrough"  a reference taken at construction, and update_pose COPIES the new pose INTO the held array
                (a regression: "keep one contiguous buffer and overwrite it" - it writes into the caller's array, so every
                other collider constructed from that array moves too, and the caller's data changes behind its back)
   Views of a 4x4 array are not C-contiguous; the compiled support functions of
   Disk and Ellipse have eager typed signatures that demand contiguous arrays
   (Strict = TRUE), Sphere wraps its view in ascontiguousarray (Strict = FALSE).

   Caller histories (the quantifier of the property): fresh arrays, items of a pose
   stack, the same array object rewritten in place and passed again, several
   colliders constructed from one array.  Rewriting an array that some OTHER
   collider still holds without updating that collider is caller aliasing and is
   not part of the quantifier. *)
EXTENDS Integers, Sequences, FiniteSets, TLC, Json

CONSTANTS Cols, Arrs, Poses,      \* collider ids, array ids, pose values
          Storage,                \* "ref" | "refcache" | "view" | "copy"
          Strict,                 \* typed signature rejects strided views
          MaxSteps

VARIABLES arr,        \* Arrs -> Poses \cup {"unalloc"}
          col,        \* Cols -> [alive, ref, cache, own, viewed]
          last,       \* Cols -> Poses \cup {"none"}     (judge state)
          hist, steps

vars == <<arr, col, last, hist, steps>>
NoCol == [alive |-> FALSE, ref |-> "none", cache |-> "none", own |-> "none", viewed |-> FALSE]

Init == /\ arr = [a \in Arrs |-> "unalloc"]
        /\ col = [c \in Cols |-> NoCol]
        /\ last = [c \in Cols |-> "none"]
        /\ hist = <<>> /\ steps = 0

Holders(a) == {c \in Cols : col[c].alive /\ col[c].ref = a}

Store(c, a, viaUpdate) ==
  [alive |-> TRUE,
   ref    |-> IF Storage = "copy" THEN "none" ELSE IF Storage = "writethrough" /\ viaUpdate THEN col[c].ref ELSE a,
   cache  |-> arr'[a],                      \* data derived from the array's content at call time
   own    |-> arr'[a],
   viewed |-> (Storage = "view" /\ viaUpdate)]

(* the caller creates or rewrites array a with value p and hands it to collider c *)
Construct(c, a, p) ==
  /\ ~col[c].alive
  /\ arr[a] \in {"unalloc", p}              \* a fresh array, or an existing array holding p (shared construction)
  /\ arr' = [arr EXCEPT ![a] = p]
  /\ col' = [col EXCEPT ![c] = Store(c, a, FALSE)]
  /\ last' = [last EXCEPT ![c] = p]
  /\ hist' = Append(hist, [op |-> "construct", c |-> c, a |-> a, p |-> p])

UpdatePose(c, a, p) ==
  /\ col[c].alive
  /\ \/ arr[a] = "unalloc"                                  \* fresh array / next item of a stack
     \/ (arr[a] = p)                                        \* an existing array passed again
     \/ (Holders(a) \subseteq {c})                          \* rewritten in place, nobody else holds it
  /\ arr' = IF Storage = "writethrough" THEN [arr EXCEPT ![a] = p, ![col[c].ref] = p] ELSE [arr EXCEPT ![a] = p]
  /\ col' = [col EXCEPT ![c] = Store(c, a, TRUE)]
  /\ last' = [last EXCEPT ![c] = p]
  /\ hist' = Append(hist, [op |-> "update", c |-> c, a |-> a, p |-> p])

(* what the collider answers with: pose-dependent data read through the reference, cached data from the cache *)
Live(c)   == IF Storage = "copy" THEN col[c].own ELSE arr[col[c].ref]
Cached(c) == IF Storage = "refcache" THEN col[c].cache ELSE Live(c)
Raises(c) == Strict /\ col[c].viewed

Observe(c) ==
  /\ col[c].alive
  /\ hist' = Append(hist, [op |-> "observe", c |-> c, a |-> "-", p |-> last[c]])
  /\ UNCHANGED <<arr, col, last>>

Next == /\ steps < MaxSteps /\ steps' = steps + 1
        /\ \/ \E c \in Cols, a \in Arrs, p \in Poses : Construct(c, a, p) \/ UpdatePose(c, a, p)
           \/ \E c \in Cols : Observe(c)
Spec == Init /\ [][Next]_vars

(* ---- the property on the explorer ---- *)
Equivalent == \A c \in Cols : col[c].alive => (Live(c) = last[c] /\ Cached(c) = last[c])
NoRaise    == \A c \in Cols : col[c].alive => ~Raises(c)

(* S->C: histories ending in an observation are printed for replay on the real classes *)
Emit == (hist # <<>> /\ hist[Len(hist)].op = "observe") => PrintT(<<"HIST", ToJson(hist)>>)
=============================================================================
