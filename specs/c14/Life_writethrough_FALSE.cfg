SPECIFICATION Spec
CONSTANTS Cols = {"c1", "c2"}  Arrs = {"a1", "a2", "a3"}  Poses = {"P1", "P2", "P3"}
  Storage = "writethrough"  Strict = FALSE  MaxSteps = 5
INVARIANT Equivalent
INVARIANT NoRaise
