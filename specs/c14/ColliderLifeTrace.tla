-------------------------- MODULE ColliderLifeTrace --------------------------
(* C14 - binds recorded histories of real colliders to the judge: the trace spec
   tracks, per collider, the pose VALUE of its construction / latest update_pose
   (the id of the value, as logged by the harness at the call) and demands that
   every observation was compared with a fresh collider at exactly that value
   (r.twinPose = last[c]) and that all measured differences are within 1e-9*L
   (ticks) with no exception.
   Events: new (reset), construct, update, observe. *)
EXTENDS Integers, Sequences, FiniteSets, TLC, Json, IOUtils

T == ndJsonDeserialize(IOEnv.TRACE_FILE)
VARIABLES last, l
Slack == 8 + 1
Ev == T[l]
Is(e) == l <= Len(T) /\ Ev.ev = e /\ l' = l + 1

Upd(f, k, v) == [x \in DOMAIN f \cup {k} |-> IF x = k THEN v ELSE f[x]]

ObsFailing(e) ==
  {c \in {"TwinAtLastPose", "NoRaise", "SameSupport", "SameAabb", "SameCenter", "SameFirstVertex", "SamePose", "SameQueries", "SameAltQueries", "CallerArraysIntact"} :
     ~ CASE c = "TwinAtLastPose"  -> e.c \in DOMAIN last /\ e.twinPose = last[e.c]
         [] c = "NoRaise"         -> e.exc = "none"
         [] c = "SameSupport"     -> e.exc = "none" => e.support <= Slack
         [] c = "SameAabb"        -> e.exc = "none" => e.aabb <= Slack
         [] c = "SameCenter"      -> e.exc = "none" => e.center <= Slack
         [] c = "SameFirstVertex" -> e.exc = "none" => e.first <= Slack
         [] c = "SamePose"        -> e.exc = "none" => e.pose <= Slack
         [] c = "SameQueries"     -> e.exc = "none" => e.gjk <= Slack
         \* the other algorithms (original / Nesterov / Nesterov-primitives distance, libccd and MPR booleans), both
         \* argument orders, in ticks of their own tolerance 1e-3*L
         [] c = "SameAltQueries"  -> e.exc = "none" => e.alt <= Slack
         \* every array the caller owns (pose arrays, centre buffers) still holds what the caller wrote last
         [] c = "CallerArraysIntact" -> e.callerIntact}

Reject(id, cl) == cl # {} => PrintT(<<"REJECT", id, cl>>)

TNew       == Is("new") /\ last' = <<>>
TConstruct == Is("construct") /\ last' = Upd(last, Ev.c, Ev.p)
TUpdate    == Is("update") /\ Ev.c \in DOMAIN last /\ last' = Upd(last, Ev.c, Ev.p)
TObserve   == Is("observe") /\ Reject(Ev.id, ObsFailing(Ev)) /\ UNCHANGED last
TEnd       == Is("end") /\ PrintT(<<"JUDGED", Ev.count, 0>>) /\ UNCHANGED last

TInit == last = <<>> /\ l = 1
TNext == TNew \/ TConstruct \/ TUpdate \/ TObserve \/ TEnd
TSpec == TInit /\ [][TNext]_<<last, l>>
Consumed == TLCGet("stats").diameter - 1 = Len(T)
=============================================================================
