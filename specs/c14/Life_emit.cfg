SPECIFICATION Spec
CONSTANTS Cols = {"c1", "c2"}  Arrs = {"a1", "a2"}  Poses = {"P1", "P2"}
  Storage = "ref"  Strict = FALSE  MaxSteps = 5
INVARIANT Equivalent
INVARIANT NoRaise
INVARIANT Emit
