INIT Init
NEXT Next
