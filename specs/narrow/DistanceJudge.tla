---------------------------- MODULE DistanceJudge ----------------------------
(* Judge for distance queries between convex colliders (C01, C09; the clauses
   about termination and finiteness serve C19, the relation clauses C12).

   EXACT TIER.  Both colliders are "core polytope (+) ball": A = conv(VA) (+) B(rA),
   B = conv(VB) (+) B(rB) with integer world-lattice vertices and integer radii
   (vertex hulls, boxes, meshes: r = 0; spheres: one vertex; capsules: two;
   Margin wrappers add to r).  The harness' exact-rational solver proposes the
   closest points of the cores as convex combinations
        a0 = sum wa[i] VA[i] / W,   b0 = sum wb[j] VB[j] / W,
   and TLC CERTIFIES them (CertOK: weights valid and the KKT inequalities against
   every vertex pair), so   dist(core A, core B)^2 = |xn|^2 / W^2   exactly, with
   xn = W (a0 - b0).  From this TLC derives, in integers, whether the colliders
   overlap or are separated by more than 1/G lattice units.

   All metric comparisons arrive as ticks: 1 tick = Tol * L / 8 (Tol = 1e-5 for
   the Jolt distance query, 1e-3 for the alternative algorithms). *)
EXTENDS Vec

Slack == 8 + 1
MaxSupport == 1000

(* ---- certificate ---- *)
CertOK(r) ==
  /\ r.W > 0
  /\ Len(r.wa) = Len(r.VA) /\ Len(r.wb) = Len(r.VB)
  /\ \A i \in DOMAIN r.wa : r.wa[i] >= 0
  /\ \A j \in DOMAIN r.wb : r.wb[j] >= 0
  /\ SumSeq(r.wa) = r.W /\ SumSeq(r.wb) = r.W
  /\ r.xn = Sub(SumVec(r.wa, r.VA), SumVec(r.wb, r.VB))
  /\ LET xx == Dot(r.xn, r.xn)
         lo == CHOOSE m \in {Dot(r.xn, r.VA[i]) : i \in DOMAIN r.VA} : \A i \in DOMAIN r.VA : m <= Dot(r.xn, r.VA[i])
         hi == CHOOSE m \in {Dot(r.xn, r.VB[j]) : j \in DOMAIN r.VB} : \A j \in DOMAIN r.VB : m >= Dot(r.xn, r.VB[j])
     IN  r.W * (lo - hi) >= xx          \* x.(p - q) >= x.x for all vertices p of A, q of B

RR(r) == r.rA + r.rB
(* core distance <= rA + rB *)
Overlap(r)  == Dot(r.xn, r.xn) <= RR(r) * RR(r) * r.W * r.W
(* core distance > rA + rB + 1/G *)
ClearGap(r) == Dot(r.xn, r.xn) * r.G * r.G > (RR(r) * r.G + 1) * (RR(r) * r.G + 1) * r.W * r.W

Clauses == <<"NoException", "Finite", "ORACLE_CertInvalid", "InA", "InB", "Consistent", "Optimal",
             "ZeroImpliesCommonPoint", "GapImpliesPositive", "SupportCallsBounded", "IterationHelpersAgree">>

Holds(c, r) ==
  LET ok == r.exc = "none" /\ r.finite /\ ~r.clipped
      ex == ok /\ r.exact /\ CertOK(r) IN
  CASE c = "NoException"            -> r.exc = "none"
    [] c = "Finite"                 -> \* outputs finite; the documented MAX_FLOAT clip only beyond the clip limit
                                       r.exc = "none" => (r.finite /\ (r.clipped => r.clipAllowed))
    [] c = "ORACLE_CertInvalid"     -> r.exact => CertOK(r)
    [] c = "InA"                    -> ok => r.feasA <= Slack
    [] c = "InB"                    -> ok => r.feasB <= Slack
    [] c = "Consistent"             -> ok => r.consist <= Slack
    [] c = "Optimal"                -> /\ ex => r.dErr <= Slack
                                       /\ (ok /\ ~r.exact) => r.cert <= Slack
    [] c = "ZeroImpliesCommonPoint" -> /\ (ex /\ Overlap(r)) => (r.dzero /\ r.aeqb)
                                       /\ (ok /\ ~r.exact /\ r.floatOverlap) => (r.dzero /\ r.aeqb)
    [] c = "GapImpliesPositive"     -> /\ (ex /\ ClearGap(r)) => r.dpos
                                       /\ (ok /\ ~r.exact /\ r.floatGap) => r.dpos
    [] c = "SupportCallsBounded"    -> r.supportCalls <= MaxSupport
    [] c = "IterationHelpersAgree"  -> ("helperSame" \in DOMAIN r) => r.helperSame

(* ---------------- boolean tests (C02): kind = "bool" ----------------
   r.answer; the exact certificate as above; r.deep = the harness found a common point at least
   delta = 1e-3*L inside both colliders (depth lower bounds from module Shapes' mirrors); G is chosen by
   the harness so that 1/G lattice units >= delta.  Inside the band any answer is accepted. *)
BoolClauses == <<"NoException", "ORACLE_CertInvalid", "ORACLE_DeepButDisjoint", "DeepOverlapTrue", "ClearGapFalse",
                 "SupportCallsBounded">>
BoolHolds(c, r) ==
  LET ex == r.exact /\ CertOK(r) IN
  CASE c = "NoException"            -> r.exc = "none"
    [] c = "ORACLE_CertInvalid"     -> r.exact => CertOK(r)
    [] c = "ORACLE_DeepButDisjoint" -> (ex /\ r.deep) => Overlap(r)
    [] c = "DeepOverlapTrue"        -> (r.exc = "none" /\ r.deep) => r.answer
    [] c = "ClearGapFalse"          -> /\ (r.exc = "none" /\ ex /\ ClearGap(r)) => ~r.answer
                                       /\ (r.exc = "none" /\ ~r.exact /\ r.floatGap) => ~r.answer
    [] c = "SupportCallsBounded"    -> r.supportCalls <= MaxSupport
BoolFailing(r) == {c \in Range(BoolClauses) : ~BoolHolds(c, r)}

(* ---------------- termination and finiteness (C19): kind = "term" ----------------
   one record per call of a narrow-phase entry point: r.fn, r.exc (exception class, "Hang" if the
   watchdog fired, "SupportBudget" if the counting proxy stopped the call after MaxSupport evaluations),
   r.finite (no NaN / infinity in any output other than the documented MAX_FLOAT clip),
   r.supportCalls, r.smooth (a collider without flat faces is involved) *)
TermClauses == <<"NoHang", "SupportCallsBounded", "OnlyDocumentedException", "OutputsFinite">>
TermHolds(c, r) ==
  CASE c = "NoHang"                  -> r.exc # "Hang"
    [] c = "SupportCallsBounded"     -> r.supportCalls <= MaxSupport /\ r.exc # "SupportBudget"
    [] c = "OnlyDocumentedException" -> \/ r.exc \in {"none", "Hang", "SupportBudget"}
                                        \/ (r.exc = "AssertionError" /\ r.fn = "epa" /\ r.smooth)
    [] c = "OutputsFinite"           -> r.exc = "none" => r.finite
(* Named pattern of the known finding "EPA on an incomplete GJK simplex" seen from C19: gjk_distance_jolt ended with fewer than
   four simplex points (r.simplexRows, observed), the rows handed to EPA are partly uninitialised memory, and EPA may expand that
   polytope until its face array is full (capacity AssertionError for polytopes) or return non-finite numbers.  What happens
   depends on the memory content, so the pattern is matched by the input attribute, not by a pinned outcome. *)
TermFailing(r) ==
  LET f == {c \in Range(TermClauses) : ~TermHolds(c, r)} IN
  IF f # {} /\ r.fn = "epa" /\ r.simplexRows < 4 /\ f \subseteq {"OnlyDocumentedException", "OutputsFinite"} /\ r.exc \in {"none", "AssertionError"}
  THEN f \cup {"ZONE_IncompleteSimplex"}
  \* second named pattern: mpr_penetration on two zero-volume colliders (r.flatPair: planar hulls, segments, disks, ellipses in a scene that is NOT an exact lattice scene,
  \* i.e. rounding has entered the coordinates - an input description by the harness; exact lattice scenes stay fully judged) whose portal degenerates: the contact position is NaN (the C19 face of the C08 finding
  \* mpr:grazing-contact-position); only OutputsFinite is covered
  ELSE IF f = {"OutputsFinite"} /\ r.fn = "mpr_penetration" /\ r.flatPair THEN f \cup {"ZONE_FlatPairMpr"}
  ELSE f

(* ---------------- primitive distance functions (C10, C11): kind = "prim" ----------------
   one record per call of a function of distance3d.distance on lattice primitives (or their lifts):
   r.on1, r.on2   distance of the returned points to their primitives, ticks of 1e-9*L/8
   r.consist      | |p1-p2| - d |, ticks of 1e-6*L/8
   r.dneg         d < 0;   r.zeroCommon  (d = 0 => the two points coincide within 1e-9*L)
   r.dErr         max(0, d - Dist) against the TLC-certified exact distance of the core polytopes (lines and
                  planes are represented by long segments / large rectangles that contain the optimum), ticks of
                  the function's tolerance (1e-6*L, 5e-3*L for line_to_circle);  r.cert the same against a float
                  certificate (separating plane for convex pairs, closed form / Lipschitz grid for the circle)
   r.optJudged    FALSE where no oracle applies (counted, never a violation) *)
PrimClauses10 == <<"NoException", "Finite", "NonNegative", "On1", "On2", "Consistent", "ZeroImpliesCommon", "ORACLE_CertInvalid">>
PrimClauses11 == <<"NoException", "ORACLE_CertInvalid", "GlobalMinimum">>
PrimHolds(c, r) ==
  LET ok == r.exc = "none" /\ r.finite IN
  CASE c = "NoException"        -> r.exc = "none"
    [] c = "Finite"             -> r.exc = "none" => r.finite
    [] c = "NonNegative"        -> ok => ~r.dneg
    [] c = "On1"                -> ok => r.on1 <= Slack
    [] c = "On2"                -> ok => r.on2 <= Slack
    [] c = "Consistent"         -> ok => r.consist <= Slack
    [] c = "ZeroImpliesCommon"  -> ok => r.zeroCommon
    [] c = "ORACLE_CertInvalid" -> r.exact => CertOK(r)
    [] c = "GlobalMinimum"      -> /\ (ok /\ r.exact /\ CertOK(r)) => r.dErr <= Slack
                                   /\ (ok /\ ~r.exact /\ r.optJudged) => r.cert <= Slack
(* Named input pattern for a known finding: a line (segment) that misses the axis of the circle
   (centre + t * normal) only by floating-point rounding of a rigid motion (r.nearAxis, described by the harness
   from the lattice scene: exactly on the axis before the lift, lifted by a non-identity motion) *)
PrimFailing(r) ==
  LET f == {c \in Range(IF r.prop = "C10" THEN PrimClauses10 ELSE PrimClauses11) : ~PrimHolds(c, r)} IN
  IF f # {} /\ r.nearAxis /\ f \subseteq {"On1", "On2", "Consistent", "GlobalMinimum", "ZeroImpliesCommon"}
  THEN f \cup {"ZONE_NearAxis"} ELSE f

(* ---------------- penetration queries (C07 EPA, C08 MPR): kind = "pen" ----------------
   Exact tier: both colliders are lattice polytopes; the harness names a facet of the Minkowski difference
   A (-) B by an integer normal r.fn and offset r.fc and TLC verifies that it is a supporting half-space that
   contains the origin (FacetOK), so PenDepth <= fc / |fn| is certified; the facet is the closest one of the
   complete facet list computed by the harness (trusted: scipy's Qhull on integer input).
   Ticks: EPA 1e-6*L/8, MPR 2e-3*L/8.
   r.success / r.hit       EPA's success flag / MPR's intersection flag
   r.depthErr              | |mtv| - PenDepth |                     (EPA, Minimal)
   r.below                 max(0, PenDepth - depth)                 (MPR, DepthLowerBound; exact tier only)
   r.residual, r.gap       overlap / gap left after translating the second collider by the returned vector
   r.posA, r.posB          distance of MPR's contact position to each collider
   r.unit                  | |direction| - 1 |  (0 allowed when the depth is 0), r.depthNeg
   r.deep                  the pair overlaps by a witness point at least 2e-3*L inside both (MPR must report a hit) *)
FacetOK(r) ==
  /\ r.fc >= 0
  /\ \A i \in DOMAIN r.VA : \A j \in DOMAIN r.VB : Dot(r.fn, Sub(r.VA[i], r.VB[j])) <= r.fc
(* Inflated tier (r.infl): both colliders are lattice polytopes (points, segments included) inflated by balls of radii
   rA, rB (spheres, capsules, Margin wrappers) whose CORES are disjoint: the Minkowski difference is the core difference
   inflated by rA + rB, so the penetration depth is exactly rA + rB - dist(cores).  The core distance comes with the same
   certificate as in the distance records (CertOK), and TLC checks that the cores are disjoint and the inflated bodies
   overlap; the harness measures r.depthErr against rA + rB - sqrt(xn.xn)/W. *)
InflOK(r) == CertOK(r) /\ Dot(r.xn, r.xn) > 0 /\ Overlap(r)
PenClausesEpa == <<"NoException", "ORACLE_FacetInvalid", "ORACLE_CertInvalid", "SuccessOnPolytopes", "Minimal", "TouchAfterMTV">>
PenClausesMpr == <<"NoException", "ORACLE_FacetInvalid", "DeepOverlapHit", "DepthNonNegative", "UnitOrZeroDirection",
                   "ResidualOverlap", "DepthLowerBound", "ContactInBoth", "ResultsStable">>
PenHolds(c, r) ==
  LET ok == r.exc = "none" IN
  CASE c = "NoException"         -> ok \/ (r.exc = "AssertionError" /\ r.algo = "epa" /\ r.smooth)
    [] c = "ORACLE_FacetInvalid" -> r.exact => FacetOK(r)
    [] c = "ORACLE_CertInvalid"  -> r.infl => InflOK(r)
    [] c = "SuccessOnPolytopes"  -> (ok /\ r.exact) => r.success
    [] c = "Minimal"             -> (ok /\ r.success /\ r.judged) => r.depthErr <= Slack
    [] c = "TouchAfterMTV"       -> (ok /\ r.success /\ r.judged) => (r.residual <= Slack /\ r.gap <= Slack)
    [] c = "DeepOverlapHit"      -> (ok /\ r.deep) => r.hit
    [] c = "DepthNonNegative"    -> (ok /\ r.hit) => ~r.depthNeg
    [] c = "UnitOrZeroDirection" -> (ok /\ r.hit) => r.unit <= Slack
    [] c = "ResidualOverlap"     -> (ok /\ r.hit /\ r.judged) => r.residual <= Slack
    [] c = "DepthLowerBound"     -> (ok /\ r.hit /\ r.exact /\ FacetOK(r)) => r.below <= Slack
    [] c = "ContactInBoth"       -> (ok /\ r.hit) => (r.posA <= Slack /\ r.posB <= Slack)
    [] c = "ResultsStable"       -> ~r.prevChanged      \* the arrays returned by the previous query were not overwritten by this one
(* Named trace pattern for a known finding: the distance query that precedes EPA ended with fewer than four
   simplex points (r.simplexRows, observed by the harness), so the rows of the simplex handed to EPA are partly
   uninitialised memory *)
PenFailing(r) ==
  LET f == {c \in Range(IF r.algo = "epa" THEN PenClausesEpa ELSE PenClausesMpr) : ~PenHolds(c, r)} IN
  IF f # {} /\ r.algo = "epa" /\ r.simplexRows < 4 /\ f \subseteq {"Minimal", "TouchAfterMTV", "SuccessOnPolytopes", "NoException"}
  THEN f \cup {"ZONE_IncompleteSimplex"}
  ELSE IF f = {"Minimal"} /\ r.algo = "epa" /\ r.exact
       THEN f \cup {"ZONE_SeparatingNotMinimal"}   \* fourth named pattern: the vector separates exactly (TouchAfterMTV holds) but is longer than the depth
  ELSE IF f # {} /\ r.algo = "mpr" /\ r.coincident /\ f \subseteq {"ContactInBoth"}
       THEN f \cup {"ZONE_CoincidentCentres"}      \* second named pattern: both colliders sit at the same frame origin
  ELSE IF f # {} /\ r.algo = "mpr" /\ f \subseteq {"ContactInBoth"} /\ ((r.exact /\ r.fc = 0) \/ (~r.exact /\ ~r.deep))
       THEN f \cup {"ZONE_Grazing"}                \* third named pattern: touching pair (certified depth 0) / no deep witness (flat colliders)
       ELSE f

(* ---------------- relations between queries (C12): kind = "pair" ----------------
   two runs of the same query on related scenes: rel = "swap" (arguments exchanged), "rigid" (one rigid motion
   applied to both arguments), "scale" (uniform scaling).  The harness applies the expected transformation to the
   first result and measures the differences in ticks of the query's own tolerance:
   r.dticks (scalars: distance, depth), r.pticks (points, directions, translation vectors; compared only where the
   optimum is unique: r.unique), r.boolSame (booleans), r.band (the scene lies inside the decision band of the
   boolean / of the overlap decision, where the property does not fix the answer) *)
PairClauses == <<"NoException", "ScalarsAgree", "BooleansAgree", "PointsFollow">>
PairHolds(c, r) ==
  CASE c = "NoException"   -> r.exc = "none"
    [] c = "ScalarsAgree"  -> r.exc = "none" => r.dticks <= Slack
    [] c = "BooleansAgree" -> (r.exc = "none" /\ ~r.band) => r.boolSame
    [] c = "PointsFollow"  -> (r.exc = "none" /\ r.unique) => r.pticks <= Slack
PairName(r, c) == IF c = "NoException" THEN c
                  ELSE IF r.rel = "swap" THEN "SwapSymmetric_" \o c
                  ELSE IF r.rel = "rigid" THEN "RigidInvariant_" \o c ELSE "ScaleEquivariant_" \o c
PairFailing(r) == {PairName(r, c) : c \in {x \in Range(PairClauses) : ~PairHolds(x, r)}}

(* Named trace pattern for a known finding (DESIGN section 8): the query ended on a simplex of 2..4
   points whose smallest extent is below 1e-9 of its largest (flatDec = decimal exponent of that ratio,
   observed by the harness at the library's final witness-point computation; -99 = exactly degenerate).
   Only metric clauses are covered by the pattern. *)
FlatSimplex(r) == r.flatDec <= -9 /\ r.flatDec > -99
Failing(r) ==
  LET f == {c \in Range(Clauses) : ~Holds(c, r)} IN
  IF f # {} /\ f \subseteq {"Optimal", "Consistent", "InA", "InB"} /\ FlatSimplex(r)
  THEN f \cup {"ZONE_FlatSimplex"} ELSE f
=============================================================================
