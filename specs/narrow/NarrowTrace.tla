----------------------------- MODULE NarrowTrace -----------------------------
EXTENDS DistanceJudge, TLC, Json, IOUtils
T == ndJsonDeserialize(IOEnv.TRACE_FILE)
F(r) == IF r.kind = "bool" THEN BoolFailing(r) ELSE IF r.kind = "term" THEN TermFailing(r) ELSE IF r.kind = "prim" THEN PrimFailing(r) ELSE IF r.kind = "pair" THEN PairFailing(r) ELSE IF r.kind = "pen" THEN PenFailing(r) ELSE Failing(r)
BadIdx == {i \in 1..Len(T) : F(T[i]) # {}}
ASSUME /\ \A i \in BadIdx : PrintT(<<"REJECT", T[i].id, F(T[i])>>)
       /\ PrintT(<<"JUDGED", Len(T), Cardinality(BadIdx)>>)
VARIABLE dummy
Init == dummy = 0
Next == UNCHANGED dummy
=============================================================================
