---------------------------- MODULE PointTriTrace ----------------------------
(* C10 / C11 - binds distance3d.distance.point_to_triangle to the explorer PointTri: one record per call of the real
   function on a lattice configuration (r.a, r.b, r.c triangle, r.p query point; the squared distance it returned as the
   rational r.d2n / r.d2d when it closes (r.recon); r.onTicks / r.consTicks measured residuals).  TLC recomputes the
   model's region and the exact minimum for the same configuration:
     GlobalMinimum (C11), PointOnTriangle / Consistent (C10), DRIFT_MatchesModel (conformance) *)
EXTENDS PointTri, Json, IOUtils
T == ndJsonDeserialize(IOEnv.TRACE_FILE)
V3(x) == <<x[1], x[2], x[3]>>
Slack == 8 + 1
F(r) ==
  LET a == V3(r.a)  b == V3(r.b)  c == V3(r.c)  p == V3(r.p)
      model == Dist2(a, b, c, p, Weights(a, b, c, p, "lib"))
      truth == TrueDist2(a, b, c, p)
  IN  IF r.exc # "none" THEN {"NoException"}
      ELSE {x \in {"GlobalMinimum", "PointOnTriangle", "Consistent", "DRIFT_MatchesModel"} :
              ~ CASE x = "GlobalMinimum"      -> r.recon /\ REq(<<r.d2n, r.d2d>>, truth)
                  [] x = "PointOnTriangle"    -> r.onTicks <= Slack
                  [] x = "Consistent"         -> r.consTicks <= Slack
                  [] x = "DRIFT_MatchesModel" -> r.recon /\ REq(<<r.d2n, r.d2d>>, model)}
BadIdx == {i \in 1..Len(T) : F(T[i]) # {}}
ASSUME /\ \A i \in BadIdx : PrintT(<<"REJECT", T[i].id, F(T[i])>>)
       /\ PrintT(<<"JUDGED", Len(T), Cardinality(BadIdx)>>)
TInit == ph = "tri" /\ B = Zero3 /\ C = Zero3 /\ P = Zero3
TNext == UNCHANGED vars
=============================================================================
