----------------------------- MODULE LineFlatTrace -----------------------------
(* C10 / C11 - binds line_to_triangle, line_segment_to_triangle, line_to_rectangle and line_segment_to_rectangle to the explorer
   LineFlat: one record per call of the real function on a lattice configuration (r.kind "tri" with r.V, or "rect" with r.c and
   the half-extent vectors r.X; line point r.P and direction / segment vector r.D, all integers in the frame of the scene; the
   harness places the scene at a lattice pose).  TLC recomputes the model's result, verifies its certificate
   (ORACLE_CertInvalid otherwise) and judges GlobalMinimum (C11), PointsOnPrimitives and Consistent (C10). *)
EXTENDS LineFlat, Json, IOUtils
T == ndJsonDeserialize(IOEnv.TRACE_FILE)
V3(x) == <<x[1], x[2], x[3]>>
Slack == 8 + 1
ShapeOf(r) == IF r.kind = "tri" THEN [kind |-> "tri", V |-> <<V3(r.V[1]), V3(r.V[2]), V3(r.V[3])>>]
              ELSE [kind |-> "rect", c |-> V3(r.c), X |-> <<V3(r.X[1]), V3(r.X[2])>>]
Model(r) == IF r.fn = "line" THEN LineShape(V3(r.P), V3(r.D), ShapeOf(r)) ELSE SegShape(V3(r.P), V3(r.D), ShapeOf(r))
CertOK(r, m) == /\ OnShapeOK(m, ShapeOf(r)) /\ ConsistentOK(V3(r.P), V3(r.D), m)
                /\ IF r.fn = "line" THEN LineKKT(V3(r.P), V3(r.D), ShapeOf(r), m) ELSE SegKKT(V3(r.P), V3(r.D), ShapeOf(r), m)
F(r) ==
  LET m == Model(r) IN
  IF r.exc # "none" THEN {"NoException"}
  ELSE IF ~CertOK(r, m) THEN {"ORACLE_CertInvalid"}
  ELSE {c \in {"GlobalMinimum", "PointsOnPrimitives", "Consistent"} :
          ~ CASE c = "GlobalMinimum"      -> r.recon /\ REq(<<r.d2n, r.d2d>>, m.sd)
              [] c = "PointsOnPrimitives" -> r.onTicks <= Slack
              [] c = "Consistent"         -> r.consTicks <= Slack}
BadIdx == {i \in 1..Len(T) : F(T[i]) # {}}
ASSUME /\ \A i \in BadIdx : PrintT(<<"REJECT", T[i].id, F(T[i])>>)
       /\ PrintT(<<"PATHS", {T[i].kind \o ":" \o Model(T[i]).path : i \in 1..Len(T)}>>)
       /\ PrintT(<<"JUDGED", Len(T), Cardinality(BadIdx)>>)
TInit == Init
TNext == UNCHANGED vars
=============================================================================
