SPECIFICATION Spec
CONSTANTS
  K = 1
  Variant = "bc_first"
INVARIANT OnTriangle
INVARIANT GlobalMinimum
