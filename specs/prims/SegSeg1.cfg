SPECIFICATION Spec
CONSTANTS
  K = 1
  Variant = "lib"
INVARIANT InRange
INVARIANT GlobalMinimum
