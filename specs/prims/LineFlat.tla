------------------------------- MODULE LineFlat -------------------------------
(* C10 / C11 - EXPLORER for the line / line segment against flat convex primitives:
     distance3d.distance.line_to_triangle, line_segment_to_triangle   (_triangle.py: _line_to_triangle)
     distance3d.distance.line_to_rectangle, line_segment_to_rectangle (_rectangle.py: _line_to_rectangle, _line_intersects_rectangle)
   and the routine they share, _line_to_line_segment (_line.py), in exact rational arithmetic on lattice input.

   Structure of the code that the model keeps:
     1. if the line is not parallel to the plane of the primitive, intersect it with the plane (the code projects on a basis
        perpendicular to the line; the solution of the 3 x 3 system is the same for every basis) and return distance 0 when the
        point lies in the primitive (barycentric coordinates >= 0 / rectangle coordinates within the half lengths);
     2. otherwise compare the line with every edge in the order of the code (triangle: (C,A), (A,B), (B,C); rectangle: the order
        of convert_rectangle_to_segment for i1, i0 in 0..1), keeping the first strictly smaller distance; each comparison is
        _line_to_line_segment: general case with the clamp of the segment parameter, parallel case s = 0;
     3. segments: the line parameter t is clamped to [0, 1] and point_to_triangle (the Voronoi case analysis of PointTri.tla) /
        point_to_rectangle (clamp of the rectangle coordinates) of the end point replaces the result.
   The line is P + t D with an integer direction D (t scales with 1 / |D| against the unit direction of the code; with
   D = end - start the segment is t in [0, 1]).  "abs(x) > epsilon" for a cosine and "dist < epsilon" are exact sign tests on the
   lattice.

   Invariants for EVERY configuration of MC (shapes x line points x directions):
     OnShape      the returned point of the primitive lies in it
     Consistent   | line(t) - point |^2 equals the returned squared distance
     LineOptimal  KKT certificate: with n = line point - shape point, the shape point maximises n . x over the vertices and
                  n is orthogonal to D (or n = 0)
     SegOptimal   the same for the segment (n . D >= 0 at t = 0, <= 0 at t = 1, = 0 inside)
   Variants that must fail: "no_clamp" (_line_to_line_segment without the clamp of s: the edge comparison works with the infinite
   edge lines), "two_edges" (the triangle loop stops after two edges). *)
EXTENDS Integers, Sequences, FiniteSets, TLC, Vec
CONSTANTS Shapes, K, KD, Variant
(* a shape is [kind |-> "tri", V |-> <<A, B, C>>] or [kind |-> "rect", c |-> centre, X |-> <<X0, X1>>] (half-extent vectors) *)

Q(n, d)  == RRed(IF d < 0 THEN <<-n, -d>> ELSE <<n, d>>)
I(n)     == <<n, 1>>
RSgn(p)  == Sgn(p[1])
RSubR(p, q) == Q(p[1]*q[2] - q[1]*p[2], p[2]*q[2])
Clamp01(q) == IF q[1] <= 0 THEN <<0, 1>> ELSE IF q[1] >= q[2] THEN <<1, 1>> ELSE q
ClampPM(q) == IF q[1] <= -q[2] THEN <<-1, 1>> ELSE IF q[1] >= q[2] THEN <<1, 1>> ELSE q
(* rational vectors <<integer vector, positive denominator>>, reduced *)
RV(v, d)  == ReduceV(IF d < 0 THEN Neg(v) ELSE v, Abs(d))
IV(v)     == <<v, 1>>
VSub(p, q) == RV(Sub(Scale(q[2], p[1]), Scale(p[2], q[1])), p[2]*q[2])
VNorm2(p)  == RRed(<<Dot(p[1], p[1]), p[2]*p[2]>>)
VDotI(p, n) == Q(Dot(p[1], n), p[2])
LinePt(P, D, t) == RV(Add(Scale(t[2], P), Scale(t[1], D)), t[2])
Res(sd, t, q, path) == [sd |-> sd, t |-> t, q |-> q, path |-> path]

(* _line_to_line_segment(line P + t D, segment S0 .. S1) *)
LineSeg(P, D, S0, S1) ==
  LET d == Sub(S1, S0)  a == Dot(d, d)  e == Dot(D, D)
      r == Sub(S0, P)   f == Dot(D, r)  c == Dot(d, r)  b == Dot(d, D)
      denom == a*e - b*b
      s0 == IF denom # 0 THEN Q(b*f - c*e, denom) ELSE <<0, 1>>
      s  == IF Variant = "no_clamp" THEN s0 ELSE Clamp01(s0)
      t  == Q(b*s[1] + f*s[2], e*s[2])
      q  == RV(Add(Scale(s[2], S0), Scale(s[1], d)), s[2])
  IN [sd |-> VNorm2(VSub(q, LinePt(P, D, t))), t |-> t, q |-> q, par |-> denom = 0]

Edges(sh) ==
  IF sh.kind = "tri" THEN
    (IF Variant = "two_edges" THEN << <<sh.V[3], sh.V[1]>>, <<sh.V[1], sh.V[2]>> >>
     ELSE << <<sh.V[3], sh.V[1]>>, <<sh.V[1], sh.V[2]>>, <<sh.V[2], sh.V[3]>> >>)
  ELSE LET E(i0, i1) == LET mid == Add(sh.c, Scale(2*i0 - 1, sh.X[i1 + 1])) IN
                        <<Sub(mid, sh.X[2 - i1]), Add(mid, sh.X[2 - i1])>>
       IN <<E(0, 0), E(1, 0), E(0, 1), E(1, 1)>>
RECURSIVE BestEdge(_, _, _, _, _, _)
BestEdge(P, D, es, k, best, bk) ==
  IF k > Len(es) THEN [best EXCEPT !.path = "edge" \o ToString(bk) \o (IF best.par THEN ":par" ELSE IF best.s01 THEN ":end" ELSE ":in")]
  ELSE LET r == LineSeg(P, D, es[k][1], es[k][2])
           rr == [sd |-> r.sd, t |-> r.t, q |-> r.q, path |-> "", par |-> r.par,
                  s01 |-> (r.q = IV(es[k][1]) \/ r.q = IV(es[k][2]))] IN
       IF best.path = "none" \/ RLt(r.sd, best.sd) THEN BestEdge(P, D, es, k + 1, rr, k) ELSE BestEdge(P, D, es, k + 1, best, bk)

Origin(sh) == IF sh.kind = "tri" THEN sh.V[1] ELSE sh.c
E0(sh) == IF sh.kind = "tri" THEN Sub(sh.V[2], sh.V[1]) ELSE sh.X[1]
E1(sh) == IF sh.kind = "tri" THEN Sub(sh.V[3], sh.V[1]) ELSE sh.X[2]
LineShape(P, D, sh) ==
  LET A == Origin(sh)  e0 == E0(sh)  e1 == E1(sh)
      n == Cross(e0, e1)  nd == Dot(n, D)
      diff == Sub(P, A)
      b0 == Q(Triple(diff, e1, D), nd)
      b1 == Q(Triple(e0, diff, D), nd)
      inside == IF sh.kind = "tri" THEN RSgn(b0) >= 0 /\ RSgn(b1) >= 0 /\ RSgn(RSubR(RSubR(I(1), b0), b1)) >= 0
                ELSE b0[1] <= b0[2] /\ -b0[1] <= b0[2] /\ b1[1] <= b1[2] /\ -b1[1] <= b1[2]
      edge == BestEdge(P, D, Edges(sh), 1, [sd |-> I(0), t |-> I(0), q |-> IV(A), path |-> "none", par |-> FALSE, s01 |-> FALSE], 0)
  IN IF nd # 0 /\ inside
     THEN LET t == Q(-Dot(n, diff), nd) IN Res(I(0), t, LinePt(P, D, t), "pierce")
     ELSE Res(edge.sd, edge.t, edge.q, (IF nd = 0 THEN "parallel:" ELSE "outside:") \o edge.path)

(* point_to_triangle: the Voronoi case analysis (see PointTri.tla); weights over the common denominator *)
PTWeights(a, b, c, p) ==
  LET ab == Sub(b, a)  ac == Sub(c, a)
      ap == Sub(p, a)  d1 == Dot(ab, ap)  d2 == Dot(ac, ap)
      bp == Sub(p, b)  d3 == Dot(ab, bp)  d4 == Dot(ac, bp)
      cp == Sub(p, c)  d5 == Dot(ab, cp)  d6 == Dot(ac, cp)
      vc == d1 * d4 - d3 * d2
      vb == d5 * d2 - d1 * d6
      va == d3 * d6 - d5 * d4
  IN  IF d1 <= 0 /\ d2 <= 0 THEN <<1, 0, 0, 1>>
      ELSE IF d3 >= 0 /\ d4 <= d3 THEN <<0, 1, 0, 1>>
      ELSE IF vc <= 0 /\ 0 <= d1 /\ d3 <= 0 THEN <<-d3, d1, 0, d1 - d3>>
      ELSE IF d6 >= 0 /\ d5 <= d6 THEN <<0, 0, 1, 1>>
      ELSE IF vb <= 0 /\ 0 <= d2 /\ d6 <= 0 THEN <<-d6, 0, d2, d2 - d6>>
      ELSE IF va <= 0 /\ 0 <= d4 - d3 /\ d5 - d6 >= 0 THEN <<0, d5 - d6, d4 - d3, (d4 - d3) + (d5 - d6)>>
      ELSE <<va, vb, vc, va + vb + vc>>
PointShape(p, sh) ==      \* returns the closest point of the shape (rational vector)
  IF sh.kind = "tri" THEN
    LET w == PTWeights(sh.V[1], sh.V[2], sh.V[3], p) IN
    RV(Add(Add(Scale(w[1], sh.V[1]), Scale(w[2], sh.V[2])), Scale(w[3], sh.V[3])), w[4])
  ELSE
    LET x0 == sh.X[1]  x1 == sh.X[2]  w == Sub(p, sh.c)
        u0 == ClampPM(Q(Dot(w, x0), Dot(x0, x0)))  u1 == ClampPM(Q(Dot(w, x1), Dot(x1, x1)))
    IN RV(Add(Add(Scale(u0[2]*u1[2], sh.c), Scale(u0[1]*u1[2], x0)), Scale(u1[1]*u0[2], x1)), u0[2]*u1[2])
SegShape(P, D, sh) ==
  LET r == LineShape(P, D, sh) IN
  IF RSgn(r.t) < 0 THEN LET q == PointShape(P, sh) IN Res(VNorm2(VSub(q, IV(P))), I(0), q, r.path \o ":start")
  ELSE IF r.t[1] > r.t[2] THEN LET q == PointShape(Add(P, D), sh) IN Res(VNorm2(VSub(q, IV(Add(P, D)))), I(1), q, r.path \o ":end")
  ELSE [r EXCEPT !.path = r.path \o ":inner"]

-----------------------------------------------------------------------------
(* certificates *)
Verts(sh) == IF sh.kind = "tri" THEN {sh.V[1], sh.V[2], sh.V[3]}
             ELSE {Add(Add(sh.c, Scale(a, sh.X[1])), Scale(b, sh.X[2])) : a \in {-1, 1}, b \in {-1, 1}}
OnShapeOK(r, sh) ==
  LET A == Origin(sh)  e0 == E0(sh)  e1 == E1(sh)  n == Cross(e0, e1)
      w == VSub(r.q, IV(A))                                  \* rational vector q - A
      nn == Dot(n, n)
      b0 == Q(Dot(Cross(w[1], e1), n), w[2] * nn)
      b1 == Q(Dot(Cross(e0, w[1]), n), w[2] * nn)
  IN /\ Dot(w[1], n) = 0
     /\ IF sh.kind = "tri" THEN RSgn(b0) >= 0 /\ RSgn(b1) >= 0 /\ RSgn(RSubR(RSubR(I(1), b0), b1)) >= 0
        ELSE b0[1] <= b0[2] /\ -b0[1] <= b0[2] /\ b1[1] <= b1[2] /\ -b1[1] <= b1[2]
NVec(P, D, r) == VSub(LinePt(P, D, r.t), r.q)
ConsistentOK(P, D, r) == REq(VNorm2(NVec(P, D, r)), r.sd)
Supports(n, r, sh) == \A v \in Verts(sh) : RSgn(VDotI(VSub(IV(v), r.q), n[1])) <= 0
LineKKT(P, D, sh, r) == LET n == NVec(P, D, r) IN Supports(n, r, sh) /\ Dot(n[1], D) = 0
SegKKT(P, D, sh, r) ==
  LET n == NVec(P, D, r)  s == Sgn(Dot(n[1], D)) IN
  /\ RSgn(r.t) >= 0 /\ r.t[1] <= r.t[2]
  /\ Supports(n, r, sh)
  /\ IF r.t[1] = 0 THEN s >= 0 ELSE IF r.t[1] = r.t[2] THEN s <= 0 ELSE s = 0

-----------------------------------------------------------------------------
VARIABLES ph, SH, PP, DD
vars == <<ph, SH, PP, DD>>
NoShape == [kind |-> "none"]
Init == ph = "shape" /\ SH = NoShape /\ PP = Zero3 /\ DD = Zero3
PickShape == ph = "shape" /\ \E s \in Shapes : SH' = s /\ ph' = "dir" /\ UNCHANGED <<PP, DD>>
PickDir   == ph = "dir" /\ \E a, b, c \in (-KD)..KD : <<a, b, c>> # Zero3 /\ DD' = <<a, b, c>> /\ ph' = "pt" /\ UNCHANGED <<SH, PP>>
PickPt    == ph = "pt" /\ \E a, b, c \in (-K)..K : PP' = <<a, b, c>> /\ ph' = "done" /\ UNCHANGED <<SH, DD>>
Next == PickShape \/ PickDir \/ PickPt
Spec == Init /\ [][Next]_vars
Done == ph = "done"
LR == LineShape(PP, DD, SH)
SR == SegShape(PP, DD, SH)
OnShape     == Done => OnShapeOK(LR, SH) /\ OnShapeOK(SR, SH)
Consistent  == Done => ConsistentOK(PP, DD, LR) /\ ConsistentOK(PP, DD, SR)
LineOptimal == Done => LineKKT(PP, DD, SH, LR)
SegOptimal  == Done => SegKKT(PP, DD, SH, SR)
=============================================================================
