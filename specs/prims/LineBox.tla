------------------------------- MODULE LineBox -------------------------------
(* C10 / C11 - EXPLORER for distance3d.distance.line_to_box / line_segment_to_box (_line_to_box.py, _box.py): Eberly's
   case analysis, transcribed in exact rational arithmetic.  The box is given in its own frame by integer half sizes E,
   the line by an integer point P and an integer direction D (the routine is homogeneous in the length of D: squared
   distance and box point do not depend on it, the line parameter scales with 1 / |D|; with D = end - start the segment
   is the parameter range [0, 1]).

   Structure of the code that the model keeps: reflection of the negative direction components, dispatch on the pattern
   of zero components (_case_no_zeros -> _box_face with its 3 x (1 + 2 + 2 + 5) branches, _case_0 for one zero, _case_00
   for two zeros), the clamp of the third coordinate in _case_0, undoing the reflection, and for segments the clamp of the
   line parameter followed by point_to_box of the end point.  Every result carries the label of the branch that made it.

   Invariants for EVERY configuration (P in (-K..K)^3, D in (-KD..KD)^3 \ {0}, E in (1..KE)^3):
     OnBox            the returned box point is a point of the box
     Consistent       | line(t) - box point |^2 equals the returned squared distance
     LineOptimal      KKT certificate of a global minimum of line vs box: with n = line point - box point, the box point
                      maximises n . x over the box, and n is orthogonal to D (or n = 0)
     SegOptimal       the same for the segment [P, P + D] (n . D >= 0 at the start, <= 0 at the end, = 0 inside)
   Variants that must fail: "case0_param" (the parameter of the second exit face of _case_0 computed from the first
   face: the line result stays right, the segment clamps to the wrong end - SegOptimal), "clip_i1" (_case_00 clamps the
   second transverse coordinate with the half size of the first - LineOptimal / OnBox). *)
EXTENDS Integers, Sequences, FiniteSets, TLC, Vec
CONSTANTS K, KD, KE, Variant

(* rationals <<n, d>>, d > 0, reduced *)
Q(n, d)  == RRed(IF d < 0 THEN <<-n, -d>> ELSE <<n, d>>)
I(n)     == <<n, 1>>
RA(p, q) == Q(p[1]*q[2] + q[1]*p[2], p[2]*q[2])
RS(p, q) == Q(p[1]*q[2] - q[1]*p[2], p[2]*q[2])
RM(p, q) == Q(p[1]*q[1], p[2]*q[2])
RNeg(p)  == <<-p[1], p[2]>>
RSq(p)   == RM(p, p)
RSgn(p)  == Sgn(p[1])

Res(sd, lp, pt, path) == [sd |-> sd, lp |-> lp, pt |-> pt, path |-> path]
Set3(i, a, j, b, k, c) == [m \in 1..3 |-> IF m = i THEN a ELSE IF m = j THEN b ELSE c]

(* _box_face(i0, a, b): the line leaves through the face x[i0] = E[i0] *)
EdgeRes(i0, a, b, P, D, E, tmp, lsq, path) ==       \* closest feature: the edge along axis a at x[b] = -E[b]
  LET t   == Q(tmp, lsq)
      L   == lsq + D[a]*D[a]
      tm  == RS(I(P[a] + E[a]), t)
      dl  == RA(I(D[i0]*(P[i0] - E[i0]) + D[b]*(P[b] + E[b])), RM(I(D[a]), tm))
      lp  == RM(RNeg(dl), Q(1, L))
      sd  == RA(RA(I((P[i0]-E[i0])*(P[i0]-E[i0]) + (P[b]+E[b])*(P[b]+E[b])), RSq(tm)), RM(dl, lp))
  IN Res(sd, lp, Set3(i0, I(E[i0]), a, RS(t, I(E[a])), b, I(-E[b])), path)
CornerRes(i0, a, sa, b, sb, P, D, E, path) ==       \* closest feature: the corner (E[i0], sa E[a], sb E[b])
  LET ca == IF sa = 1 THEN P[a] - E[a] ELSE P[a] + E[a]
      cb == IF sb = 1 THEN P[b] - E[b] ELSE P[b] + E[b]
      L  == D[1]*D[1] + D[2]*D[2] + D[3]*D[3]
      dl == D[i0]*(P[i0] - E[i0]) + D[a]*ca + D[b]*cb
      lp == Q(-dl, L)
      sd == RA(I((P[i0]-E[i0])*(P[i0]-E[i0]) + ca*ca + cb*cb), RM(I(dl), lp))
  IN Res(sd, lp, Set3(i0, I(E[i0]), a, I(sa*E[a]), b, I(sb*E[b])), path)
BoxFace(i0, i1, i2, P, D, E) ==
  LET pm0 == P[i0] - E[i0]  pp1 == P[i1] + E[i1]  pp2 == P[i2] + E[i2]
      c1  == D[i0]*pp1 >= D[i1]*pm0
      c2  == D[i0]*pp2 >= D[i2]*pm0
      lsq1 == D[i0]*D[i0] + D[i2]*D[i2]
      tmp1 == lsq1*pp1 - D[i1]*(D[i0]*pm0 + D[i2]*pp2)
      lsq2 == D[i0]*D[i0] + D[i1]*D[i1]
      tmp2 == lsq2*pp2 - D[i2]*(D[i0]*pm0 + D[i1]*pp1)
      f    == ToString(i0)
  IN IF c1 /\ c2 THEN
       Res(I(0), Q(-pm0, D[i0]),
           Set3(i0, I(E[i0]), i1, RS(I(P[i1]), Q(D[i1]*pm0, D[i0])), i2, RS(I(P[i2]), Q(D[i2]*pm0, D[i0]))), "face" \o f \o ":through")
     ELSE IF c1 THEN
       (IF tmp1 <= 2*lsq1*E[i1] THEN EdgeRes(i0, i1, i2, P, D, E, tmp1, lsq1, "face" \o f \o ":b:edge")
        ELSE CornerRes(i0, i1, 1, i2, -1, P, D, E, "face" \o f \o ":b:corner"))
     ELSE IF c2 THEN
       (IF tmp2 <= 2*lsq2*E[i2] THEN EdgeRes(i0, i2, i1, P, D, E, tmp2, lsq2, "face" \o f \o ":c:edge")
        ELSE CornerRes(i0, i2, 1, i1, -1, P, D, E, "face" \o f \o ":c:corner"))
     ELSE IF tmp1 >= 0 THEN
       (IF tmp1 <= 2*lsq1*E[i1] THEN EdgeRes(i0, i1, i2, P, D, E, tmp1, lsq1, "face" \o f \o ":d:edge1")
        ELSE CornerRes(i0, i1, 1, i2, -1, P, D, E, "face" \o f \o ":d:corner1"))
     ELSE IF tmp2 >= 0 THEN
       (IF tmp2 <= 2*lsq2*E[i2] THEN EdgeRes(i0, i2, i1, P, D, E, tmp2, lsq2, "face" \o f \o ":d:edge2")
        ELSE CornerRes(i0, i2, 1, i1, -1, P, D, E, "face" \o f \o ":d:corner2"))
     ELSE CornerRes(i0, i1, -1, i2, -1, P, D, E, "face" \o f \o ":d:corner--")
NoZeros(P, D, E) ==
  LET pm == [k \in 1..3 |-> P[k] - E[k]] IN
  IF D[2]*pm[1] >= D[1]*pm[2]
  THEN (IF D[3]*pm[1] >= D[1]*pm[3] THEN BoxFace(1, 2, 3, P, D, E) ELSE BoxFace(3, 1, 2, P, D, E))
  ELSE (IF D[3]*pm[2] >= D[2]*pm[3] THEN BoxFace(2, 3, 1, P, D, E) ELSE BoxFace(3, 1, 2, P, D, E))

(* _case_0(i0, i1, i2): D[i2] = 0 *)
Clamp(x, e) == IF x < -e THEN -e ELSE IF x > e THEN e ELSE x
Case0(i0, i1, i2, P, D, E) ==
  LET pm0 == P[i0] - E[i0]  pm1 == P[i1] - E[i1]
      prod0 == D[i1]*pm0    prod1 == D[i0]*pm1
      lsq == D[i0]*D[i0] + D[i1]*D[i1]
      c2  == Clamp(P[i2], E[i2])
      d2  == (P[i2] - c2)*(P[i2] - c2)
      tag == "zero" \o ToString(i2)
  IN IF prod0 >= prod1 THEN
       LET pp1 == P[i1] + E[i1]  dl == prod0 - D[i0]*pp1 IN
       IF dl >= 0 THEN Res(RA(Q(dl*dl, lsq), I(d2)), Q(-(D[i0]*pm0 + D[i1]*pp1), lsq),
                           Set3(i0, I(E[i0]), i1, I(-E[i1]), i2, I(c2)), tag \o ":exit0:miss")
       ELSE Res(I(d2), Q(-pm0, D[i0]), Set3(i0, I(E[i0]), i1, RS(I(P[i1]), Q(prod0, D[i0])), i2, I(c2)), tag \o ":exit0:hit")
     ELSE
       LET pp0 == P[i0] + E[i0]  dl == prod1 - D[i1]*pp0 IN
       IF dl >= 0 THEN Res(RA(Q(dl*dl, lsq), I(d2)), Q(-(D[i0]*pp0 + D[i1]*pm1), lsq),
                           Set3(i0, I(-E[i0]), i1, I(E[i1]), i2, I(c2)), tag \o ":exit1:miss")
       ELSE Res(I(d2), IF Variant = "case0_param" THEN Q(-pm0, D[i1]) ELSE Q(-pm1, D[i1]),
                Set3(i0, RS(I(P[i0]), Q(prod1, D[i1])), i1, I(E[i1]), i2, I(c2)), tag \o ":exit1:hit")
(* _case_00(i0, i1, i2): D[i1] = D[i2] = 0 *)
Case00(i0, i1, i2, P, D, E) ==
  LET c1 == Clamp(P[i1], E[i1])
      c2 == IF Variant = "clip_i1" THEN Clamp(P[i2], E[i1]) ELSE Clamp(P[i2], E[i2])
  IN Res(I((P[i1]-c1)*(P[i1]-c1) + (P[i2]-c2)*(P[i2]-c2)), Q(E[i0] - P[i0], D[i0]),
         Set3(i0, I(E[i0]), i1, I(c1), i2, I(c2)), "par" \o ToString(i0))

(* _line_to_box in the box frame: reflect, dispatch, undo the reflection.  Result: squared distance, line parameter,
   box point (both in the unreflected frame), branch label *)
LineToBox(P0, D0, E) ==
  LET sg == [k \in 1..3 |-> IF D0[k] < 0 THEN -1 ELSE 1]
      P  == [k \in 1..3 |-> sg[k]*P0[k]]
      D  == [k \in 1..3 |-> sg[k]*D0[k]]
      r  == IF D[1] > 0 THEN
              (IF D[2] > 0 THEN (IF D[3] > 0 THEN NoZeros(P, D, E) ELSE Case0(1, 2, 3, P, D, E))
               ELSE (IF D[3] > 0 THEN Case0(1, 3, 2, P, D, E) ELSE Case00(1, 2, 3, P, D, E)))
            ELSE
              (IF D[2] > 0 THEN (IF D[3] > 0 THEN Case0(2, 3, 1, P, D, E) ELSE Case00(2, 1, 3, P, D, E))
               ELSE Case00(3, 1, 2, P, D, E))
  IN [r EXCEPT !.pt = [k \in 1..3 |-> IF sg[k] < 0 THEN RNeg(r.pt[k]) ELSE r.pt[k]]]
PointToBox(X, E) ==     \* point_to_box: clamp; returns squared distance and box point
  LET c == [k \in 1..3 |-> Clamp(X[k], E[k])] IN
  [sd |-> I((X[1]-c[1])*(X[1]-c[1]) + (X[2]-c[2])*(X[2]-c[2]) + (X[3]-c[3])*(X[3]-c[3])), pt |-> [k \in 1..3 |-> I(c[k])]]
SegToBox(P0, D0, E) ==  \* line_segment_to_box with start P0 and end P0 + D0
  LET r == LineToBox(P0, D0, E) IN
  IF RSgn(r.lp) < 0 THEN LET q == PointToBox(P0, E) IN Res(q.sd, I(0), q.pt, r.path \o ":start")
  ELSE IF r.lp[1] > r.lp[2] THEN LET q == PointToBox(Add(P0, D0), E) IN Res(q.sd, I(1), q.pt, r.path \o ":end")
  ELSE [r EXCEPT !.path = r.path \o ":inner"]

-----------------------------------------------------------------------------
(* certificates *)
LinePt(P0, D0, lp) == [k \in 1..3 |-> RA(I(P0[k]), RM(lp, I(D0[k])))]
NVec(P0, D0, r) == LET x == LinePt(P0, D0, r.lp) IN [k \in 1..3 |-> RS(x[k], r.pt[k])]
RDot(n, D0) == RA(RA(RM(n[1], I(D0[1])), RM(n[2], I(D0[2]))), RM(n[3], I(D0[3])))
OnBoxOK(r, E) == \A k \in 1..3 : RLe(I(-E[k]), r.pt[k]) /\ RLe(r.pt[k], I(E[k]))
ConsistentOK(P0, D0, r) == LET n == NVec(P0, D0, r) IN REq(RA(RA(RSq(n[1]), RSq(n[2])), RSq(n[3])), r.sd)
BoxSupports(n, r, E) == \A k \in 1..3 : (RSgn(n[k]) > 0 => REq(r.pt[k], I(E[k]))) /\ (RSgn(n[k]) < 0 => REq(r.pt[k], I(-E[k])))
LineKKT(P0, D0, E, r) == LET n == NVec(P0, D0, r) IN BoxSupports(n, r, E) /\ RSgn(RDot(n, D0)) = 0
SegKKT(P0, D0, E, r) ==
  LET n == NVec(P0, D0, r)  s == RSgn(RDot(n, D0)) IN
  /\ RSgn(r.lp) >= 0 /\ r.lp[1] <= r.lp[2]
  /\ BoxSupports(n, r, E)
  /\ IF r.lp[1] = 0 THEN s >= 0 ELSE IF r.lp[1] = r.lp[2] THEN s <= 0 ELSE s = 0

-----------------------------------------------------------------------------
VARIABLES ph, PP, DD, EE
vars == <<ph, PP, DD, EE>>
Init == ph = "box" /\ PP = Zero3 /\ DD = Zero3 /\ EE = <<1, 1, 1>>
PickBox  == ph = "box"  /\ \E a, b, c \in 1..KE : EE' = <<a, b, c>> /\ ph' = "dir" /\ UNCHANGED <<PP, DD>>
PickDir  == ph = "dir"  /\ \E a, b, c \in (-KD)..KD : <<a, b, c>> # Zero3 /\ DD' = <<a, b, c>> /\ ph' = "pt" /\ UNCHANGED <<PP, EE>>
PickPt   == ph = "pt"   /\ \E a, b, c \in (-K)..K : PP' = <<a, b, c>> /\ ph' = "done" /\ UNCHANGED <<DD, EE>>
Next == PickBox \/ PickDir \/ PickPt
Spec == Init /\ [][Next]_vars

Done == ph = "done"
LR == LineToBox(PP, DD, EE)
SR == SegToBox(PP, DD, EE)
OnBox       == Done => OnBoxOK(LR, EE) /\ OnBoxOK(SR, EE)
Consistent  == Done => ConsistentOK(PP, DD, LR) /\ ConsistentOK(PP, DD, SR)
LineOptimal == Done => LineKKT(PP, DD, EE, LR)
SegOptimal  == Done => SegKKT(PP, DD, EE, SR)
=============================================================================
