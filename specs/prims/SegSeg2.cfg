SPECIFICATION Spec
CONSTANTS
  K = 2
  Variant = "lib"
INVARIANT InRange
INVARIANT GlobalMinimum
