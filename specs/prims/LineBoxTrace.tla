----------------------------- MODULE LineBoxTrace -----------------------------
(* C10 / C11 - binds distance3d.distance.line_to_box and line_segment_to_box to the explorer LineBox: one record per call of
   the real function on a lattice configuration (r.P, r.D, r.E: integer line point, direction / segment vector and half sizes
   in the frame of the box; the harness places the scene at a lattice pose).  r.d2n / r.d2d is the squared distance the
   function returned, reconstructed as a rational when it closes (r.recon); r.onTicks, r.consTicks are the measured
   residuals of the returned points in ticks of 1e-9 * L / 8 and 1e-6 * L / 8.  TLC recomputes the model's result for the
   configuration, verifies its KKT certificate (ORACLE_CertInvalid otherwise: the model, not the code, would be wrong) and
   judges
     GlobalMinimum                     returned distance = certified minimum                                   (C11)
     PointsOnPrimitives / Consistent   returned points on line / segment and box, d apart                      (C10)
   and prints the set of branch labels that the replayed configurations reach. *)
EXTENDS LineBox, Json, IOUtils
T == ndJsonDeserialize(IOEnv.TRACE_FILE)
V3(x) == <<x[1], x[2], x[3]>>
Slack == 8 + 1
Model(r) == IF r.fn = "line" THEN LineToBox(V3(r.P), V3(r.D), V3(r.E)) ELSE SegToBox(V3(r.P), V3(r.D), V3(r.E))
CertOK(r, m) == /\ OnBoxOK(m, V3(r.E)) /\ ConsistentOK(V3(r.P), V3(r.D), m)
                /\ IF r.fn = "line" THEN LineKKT(V3(r.P), V3(r.D), V3(r.E), m) ELSE SegKKT(V3(r.P), V3(r.D), V3(r.E), m)
F(r) ==
  LET m == Model(r) IN
  IF r.exc # "none" THEN {"NoException"}
  ELSE IF ~CertOK(r, m) THEN {"ORACLE_CertInvalid"}
  ELSE {c \in {"GlobalMinimum", "PointsOnPrimitives", "Consistent"} :
          ~ CASE c = "GlobalMinimum"      -> r.recon /\ REq(<<r.d2n, r.d2d>>, m.sd)
              [] c = "PointsOnPrimitives" -> r.onTicks <= Slack
              [] c = "Consistent"         -> r.consTicks <= Slack}
BadIdx == {i \in 1..Len(T) : F(T[i]) # {}}
ASSUME /\ \A i \in BadIdx : PrintT(<<"REJECT", T[i].id, F(T[i])>>)
       /\ PrintT(<<"PATHS", {Model(T[i]).path : i \in 1..Len(T)}>>)
       /\ PrintT(<<"JUDGED", Len(T), Cardinality(BadIdx)>>)
TInit == Init
TNext == UNCHANGED vars
=============================================================================
