INIT TInit
NEXT TNext
CONSTANTS
  K = 0
  KD = 0
  KE = 1
  Variant = "lib"
