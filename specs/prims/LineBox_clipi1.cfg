SPECIFICATION Spec
CONSTANTS
  K = 3
  KD = 1
  KE = 2
  Variant = "clip_i1"
INVARIANT OnBox
INVARIANT Consistent
INVARIANT LineOptimal
INVARIANT SegOptimal
