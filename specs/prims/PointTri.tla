------------------------------ MODULE PointTri ------------------------------
(* C10 / C11 - EXPLORER for distance3d.distance.point_to_triangle (_triangle.py), Ericson's Voronoi-region case analysis
   (vertex regions A, B, C, edge regions AB, AC, BC, face region), transcribed in exact rational arithmetic on lattice
   points.  The same routine decides "origin in triangle" inside the libccd GJK and the MPR penetration depth.

   Checked for EVERY non-degenerate triangle with A at the origin and B, C in (-K..K)^3 and every query point in
   (-K-1..K+1)^3:
     OnTriangle     the returned point is a convex combination of A, B, C (weights >= 0 summing to 1)
     GlobalMinimum  its squared distance to the query point equals the squared distance of the point to the triangle,
                    defined independently as the minimum norm point of hull{A-p, B-p, C-p} (MinNorm: KKT)
   Variant "lib" is the library; "bc_first" tests the edge region BC with the sign of vb instead of va and must violate
   GlobalMinimum.  The same configurations are replayed on the real function (PointTriTrace). *)
EXTENDS MinNorm, TLC
CONSTANTS K, Variant
VARIABLES ph, B, C, P
vars == <<ph, B, C, P>>
Pts(k) == {<<x, y, z>> : x \in (-k)..k, y \in (-k)..k, z \in (-k)..k}

(* barycentric weights <<wa, wb, wc, W>> (integers over the common denominator W > 0) of the returned point *)
Weights(a, b, c, p, variant) ==
  LET ab == Sub(b, a)  ac == Sub(c, a)
      ap == Sub(p, a)  d1 == Dot(ab, ap)  d2 == Dot(ac, ap)
      bp == Sub(p, b)  d3 == Dot(ab, bp)  d4 == Dot(ac, bp)
      cp == Sub(p, c)  d5 == Dot(ab, cp)  d6 == Dot(ac, cp)
      vc == d1 * d4 - d3 * d2
      vb == d5 * d2 - d1 * d6
      va == d3 * d6 - d5 * d4
  IN  IF d1 <= 0 /\ d2 <= 0 THEN <<1, 0, 0, 1>>
      ELSE IF d3 >= 0 /\ d4 <= d3 THEN <<0, 1, 0, 1>>
      ELSE IF vc <= 0 /\ 0 <= d1 /\ d3 <= 0 THEN <<-d3, d1, 0, d1 - d3>>                    \* v = d1 / (d1 - d3) on AB
      ELSE IF d6 >= 0 /\ d5 <= d6 THEN <<0, 0, 1, 1>>
      ELSE IF vb <= 0 /\ 0 <= d2 /\ d6 <= 0 THEN <<-d6, 0, d2, d2 - d6>>                    \* w = d2 / (d2 - d6) on AC
      ELSE IF (IF variant = "bc_first" THEN vb ELSE va) <= 0 /\ 0 <= d4 - d3 /\ d5 - d6 >= 0
           THEN <<0, d5 - d6, d4 - d3, (d4 - d3) + (d5 - d6)>>                             \* w = (d4-d3)/((d4-d3)+(d5-d6)) on BC
      ELSE <<va, vb, vc, va + vb + vc>>                                                    \* face region
Closest(a, b, c, w) == ReduceV(Add(Add(Scale(w[1], a), Scale(w[2], b)), Scale(w[3], c)), w[4])     \* <<vector, denominator>>
Dist2(a, b, c, p, w) ==
  LET q == Closest(a, b, c, w)
      v == Sub(q[1], Scale(q[2], p))
  IN  RRed(<<Dot(v, v), q[2] * q[2]>>)
TrueDist2(a, b, c, p) == MinNorm2(<<Sub(a, p), Sub(b, p), Sub(c, p)>>)

Init == ph = "tri" /\ B = Zero3 /\ C = Zero3 /\ P = Zero3
PickTri == ph = "tri" /\ \E b, c \in Pts(K) : Cross(b, c) # Zero3 /\ B' = b /\ C' = c /\ ph' = "point" /\ UNCHANGED P
PickPoint == ph = "point" /\ \E p \in Pts(K + 1) : P' = p /\ ph' = "done" /\ UNCHANGED <<B, C>>
Next == PickTri \/ PickPoint
Spec == Init /\ [][Next]_vars

W == Weights(Zero3, B, C, P, Variant)
OnTriangle == ph = "done" => (W[4] > 0 /\ W[1] >= 0 /\ W[2] >= 0 /\ W[3] >= 0 /\ W[1] + W[2] + W[3] = W[4])
GlobalMinimum == ph = "done" => REq(Dist2(Zero3, B, C, P, W), TrueDist2(Zero3, B, C, P))
=============================================================================
