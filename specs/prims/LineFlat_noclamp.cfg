SPECIFICATION Spec
CONSTANTS
  Shapes <- ShapesQuick
  K = 2
  KD = 1
  Variant = "no_clamp"
INVARIANT OnShape
INVARIANT Consistent
INVARIANT LineOptimal
INVARIANT SegOptimal
