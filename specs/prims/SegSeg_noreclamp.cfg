SPECIFICATION Spec
CONSTANTS
  K = 1
  Variant = "no_reclamp"
INVARIANT InRange
INVARIANT GlobalMinimum
