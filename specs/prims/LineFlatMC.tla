------------------------------ MODULE LineFlatMC ------------------------------
EXTENDS LineFlat
Tri(a, b, c) == [kind |-> "tri", V |-> <<a, b, c>>]
Rect(c, x0, x1) == [kind |-> "rect", c |-> c, X |-> <<x0, x1>>]
(* a small catalogue: right, isosceles, skinny, obtuse triangles in axis planes and oblique; rectangles aligned, diagonal, oblique *)
ShapesQuick == { Tri(<<0,0,0>>, <<2,0,0>>, <<0,2,0>>), Tri(<<0,0,0>>, <<2,0,0>>, <<1,0,2>>), Tri(<<-2,0,0>>, <<2,0,0>>, <<0,1,0>>),
                 Tri(<<0,0,0>>, <<2,2,0>>, <<0,2,2>>), Tri(<<-1,-1,0>>, <<2,0,1>>, <<0,2,-1>>), Tri(<<0,0,0>>, <<1,0,0>>, <<-2,1,0>>),
                 Rect(<<0,0,0>>, <<2,0,0>>, <<0,1,0>>), Rect(<<0,0,0>>, <<0,1,0>>, <<0,0,2>>), Rect(<<0,0,0>>, <<1,1,0>>, <<-1,1,0>>),
                 Rect(<<1,0,0>>, <<1,0,1>>, <<0,2,0>>) }
Lat2 == {<<x, y, z>> : x \in {-2, 0, 2}, y \in {-2, 0, 2}, z \in {-2, 0, 2}}
AllTris == { Tri(<<0,0,0>>, b, c) : b \in Lat2, c \in Lat2 }
ShapesAll == ShapesQuick \cup { s \in AllTris : Cross(s.V[2], s.V[3]) # Zero3 }
=============================================================================
