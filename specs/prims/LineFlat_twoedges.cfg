SPECIFICATION Spec
CONSTANTS
  Shapes <- ShapesQuick
  K = 2
  KD = 1
  Variant = "two_edges"
INVARIANT OnShape
INVARIANT Consistent
INVARIANT LineOptimal
INVARIANT SegOptimal
