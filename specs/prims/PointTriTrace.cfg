INIT TInit
NEXT TNext
CONSTANTS
  K = 1
  Variant = "lib"
