------------------------------- MODULE SegSeg -------------------------------
(* C10 / C11 - EXPLORER for distance3d.distance.line_segment_to_line_segment (_line.py:
   _line_segment_to_line_segment), the clamping case analysis of Ericson's "closest point of two segments",
   transcribed in exact rational arithmetic on lattice end points.

   The routine distinguishes: both segments degenerate / first degenerate / second degenerate / general with
   denom # 0 / parallel (denom = 0, s := 0), then clamps t to [0,1] and recomputes s.  On the lattice
   "x < epsilon" for a squared length is "x = 0" and "denom != 0.0" is exact.

   Checked for EVERY pair of segments with end points in the cube (-K..K)^3 (first start point fixed at the
   origin: the routine is translation invariant), degenerate ones included:
     InRange        0 <= s, t <= 1
     GlobalMinimum  |p1 - p2|^2 equals the squared minimum distance of the two segments, defined independently
                    as the minimum norm point of the convex hull of the four end-point differences (MinNorm: KKT)
   Variant "lib" is the library; "no_reclamp" drops the recomputation of s after t was clamped and must violate
   GlobalMinimum.  The same configurations are replayed on the real function (SegSegTrace). *)
EXTENDS MinNorm, TLC
CONSTANTS K, Variant
VARIABLES ph, A2, B1, B2
vars == <<ph, A2, B1, B2>>
Pts == {<<x, y, z>> : x \in (-K)..K, y \in (-K)..K, z \in (-K)..K}

(* rationals <<n, d>> with d > 0 *)
Q(n, d) == RRed(IF d < 0 THEN <<-n, -d>> ELSE <<n, d>>)
Clamp01(q) == IF q[1] <= 0 THEN <<0, 1>> ELSE IF q[1] >= q[2] THEN <<1, 1>> ELSE q

(* returns <<s, t>> as rationals *)
Params(a1, a2, b1, b2, variant) ==
  LET d1 == Sub(a2, a1)  d2 == Sub(b2, b1)
      a == Dot(d1, d1)   e == Dot(d2, d2)
      r == Sub(a1, b1)   f == Dot(d2, r)   c == Dot(d1, r)   b == Dot(d1, d2)
      denom == a * e - b * b
  IN  IF a = 0 /\ e = 0 THEN <<<<0, 1>>, <<0, 1>>>>
      ELSE IF a = 0 THEN <<<<0, 1>>, Clamp01(Q(f, e))>>
      ELSE IF e = 0 THEN <<Clamp01(Q(-c, a)), <<0, 1>>>>
      ELSE LET s0 == IF denom # 0 THEN Clamp01(Q(b * f - c * e, denom)) ELSE <<0, 1>>
               t0 == Q(b * s0[1] + f * s0[2], e * s0[2])             \* (b s + f) / e
           IN  IF t0[1] < 0 THEN <<IF variant = "no_reclamp" THEN s0 ELSE Clamp01(Q(-c, a)), <<0, 1>>>>
               ELSE IF t0[1] > t0[2] THEN <<IF variant = "no_reclamp" THEN s0 ELSE Clamp01(Q(b - c, a)), <<1, 1>>>>
               ELSE <<s0, t0>>

(* squared distance of the returned points as a rational <<n, d>>:  | (a1 + s d1) - (b1 + t d2) |^2 *)
Dist2(a1, a2, b1, b2, st) ==
  LET s == st[1]  t == st[2]
      d1 == Sub(a2, a1)  d2 == Sub(b2, b1)
      \* common denominator s[2]*t[2]
      v == Sub(Add(Scale(s[2] * t[2], Sub(a1, b1)), Scale(s[1] * t[2], d1)), Scale(t[1] * s[2], d2))
      rv == ReduceV(v, s[2] * t[2])
  IN  RRed(<<Dot(rv[1], rv[1]), rv[2] * rv[2]>>)
TrueDist2(a1, a2, b1, b2) == MinNorm2(<<Sub(a1, b1), Sub(a1, b2), Sub(a2, b1), Sub(a2, b2)>>)

Init == ph = "first" /\ A2 = Zero3 /\ B1 = Zero3 /\ B2 = Zero3
PickFirst  == ph = "first" /\ \E p \in Pts : A2' = p /\ ph' = "second" /\ UNCHANGED <<B1, B2>>
PickSecond == ph = "second" /\ \E p, q \in Pts : B1' = p /\ B2' = q /\ ph' = "done" /\ UNCHANGED A2
Next == PickFirst \/ PickSecond
Spec == Init /\ [][Next]_vars

ST == Params(Zero3, A2, B1, B2, Variant)
InRange == ph = "done" => (\A i \in 1..2 : ST[i][1] >= 0 /\ ST[i][1] <= ST[i][2] /\ ST[i][2] > 0)
GlobalMinimum == ph = "done" => REq(Dist2(Zero3, A2, B1, B2, ST), TrueDist2(Zero3, A2, B1, B2))
=============================================================================
