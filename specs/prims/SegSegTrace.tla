----------------------------- MODULE SegSegTrace -----------------------------
(* C10 / C11 - binds distance3d.distance.line_segment_to_line_segment to the explorer SegSeg: one record per call
   of the real function on a lattice configuration (r.a1, r.a2, r.b1, r.b2 integer end points; the squared distance it
   returned, reconstructed as the rational r.d2n / r.d2d when it closes (r.recon); r.onTicks, r.consTicks: measured
   residuals of the returned points in ticks of 1e-9 / 1e-6).  TLC recomputes the model's parameters s, t and the
   exact minimum for the same configuration:
     GlobalMinimum   the returned distance equals the exact minimum (MinNorm over the end-point differences)   (C11)
     PointsOnSegments / Consistent   the returned points lie on their segments and are d apart                 (C10)
     DRIFT_MatchesModel   the returned distance equals the one of the model's s, t (conformance; implied by
                          GlobalMinimum whenever the model is right, reported separately) *)
EXTENDS SegSeg, Json, IOUtils
T == ndJsonDeserialize(IOEnv.TRACE_FILE)
V3(x) == <<x[1], x[2], x[3]>>
Slack == 8 + 1
F(r) ==
  LET a1 == V3(r.a1)  a2 == V3(r.a2)  b1 == V3(r.b1)  b2 == V3(r.b2)
      model == Dist2(a1, a2, b1, b2, Params(a1, a2, b1, b2, "lib"))
      truth == TrueDist2(a1, a2, b1, b2)
  IN  IF r.exc # "none" THEN {"NoException"}
      ELSE {c \in {"GlobalMinimum", "PointsOnSegments", "Consistent", "DRIFT_MatchesModel"} :
              ~ CASE c = "GlobalMinimum"      -> r.recon /\ REq(<<r.d2n, r.d2d>>, truth)
                  [] c = "PointsOnSegments"   -> r.onTicks <= Slack
                  [] c = "Consistent"         -> r.consTicks <= Slack
                  [] c = "DRIFT_MatchesModel" -> r.recon /\ REq(<<r.d2n, r.d2d>>, model)}
BadIdx == {i \in 1..Len(T) : F(T[i]) # {}}
ASSUME /\ \A i \in BadIdx : PrintT(<<"REJECT", T[i].id, F(T[i])>>)
       /\ PrintT(<<"JUDGED", Len(T), Cardinality(BadIdx)>>)
TInit == ph = "first" /\ A2 = Zero3 /\ B1 = Zero3 /\ B2 = Zero3
TNext == UNCHANGED vars
=============================================================================
