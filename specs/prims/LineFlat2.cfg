SPECIFICATION Spec
CONSTANTS
  Shapes <- ShapesAll
  K = 2
  KD = 1
  Variant = "lib"
INVARIANT OnShape
INVARIANT Consistent
INVARIANT LineOptimal
INVARIANT SegOptimal
