SPECIFICATION Spec
CONSTANTS
  K = 2
  Variant = "lib"
INVARIANT OnTriangle
INVARIANT GlobalMinimum
