SPECIFICATION Spec
CONSTANTS
  K = 3
  KD = 1
  KE = 2
  Variant = "lib"
INVARIANT OnBox
INVARIANT Consistent
INVARIANT LineOptimal
INVARIANT SegOptimal
