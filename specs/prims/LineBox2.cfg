SPECIFICATION Spec
CONSTANTS
  K = 4
  KD = 2
  KE = 3
  Variant = "lib"
INVARIANT OnBox
INVARIANT Consistent
INVARIANT LineOptimal
INVARIANT SegOptimal
