INIT TInit
NEXT TNext
CONSTANTS
  Shapes = {}
  K = 0
  KD = 0
  Variant = "lib"
