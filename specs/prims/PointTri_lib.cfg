SPECIFICATION Spec
CONSTANTS
  K = 1
  Variant = "lib"
INVARIANT OnTriangle
INVARIANT GlobalMinimum
