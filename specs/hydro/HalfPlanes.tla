------------------------------ MODULE HalfPlanes ------------------------------
(* C15 - EXPLORER for make_halfplanes (hydroelastic_contact/_tetrahedron_intersection.py):
   the eight faces of the two tetrahedra are turned into 2-D half-planes in the contact plane;
   faces parallel to the plane (projected normal of zero length) are skipped.  The routine
   fills an array of 8 rows and returns its first hp_idx rows.

   Variant "slot_i"  (code as first found): row i is written for face i.
   Variant "compact" (code after the fix):  row hp_idx is written.

   Checked for every subset of skipped faces: the returned rows are exactly the half-planes of
   the non-parallel faces (none lost, none uninitialised). *)
EXTENDS Integers, Sequences, FiniteSets, TLC
CONSTANT Variant
VARIABLES skipped, i, hp, rows         \* rows: 0-based slot -> face id, or -1 for an uninitialised row
vars == <<skipped, i, hp, rows>>
Init == /\ skipped \in SUBSET (0..7) /\ i = 0 /\ hp = 0 /\ rows = [k \in 0..7 |-> -1]
Step == /\ i < 8
        /\ IF i \in skipped THEN UNCHANGED <<hp, rows>>
           ELSE /\ rows' = [rows EXCEPT ![IF Variant = "slot_i" THEN i ELSE hp] = i]
                /\ hp' = hp + 1
        /\ i' = i + 1 /\ UNCHANGED skipped
Spec == Init /\ [][Step]_vars
Returned == { rows[k] : k \in 0..(hp - 1) }
Correct == i = 8 => (Returned = (0..7) \ skipped /\ -1 \notin Returned)
=============================================================================
