SPECIFICATION Spec
CONSTANTS
  Pool <- PoolDef
  MaxN = 6
  Boundary = "inside"
  Dedup = "merge"
  Emit = TRUE
INVARIANT Complete
INVARIANT FitsTable
INVARIANT EmitClip
