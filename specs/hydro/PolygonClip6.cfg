SPECIFICATION Spec
CONSTANTS
  Pool <- PoolDef
  MaxN = 6
  Boundary = "inside"
  Dedup = "merge"
  Emit = FALSE
INVARIANT Complete
INVARIANT FitsTable
