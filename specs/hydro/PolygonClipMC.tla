---------------------------- MODULE PolygonClipMC ----------------------------
(* model values for PolygonClip: a pool of integer half-planes a x + b y <= c around the origin with
   parallel, coincident (same line, same side), concurrent (three lines through one point) members *)
EXTENDS PolygonClip
PoolDef == { <<1, 0, 2>>, <<-1, 0, 2>>, <<0, 1, 2>>, <<0, -1, 2>>,      \* the square |x|, |y| <= 2
             <<1, 1, 4>>,                                            \* through the corner (2, 2): three concurrent lines
             <<1, 1, 3>>, <<-1, 1, 2>>, <<1, -1, 0>>, <<1, 2, 4>>,      \* generic cuts; (1,2,4) passes through (0,2) and (2,1)
             <<2, 0, 4>>,                                            \* the same half-plane as (1,0,2): coincident lines
             <<0, 1, 1>> }
==============================================================================
