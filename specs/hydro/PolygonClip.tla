----------------------------- MODULE PolygonClip -----------------------------
(* C15 / C16 - EXPLORER for intersect_halfplanes + filter_unique_points + the tesselation table
   (hydroelastic_contact/_halfplanes.py, _tetrahedron_intersection.py, _forces.py).

   The contact polygon of two tetrahedra is the intersection of up to 8 half-planes in the contact plane.
   The code intersects every pair of boundary lines (i < j), keeps a candidate point when no third
   half-plane excludes it, sorts by angle, merges duplicates and fans the polygon with a table of 6
   triangles (8 vertices).  The pressure fields of both tetrahedra vanish on the same line of the contact
   plane, so two COINCIDENT half-planes are the rule, and structured meshes make three lines through
   one point common: candidates then lie exactly on the boundary of a third half-plane and several
   candidates are the same point.  What the floating-point code does with an exact zero is decided by
   rounding; the model makes that an explicit, adversarial choice:

     Boundary = "coin"     a candidate on the boundary of a third half-plane may be kept or dropped
                           (code as found: absolute tolerance of machine epsilon on unnormalised operands)
              = "inside"   it is kept (code as fixed: relative tolerance)
     Dedup    = "coin"     equal points may or may not be merged (as found: 10 eps absolute)
              = "merge"    equal points are merged (as fixed)

   Half-planes are integer triples <<a, b, c>> meaning a x + b y <= c.  TLC explores every subset of
   3..MaxN half-planes of Pool and every adversarial choice and checks
     Complete    the distinct kept points are exactly the vertices of the true polygon
     FitsTable   at most 8 points reach the tesselation table
   With "coin" TLC produces counterexamples (CLIP lines name the subsets that have boundary candidates);
   harness/props/c15.py replays every explored subset on the real routines under random similarity
   transforms, in two half-plane orders, where rounding plays the adversary. *)
EXTENDS Integers, Sequences, FiniteSets, TLC, Json
CONSTANTS Pool, MaxN, Boundary, Dedup, Emit
VARIABLES hs, pc, kept, done
vars == <<hs, pc, kept, done>>

Det(h, g) == h[1] * g[2] - h[2] * g[1]
Abs(x) == IF x < 0 THEN -x ELSE x
Sgn(x) == IF x < 0 THEN -1 ELSE 1
(* intersection of the boundary lines of h and g as <<nx, ny, d>> with d > 0 (point nx/d, ny/d) *)
Pt(h, g) == LET d == Det(h, g) IN
            <<Sgn(d) * (h[3] * g[2] - g[3] * h[2]), Sgn(d) * (h[1] * g[3] - g[1] * h[3]), Abs(d)>>
SamePoint(p, q) == p[1] * q[3] = q[1] * p[3] /\ p[2] * q[3] = q[2] * p[3]
Margin(k, p) == k[3] * p[3] - (k[1] * p[1] + k[2] * p[2])          \* >= 0 inside
Pairs(S) == {pr \in S \X S : pr[1] # pr[2] /\ Det(pr[1], pr[2]) > 0}   \* each unordered non-parallel pair once
Weak(S)   == {pr \in Pairs(S) : \A k \in S \ {pr[1], pr[2]} : Margin(k, Pt(pr[1], pr[2])) >= 0}
Strict(S) == {pr \in Pairs(S) : \A k \in S \ {pr[1], pr[2]} : Margin(k, Pt(pr[1], pr[2])) > 0}
(* a proper polygon: no recession direction (the extreme rays of the recession cone run along boundary lines)
   and at least three distinct vertices *)
Bounded(S) == /\ \A k \in S : \A sg \in {1, -1} :
                   \E j \in S : j[1] * (sg * (-k[2])) + j[2] * (sg * k[1]) > 0
              /\ Cardinality({Pt(pr[1], pr[2]) : pr \in {q \in Weak(S) : TRUE}}) >= 3
Classes(P) == {{q \in P : SamePoint(Pt(q[1], q[2]), Pt(p[1], p[2]))} : p \in P}     \* candidates grouped by point

Init == /\ hs \in {S \in SUBSET Pool : Cardinality(S) >= 3 /\ Cardinality(S) <= MaxN /\ Bounded(S)}
        /\ pc = "scan" /\ kept = {} /\ done = FALSE
(* the scan: which candidates survive the third-half-plane test *)
Scan == /\ pc = "scan"
        /\ kept' \in IF Boundary = "coin" THEN {K \in SUBSET Weak(hs) : Strict(hs) \subseteq K} ELSE {Weak(hs)}
        /\ pc' = "dedup" /\ UNCHANGED <<hs, done>>
(* merging of equal points: per group of equal points, how many survive *)
DedupStep ==
        /\ pc = "dedup"
        /\ kept' \in IF Dedup = "coin" THEN {K \in SUBSET kept : \A c \in Classes(kept) : c \cap K # {}}
                     ELSE {CHOOSE K \in SUBSET kept : \A c \in Classes(kept) : Cardinality(c \cap K) = 1}
        /\ pc' = "done" /\ done' = TRUE /\ UNCHANGED hs
Next == Scan \/ DedupStep
Spec == Init /\ [][Next]_vars

Complete  == done => Cardinality(Classes(kept)) = Cardinality(Classes(Weak(hs)))
FitsTable == done => Cardinality(kept) <= 8
(* every explored subset with its true vertices, for the replay *)
EmitClip == (Emit /\ pc = "scan") =>
              PrintT(<<"CLIP", ToJson([hs |-> hs, nverts |-> Cardinality(Classes(Weak(hs))),
                                       boundary |-> Weak(hs) # Strict(hs), dups |-> Cardinality(Weak(hs)) - Cardinality(Classes(Weak(hs)))])>>)
=============================================================================
