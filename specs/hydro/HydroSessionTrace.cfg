SPECIFICATION TSpec
CONSTANTS
  Bodies = {"A", "B", "C"}
  Invalidate = {"tetrahedra_points", "com", "aabbs", "aabb_tree"}
  Cached = {"tetrahedra_points", "com", "aabbs", "aabb_tree"}
  FrameCopy = TRUE
  DetailsFirst = FALSE
  TreeRule = "none"
  BoxCache = "none"
  MaxCalls = 1000000
  MaxMoves = 1000000
  Witness = FALSE
POSTCONDITION Consumed
CHECK_DEADLOCK FALSE
