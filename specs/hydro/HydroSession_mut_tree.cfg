SPECIFICATION Spec
CONSTANTS
  Bodies = {"A", "B", "C"}
  Invalidate = {"tetrahedra_points", "com", "aabbs"}
  Cached = {"tetrahedra_points", "com", "aabbs", "aabb_tree"}
  FrameCopy = TRUE
  DetailsFirst = FALSE
  TreeRule = "none"
  BoxCache = "none"
  MaxCalls = 3
  MaxMoves = 1
  Witness = TRUE
INVARIANT EmitWitness
