SPECIFICATION Spec
CONSTANTS
  Pool <- PoolDef
  MaxN = 5
  Boundary = "inside"
  Dedup = "merge"
  Emit = TRUE
INVARIANT Complete
INVARIANT FitsTable
INVARIANT EmitClip
