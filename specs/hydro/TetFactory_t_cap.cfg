SPECIFICATION Spec
CONSTANTS
  Kinds = {"capsule"}
  MaxN = 6
  MaxC = 5
  MaxOrder = 0
  Variant = "lib"
INVARIANT IndicesInRange
INVARIANT FourDistinct
INVARIANT NoDuplicateTet
INVARIANT VerticesReferenced
INVARIANT FaceAtMostTwo
INVARIANT BoundaryClosed
INVARIANT NonZeroVolume
INVARIANT ApexesSeparated
INVARIANT BoundaryOnHull
INVARIANT PotentialLayout
INVARIANT IcoSurface
