SPECIFICATION Spec
CONSTANTS
  Kinds = {"capsule"}
  MaxN = 4
  MaxC = 3
  MaxOrder = 0
  Variant = "lib"
INVARIANT IndicesInRange
INVARIANT FourDistinct
INVARIANT NoDuplicateTet
INVARIANT VerticesReferenced
INVARIANT FaceAtMostTwo
INVARIANT BoundaryClosed
INVARIANT NonZeroVolume
INVARIANT ApexesSeparated
INVARIANT BoundaryOnHull
INVARIANT PotentialLayout
INVARIANT IcoSurface
