-------------------------- MODULE HydroSessionTrace --------------------------
(* C16 - binds recorded hydroelastic sessions to the session model.  Every logged event is one action
   of HydroSession (instantiated with the library's design constants); after the action the trace spec
   compares the model's frame bookkeeping with what the harness observed on the real objects
   (which pose body2origin_ holds, whether the array is shared) and judges the measured relations, in
   ticks of 5% / 8 of the force magnitude (torques: of force magnitude x body size):
     ActionReaction  |f12 + f21|          SwapBodies  contact_forces(b2, b1) exchanges the wrenches
     RigidMotion     fresh bodies moved by one rigid motion: forces rotate with it
     Repeatable      the same call again, and the same call on fresh bodies at the same world poses
                     (= the result does not depend on the history of the session)
     FlagStable      the intersection flag of all these runs is the same
     WorldGeometryUnchanged / CacheCoherent / FrameBookkeeping   observed on the body objects
     BroadPhaseSamePairs   the call's set of intersecting pairs equals the brute-force set on fresh bodies
   A model step that sets `stale` would mean the harness drove the session outside the model (machinery). *)
EXTENDS HydroSession, IOUtils
T == ndJsonDeserialize(IOEnv.TRACE_FILE)
VARIABLE l
Slack == 8 + 1
Ev == T[l]
Is(e) == l <= Len(T) /\ Ev.ev = e /\ l' = l + 1
Lab(x) == <<x[1], x[2]>>
Reject(id, cl) == cl # {} => PrintT(<<"REJECT", id, cl>>)

ObsFailing(e, o, a, st) ==          \* observations made after every event, o = ofr', a = arr', st = stale'
  {c \in {"NoException", "ModelStep", "FrameBookkeeping", "WorldGeometryUnchanged", "CacheCoherent"} :
     ~ CASE c = "NoException"            -> e.exc = "none"
         [] c = "ModelStep"              -> ~st
         \* e.ofr[b]: every label whose pose value equals the matrix observed in body2origin_ (a moved-back body has two)
         [] c = "FrameBookkeeping"       -> e.exc = "none" => \A b \in Bodies : (\E k \in DOMAIN e.ofr[b] : Lab(e.ofr[b][k]) = o[b]) /\ e.arr[b] = a[b]
         [] c = "WorldGeometryUnchanged" -> e.exc = "none" => \A b \in Bodies : e.world[b] <= Slack
         [] c = "CacheCoherent"          -> e.exc = "none" => e.staleCaches = <<>>}
CallFailing(e) ==
  {c \in {"ActionReaction", "SwapBodies", "RigidMotion", "Repeatable", "FlagStable", "BroadPhaseSamePairs"} :
     ~ CASE c = "ActionReaction"      -> e.exc = "none" => e.ar <= Slack
         [] c = "SwapBodies"          -> e.exc = "none" => (e.swap <= Slack /\ e.swapT <= Slack)
         [] c = "RigidMotion"         -> e.exc = "none" => e.rigid <= Slack
         [] c = "Repeatable"          -> e.exc = "none" => (e.repeat <= Slack /\ e.fresh <= Slack /\ e.repeatT <= Slack /\ e.freshT <= Slack)
         [] c = "FlagStable"          -> e.exc = "none" => e.flagsSame
         [] c = "BroadPhaseSamePairs" -> e.exc = "none" => e.pairsSame}

TNew  == /\ Is("new")
         /\ ver' = [b \in Bodies |-> 0] /\ vfr' = [b \in Bodies |-> <<b, 0>>] /\ ofr' = [b \in Bodies |-> <<b, 0>>]
         /\ arr' = [b \in Bodies |-> b] /\ cache' = [b \in Bodies |-> [c \in Caches |-> None]]
         /\ stale' = FALSE /\ hist' = <<>>
         /\ pval' = [b \in Bodies |-> <<b, 0>>] /\ vgen' = [b \in Bodies |-> 0] /\ boxc' = [b \in Bodies |-> NoBox]
TCall == /\ Is("cf") /\ ContactForces(Ev.b1, Ev.b2, Ev.bp, Ev.det)
         /\ Reject(Ev.id, ObsFailing(Ev, ofr', arr', stale') \cup CallFailing(Ev))
TMove == /\ Is("move") /\ Move(Ev.b1, Ev.how, Ev.back) /\ Reject(Ev.id, ObsFailing(Ev, ofr', arr', stale'))
TTree == /\ Is("tree") /\ Tree(Ev.b1) /\ Reject(Ev.id, ObsFailing(Ev, ofr', arr', stale'))
TAabb == /\ Is("aabb") /\ Aabb(Ev.b1) /\ Reject(Ev.id, ObsFailing(Ev, ofr', arr', stale'))
TInsp == /\ Is("inspect") /\ Inspect(Ev.b1) /\ Reject(Ev.id, ObsFailing(Ev, ofr', arr', stale'))
TEnd  == Is("end") /\ PrintT(<<"JUDGED", Ev.count, 0>>) /\ UNCHANGED vars
TInit == Init /\ l = 1
TNext == TNew \/ TCall \/ TMove \/ TTree \/ TAabb \/ TInsp \/ TEnd
TSpec == TInit /\ [][TNext]_<<vars, l>>
Consumed == TLCGet("stats").diameter - 1 = Len(T)
=============================================================================
