INIT Init
NEXT Next
