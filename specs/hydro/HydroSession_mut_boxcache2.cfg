SPECIFICATION Spec
CONSTANTS
  Bodies = {"A", "B"}
  Invalidate = {"tetrahedra_points", "com", "aabbs", "aabb_tree"}
  Cached = {"tetrahedra_points", "com", "aabbs", "aabb_tree"}
  FrameCopy = TRUE
  DetailsFirst = FALSE
  TreeRule = "none"
  BoxCache = "until_update"
  MaxCalls = 4
  MaxMoves = 1
  Witness = TRUE
INVARIANT EmitWitness
