------------------------------ MODULE TetFactory ------------------------------
(* C17 - EXPLORER for the tetrahedral mesh factories (hydroelastic_contact/_tetra_mesh_creation.py).

   The factories are index arithmetic: vertices are appended to a list in a fixed order, tetrahedra are
   rows of indices into that list, produced by loops over the vertices of a circle / the rings of a cap /
   the six faces of a box / the triangles of an icosphere, through the helpers
   _split_triangular_prism_to_tetrahedra, _split_pyramid_to_tetrahedra and _split_to_tetrahedra.
   This module transcribes those loops, one action per loop iteration, 0-based indices as in the code.

   Geometry is exact: the circle of a cylinder / capsule is any convex lattice polygon inscribed in the circle
   x^2 + y^2 = 25 that contains the axis strictly (every subset of its 12 lattice points in cyclic order with all
   gaps below 180 degrees), the meridian of a capsule cap is a subset of the lattice points of u^2 + w^2 = 625 in
   the first quadrant, boxes have half sizes in 1..3 (every pattern of equal / larger sides), the icosahedron uses
   the golden ratio 13/8.  Signs of determinants (orientation, side of a plane) are invariant under the affine
   rescaling of the axes that makes these coordinates integers, and they depend only on the cyclic order and
   convexity of the polygon, which the real (regular) polygon shares.

   Invariants (for every configuration within the bounds):
     IndicesInRange, FourDistinct, NoDuplicateTet, VerticesReferenced
     FaceAtMostTwo        every triangle belongs to at most two tetrahedra
     BoundaryClosed       the triangles owned by one tetrahedron form a closed surface
     NonZeroVolume        no flat tetrahedron
     ApexesSeparated      the two owners of a shared triangle lie on opposite sides of it
     BoundaryOnHull       every boundary triangle supports the whole vertex set
     PotentialLayout      potential 0 exactly on the vertices of boundary triangles
   A face-connected complex with these properties tiles the convex hull of its vertices: the owners of a shared face
   do not overlap locally, the boundary of the union is the boundary of the hull, so the covering has degree one.
   Icospheres of order >= 1 are judged topologically (closed, consistently oriented surface of Euler characteristic 2
   with 10 * 4^order + 2 vertices, every cached midpoint used exactly twice).

   Variant "lib" is the library.  The other variants are realistic slips and must violate an invariant:
     "no_wrap"    capsule: j1 = j + 1 without the modulo
     "alt_diag"   pyramid split with the other diagonal in its second tetrahedron (non-conforming neighbours)
     "box_nodup"  _split_to_tetrahedra without the "four distinct vertices" filter
     "ring_shift" long cylinder: the prism takes top[j], top[i] in the order of the cap tetrahedron *)
EXTENDS Integers, Sequences, FiniteSets, TLC, Vec

CONSTANTS Kinds, MaxN, MaxC, MaxOrder, Variant

Circ == << <<5,0>>, <<4,3>>, <<3,4>>, <<0,5>>, <<-3,4>>, <<-4,3>>, <<-5,0>>, <<-4,-3>>, <<-3,-4>>, <<0,-5>>, <<3,-4>>, <<4,-3>> >>
Prof == << <<25,0>>, <<24,7>>, <<20,15>>, <<15,20>>, <<7,24>> >>

RECURSIVE Sorted(_)
Sorted(S) == IF S = {} THEN <<>> ELSE LET m == CHOOSE x \in S : \A y \in S : x <= y IN <<m>> \o Sorted(S \ {m})

PolyOK(S) == LET p == Sorted(S)  n == Len(p) IN
             /\ n >= 3
             /\ \A k \in 1..n : LET a == Circ[p[k]]  b == Circ[p[(k % n) + 1]] IN a[1]*b[2] - a[2]*b[1] > 0

-----------------------------------------------------------------------------
(* helpers of the library *)
Prism(v0, v1, v2, v3, v4, v5) == << <<v3, v4, v0, v5>>, <<v4, v1, v0, v5>>, <<v1, v2, v0, v5>> >>
Pyramid(v0, v1, v2, v3, v4) ==
  IF Variant = "alt_diag" THEN << <<v3, v4, v0, v2>>, <<v4, v1, v3, v2>> >>
  ELSE << <<v3, v4, v0, v2>>, <<v4, v1, v0, v2>> >>
Hexa(v0, v1, v2, v3, v4, v5, v6, v7) ==
  LET nx   == <<v2, v3, v7, v4, v5, v1>>
      prev == [k \in 1..6 |-> IF k = 1 THEN v1 ELSE nx[k-1]]
      keep(k) == Variant = "box_nodup" \/ Cardinality({prev[k], nx[k], v0, v6}) = 4
      RECURSIVE Go(_)
      Go(k) == IF k > 6 THEN <<>> ELSE (IF keep(k) THEN << <<prev[k], nx[k], v0, v6>> >> ELSE <<>>) \o Go(k + 1)
  IN Go(1)

-----------------------------------------------------------------------------
(* cylinders: 0 bottom centre, 1 top centre, bottom[i] = 2 + 2i, top[i] = 3 + 2i, then the medial vertices *)
Bt(i) == 2 + 2*i
Tp(i) == 3 + 2*i
CylIter(kind, N, j) ==          \* loop body for j in 0..N-1 with i = j - 1 (cyclically)
  LET i == (j + N - 1) % N  base == 2 + 2*N IN
  CASE kind = "cyl_long" ->
         << <<0, Bt(i), Bt(j), base>>, <<1, Tp(j), Tp(i), base + 1>> >>
         \o (IF Variant = "ring_shift" THEN Prism(base, Bt(i), Bt(j), base + 1, Tp(j), Tp(i))
             ELSE Prism(base, Bt(i), Bt(j), base + 1, Tp(i), Tp(j)))
    [] kind = "cyl_medium" ->
         << <<0, Bt(i), Bt(j), base>>, <<1, Tp(j), Tp(i), base>> >> \o Pyramid(Tp(i), Tp(j), Bt(j), Bt(i), base)
    [] kind = "cyl_short" ->
         LET md(k) == base + 1 + k IN
         Prism(0, Bt(i), Bt(j), base, md(i), md(j)) \o Prism(base, md(i), md(j), 1, Tp(i), Tp(j))
         \o Prism(Bt(i), md(i), Tp(i), Bt(j), md(j), Tp(j))

(* geometry: poly is a sequence of 2-D lattice points; xy in units of 1/5 so that the medial circle of the short class
   (radius 3/5 of the rim) is a lattice polygon too *)
CylVerts(kind, poly) ==
  LET N == Len(poly)
      H == CASE kind = "cyl_long" -> 8 [] kind = "cyl_medium" -> 5 [] kind = "cyl_short" -> 2
      outer == [k \in 1..(2 + 2*N) |->
                  IF k = 1 THEN <<0, 0, -H>> ELSE IF k = 2 THEN <<0, 0, H>>
                  ELSE LET i == (k - 3) \div 2  p == poly[i + 1] IN <<5*p[1], 5*p[2], IF (k - 3) % 2 = 0 THEN -H ELSE H>>]
  IN CASE kind = "cyl_long"   -> outer \o << <<0, 0, -3>>, <<0, 0, 3>> >>
       [] kind = "cyl_medium" -> outer \o << <<0, 0, 0>> >>
       [] kind = "cyl_short"  -> outer \o << <<0, 0, 0>> >> \o [k \in 1..N |-> <<3*poly[k][1], 3*poly[k][2], 0>>]
CylPots(kind, N) ==
  [k \in 1..(2 + 2*N) |-> 0] \o (CASE kind = "cyl_long" -> <<1, 1>> [] kind = "cyl_medium" -> <<1>>
                                   [] kind = "cyl_short" -> [k \in 1..(N + 1) |-> 1])

-----------------------------------------------------------------------------
(* capsule: 0 medial top, 1 medial bottom, 2 top pole, 3 bottom pole, top_cap[i*N+j] = 4 + 2(i*N+j), bottom_cap = 5 + ... *)
TC(N, i, j) == 4 + 2*(i*N + j)
BC(N, i, j) == 5 + 2*(i*N + j)
CapIter(N, C, it) ==       \* it in 0 .. (C-1)*N - 1: pyramid loops; it in (C-1)*N .. C*N - 1: closing loop
  IF it < (C - 1) * N THEN
    LET i == it \div N  j == it % N  j1 == IF Variant = "no_wrap" THEN j + 1 ELSE (j + 1) % N IN
    Pyramid(TC(N, i+1, j), TC(N, i+1, j1), TC(N, i, j1), TC(N, i, j), 0)
    \o Pyramid(BC(N, i, j), BC(N, i, j1), BC(N, i+1, j1), BC(N, i+1, j), 1)
  ELSE
    LET j == it - (C - 1) * N  j1 == IF Variant = "no_wrap" THEN j + 1 ELSE (j + 1) % N  last == C - 1 IN
    << <<2, TC(N, last, j1), TC(N, last, j), 0>>, <<3, BC(N, last, j), BC(N, last, j1), 1>> >>
    \o Prism(1, BC(N, 0, j), BC(N, 0, j1), 0, TC(N, 0, j), TC(N, 0, j1))
(* rings: sequence of profile points <<rho, zeta>>, the first one is <<25, 0>>; medial top at z = 10 *)
CapVerts(poly, rings) ==
  LET N == Len(poly)  C == Len(rings) IN
  << <<0, 0, 10>>, <<0, 0, -10>>, <<0, 0, 35>>, <<0, 0, -35>> >>
  \o [k \in 1..(2*N*C) |-> LET q == (k - 1) \div 2  i == q \div N  j == q % N  p == poly[j + 1]  r == rings[i + 1] IN
                            <<r[1]*p[1], r[1]*p[2], IF (k - 1) % 2 = 0 THEN r[2] + 10 ELSE -(r[2] + 10)>>]
CapPots(N, C) == <<1, 1, 0, 0>> \o [k \in 1..(2*N*C) |-> 0]

-----------------------------------------------------------------------------
(* box: corner v[i,j,k] = 4i + 2j + k; medial vertices m[i,j,k] appended from index 8 on, shared along every axis whose
   half size is the minimum (Z = set of those axes, 0-based) *)
Canon(Z, t) == <<IF 0 \in Z THEN 0 ELSE t[1], IF 1 \in Z THEN 0 ELSE t[2], IF 2 \in Z THEN 0 ELSE t[3]>>
Triples == {<<i, j, k>> : i \in 0..1, j \in 0..1, k \in 0..1}
NonDup(Z) == {t \in Triples : Canon(Z, t) = t}
Lex(t) == 4*t[1] + 2*t[2] + t[3]
MIdx(Z, i, j, k) == LET c == Canon(Z, <<i, j, k>>) IN 8 + Cardinality({u \in NonDup(Z) : Lex(u) < Lex(c)})
VIdx(i, j, k) == 4*i + 2*j + k
BoxIter(Z, it) ==
  LET m(i, j, k) == MIdx(Z, i, j, k)  v(i, j, k) == VIdx(i, j, k) IN
  CASE it = 0 -> Hexa(m(1,0,0), m(1,1,0), m(1,1,1), m(1,0,1), v(1,0,0), v(1,1,0), v(1,1,1), v(1,0,1))
    [] it = 1 -> Hexa(m(0,0,0), m(0,0,1), m(0,1,1), m(0,1,0), v(0,0,0), v(0,0,1), v(0,1,1), v(0,1,0))
    [] it = 2 -> Hexa(m(0,1,0), m(0,1,1), m(1,1,1), m(1,1,0), v(0,1,0), v(0,1,1), v(1,1,1), v(1,1,0))
    [] it = 3 -> Hexa(m(0,0,0), m(1,0,0), m(1,0,1), m(0,0,1), v(0,0,0), v(1,0,0), v(1,0,1), v(0,0,1))
    [] it = 4 -> Hexa(m(0,0,1), m(1,0,1), m(1,1,1), m(0,1,1), v(0,0,1), v(1,0,1), v(1,1,1), v(0,1,1))
    [] it = 5 -> Hexa(m(0,0,0), m(0,1,0), m(1,1,0), m(1,0,0), v(0,0,0), v(0,1,0), v(1,1,0), v(1,0,0))
ZeroAxes(half) == {a \in 0..2 : half[a] = MinI(half[0], MinI(half[1], half[2]))}
BoxVerts(half) ==
  LET mn == MinI(half[0], MinI(half[1], half[2]))
      Z  == ZeroAxes(half)
      sg(b, x) == IF b = 0 THEN -x ELSE x
      corners == [n \in 1..8 |-> LET i == (n-1) \div 4  j == ((n-1) \div 2) % 2  k == (n-1) % 2 IN
                                 <<sg(i, half[0]), sg(j, half[1]), sg(k, half[2])>>]
      nd == NonDup(Z)
      RECURSIVE Med(_)
      Med(n) == IF n > 7 THEN <<>> ELSE
                LET t == <<n \div 4, (n \div 2) % 2, n % 2>> IN
                (IF t \in nd THEN << <<sg(t[1], half[0] - mn), sg(t[2], half[1] - mn), sg(t[3], half[2] - mn)>> >> ELSE <<>>) \o Med(n + 1)
  IN corners \o Med(0)
BoxPots(Z) == [k \in 1..8 |-> 0] \o [k \in 1..Cardinality(NonDup(Z)) |-> 1]

CubeVerts == << <<-1,-1,-1>>, <<-1,-1,1>>, <<-1,1,-1>>, <<-1,1,1>>, <<1,-1,-1>>, <<1,-1,1>>, <<1,1,-1>>, <<1,1,1>>, <<0,0,0>> >>
CubeElems == << <<0,2,6,8>>, <<0,4,5,8>>, <<0,1,2,8>>, <<1,3,2,8>>, <<1,5,7,8>>, <<1,7,3,8>>,
                <<5,1,0,8>>, <<5,6,7,8>>, <<6,2,3,8>>, <<6,3,7,8>>, <<6,4,0,8>>, <<6,5,4,8>> >>

-----------------------------------------------------------------------------
(* icosphere: 12 vertices, 20 triangles, `order` rounds of 1 -> 4 subdivision with a midpoint cache keyed by Cantor pairing *)
IcoTris0 == << <<0,11,5>>, <<0,5,1>>, <<0,1,7>>, <<0,7,10>>, <<0,10,11>>, <<11,10,2>>, <<5,11,4>>, <<1,5,9>>, <<7,1,8>>,
               <<10,7,6>>, <<3,9,4>>, <<3,4,2>>, <<3,2,6>>, <<3,6,8>>, <<3,8,9>>, <<9,8,1>>, <<4,9,5>>, <<2,4,11>>,
               <<6,2,10>>, <<8,6,7>> >>
IcoVerts0 == << <<-8,13,0>>, <<8,13,0>>, <<-8,-13,0>>, <<8,-13,0>>, <<0,-8,13>>, <<0,8,13>>, <<0,-8,-13>>, <<0,8,-13>>,
                <<13,0,-8>>, <<13,0,8>>, <<-13,0,-8>>, <<-13,0,8>> >>
Key(a, b) == ((a + b) * (a + b + 1)) \div 2 + MinI(a, b)
Mid(a, b, cache, v) ==
  LET key == Key(a, b)  hit == {p \in cache : p[1] = key} IN
  IF hit # {} THEN LET p == CHOOSE q \in hit : TRUE IN [i |-> p[2], cache |-> cache \ {p}, v |-> v]
  ELSE [i |-> v, cache |-> cache \cup {<<key, v>>}, v |-> v + 1]
RECURSIVE SubRound(_, _, _, _, _)
SubRound(tris, k, cache, v, out) ==
  IF k > Len(tris) THEN [tris |-> out, cache |-> cache, v |-> v]
  ELSE LET t == tris[k]
           ra == Mid(t[1], t[2], cache, v)
           rb == Mid(t[2], t[3], ra.cache, ra.v)
           rc == Mid(t[3], t[1], rb.cache, rb.v)
       IN SubRound(tris, k + 1, rc.cache, rc.v,
                   out \o << <<t[1], ra.i, rc.i>>, <<t[2], rb.i, ra.i>>, <<t[3], rc.i, rb.i>>, <<ra.i, rb.i, rc.i>> >>)

-----------------------------------------------------------------------------
(* pure views used by the trace specification: the element list of a configuration without geometry *)
NumIters(c) == CASE c.kind \in {"cyl_long", "cyl_medium", "cyl_short"} -> c.n
                 [] c.kind = "capsule" -> c.n * c.c
                 [] c.kind = "box" -> 6
                 [] OTHER -> 0
IterElems(c, it) == CASE c.kind \in {"cyl_long", "cyl_medium", "cyl_short"} -> CylIter(c.kind, c.n, it)
                      [] c.kind = "capsule" -> CapIter(c.n, c.c, it)
                      [] c.kind = "box" -> BoxIter(c.z, it)
RECURSIVE ElemsRange(_, _, _)      \* iterations lo .. hi-1, split in halves so that the recursion depth stays logarithmic
ElemsRange(c, lo, hi) == IF lo >= hi THEN <<>> ELSE IF hi = lo + 1 THEN IterElems(c, lo)
                         ELSE LET mid == (lo + hi) \div 2 IN ElemsRange(c, lo, mid) \o ElemsRange(c, mid, hi)
ElemsFrom(c, it) == ElemsRange(c, it, NumIters(c))
RECURSIVE IcoRounds(_, _, _)
IcoRounds(tris, v, order) == IF order = 0 THEN [tris |-> tris, v |-> v, cacheEmpty |-> TRUE]
                             ELSE LET r == SubRound(tris, 1, {}, v, <<>>)  rest == IcoRounds(r.tris, r.v, order - 1) IN
                                  [tris |-> rest.tris, v |-> rest.v, cacheEmpty |-> rest.cacheEmpty /\ r.cache = {}]
IcoElems(order) == LET r == IcoRounds(IcoTris0, 12, order) IN [k \in 1..Len(r.tris) |-> r.tris[k] \o <<r.v>>]
ModelElems(c) == CASE c.kind = "cube" -> CubeElems
                   [] c.kind = "ico"  -> IcoElems(c.order)
                   [] OTHER -> ElemsFrom(c, 0)
ModelPots(c) == CASE c.kind \in {"cyl_long", "cyl_medium", "cyl_short"} -> CylPots(c.kind, c.n)
                  [] c.kind = "capsule" -> CapPots(c.n, c.c)
                  [] c.kind = "box" -> BoxPots(c.z)
                  [] c.kind = "cube" -> <<0, 0, 0, 0, 0, 0, 0, 0, 1>>
                  [] c.kind = "ico" -> LET nv == IcoRounds(IcoTris0, 12, c.order).v IN [k \in 1..(nv + 1) |-> IF k = nv + 1 THEN 1 ELSE 0]

-----------------------------------------------------------------------------
(* the state machine: pick a configuration, build the vertices, run the loop, stop *)
VARIABLES phase, cfg, V, pot, E, it, geo, icoOK
vars == <<phase, cfg, V, pot, E, it, geo, icoOK>>

NoCfg == [kind |-> "none", n |-> 0, c |-> 0, z |-> {}, order |-> 0]
Init == phase = "pick" /\ cfg = NoCfg /\ V = <<>> /\ pot = <<>> /\ E = <<>> /\ it = 0 /\ geo = FALSE /\ icoOK = TRUE

PickCyl == \E kind \in Kinds \cap {"cyl_long", "cyl_medium", "cyl_short"}, S \in SUBSET (1..12) :
             /\ Cardinality(S) <= MaxN /\ PolyOK(S)
             /\ LET poly == [k \in 1..Cardinality(S) |-> Circ[Sorted(S)[k]]] IN
                /\ cfg' = [NoCfg EXCEPT !.kind = kind, !.n = Len(poly)]
                /\ V' = CylVerts(kind, poly) /\ pot' = CylPots(kind, Len(poly)) /\ geo' = TRUE
PickCap == /\ "capsule" \in Kinds
           /\ \E S \in SUBSET (1..12), R \in SUBSET (2..5) :
                /\ Cardinality(S) <= MaxN /\ PolyOK(S) /\ Cardinality(R) + 1 <= MaxC
                /\ LET poly  == [k \in 1..Cardinality(S) |-> Circ[Sorted(S)[k]]]
                       rings == [k \in 1..(Cardinality(R) + 1) |-> IF k = 1 THEN Prof[1] ELSE Prof[Sorted(R)[k - 1]]] IN
                   /\ cfg' = [NoCfg EXCEPT !.kind = "capsule", !.n = Len(poly), !.c = Len(rings)]
                   /\ V' = CapVerts(poly, rings) /\ pot' = CapPots(Len(poly), Len(rings)) /\ geo' = TRUE
PickBox == /\ "box" \in Kinds
           /\ \E half \in [0..2 -> 1..3] :
                /\ MinI(half[0], MinI(half[1], half[2])) = 1
                /\ cfg' = [NoCfg EXCEPT !.kind = "box", !.z = ZeroAxes(half)]
                /\ V' = BoxVerts(half) /\ pot' = BoxPots(ZeroAxes(half)) /\ geo' = TRUE
PickCube == /\ "cube" \in Kinds
            /\ cfg' = [NoCfg EXCEPT !.kind = "cube"] /\ V' = CubeVerts /\ pot' = ModelPots([kind |-> "cube"]) /\ geo' = TRUE
PickIco == /\ "ico" \in Kinds
           /\ \E order \in 0..MaxOrder :
                /\ cfg' = [NoCfg EXCEPT !.kind = "ico", !.order = order]
                /\ pot' = ModelPots([kind |-> "ico", order |-> order])
                /\ V' = IF order = 0 THEN IcoVerts0 \o << <<0, 0, 0>> >> ELSE <<>>
                /\ geo' = (order = 0)
Pick == /\ phase = "pick"
        /\ (PickCyl \/ PickCap \/ PickBox \/ PickCube \/ PickIco)
        /\ phase' = "loop" /\ UNCHANGED <<E, it, icoOK>>
Iter == /\ phase = "loop" /\ cfg.kind \notin {"cube", "ico"} /\ it < NumIters(cfg)
        /\ E' = E \o IterElems(cfg, it) /\ it' = it + 1
        /\ UNCHANGED <<phase, cfg, V, pot, geo, icoOK>>
Whole == /\ phase = "loop" /\ cfg.kind \in {"cube", "ico"}
         /\ E' = ModelElems(cfg)
         /\ icoOK' = (cfg.kind = "ico" => IcoRounds(IcoTris0, 12, cfg.order).cacheEmpty)
         /\ phase' = "done" /\ UNCHANGED <<cfg, V, pot, it, geo>>
Finish == /\ phase = "loop" /\ cfg.kind \notin {"cube", "ico"} /\ it = NumIters(cfg)
          /\ phase' = "done" /\ UNCHANGED <<cfg, V, pot, E, it, geo, icoOK>>
Next == Pick \/ Iter \/ Whole \/ Finish
Spec == Init /\ [][Next]_vars

-----------------------------------------------------------------------------
(* invariants, evaluated on finished meshes *)
Done == phase = "done"
NV == Len(pot)
TS(t) == {t[1], t[2], t[3], t[4]}
P(k) == V[k + 1]
Vol6(t) == Triple(Sub(P(t[2]), P(t[1])), Sub(P(t[3]), P(t[1])), Sub(P(t[4]), P(t[1])))
FacesOfTet(t) == {TS(t) \ {x} : x \in TS(t)}
AllFaces == UNION {FacesOfTet(E[k]) : k \in DOMAIN E}
Owners(f) == {k \in DOMAIN E : f \subseteq TS(E[k])}
BFaces == {f \in AllFaces : Cardinality(Owners(f)) = 1}
Side(f, x) == LET s == Sorted(f) IN Triple(Sub(P(s[2]), P(s[1])), Sub(P(s[3]), P(s[1])), Sub(P(x), P(s[1])))

IndicesInRange == Done => \A k \in DOMAIN E : \A m \in 1..4 : E[k][m] \in 0..(NV - 1)
FourDistinct   == Done => \A k \in DOMAIN E : Cardinality(TS(E[k])) = 4
NoDuplicateTet == Done => \A k, l \in DOMAIN E : k # l => TS(E[k]) # TS(E[l])
VerticesReferenced == Done => UNION {TS(E[k]) : k \in DOMAIN E} = 0..(NV - 1)
FaceAtMostTwo  == Done => \A f \in AllFaces : Cardinality(Owners(f)) <= 2
BoundaryClosed == Done => LET B == BFaces IN
                          \A f \in B : \A e \in {g \in SUBSET f : Cardinality(g) = 2} :
                             Cardinality({h \in B : e \subseteq h}) = 2
NonZeroVolume  == (Done /\ geo) => \A k \in DOMAIN E : Vol6(E[k]) # 0
ApexesSeparated == (Done /\ geo) =>
                   \A f \in AllFaces : LET o == Owners(f) IN
                      Cardinality(o) = 2 =>
                        LET k == CHOOSE x \in o : TRUE  l == CHOOSE x \in o : x # k
                            a == CHOOSE x \in TS(E[k]) : x \notin f  b == CHOOSE x \in TS(E[l]) : x \notin f IN
                        Sgn(Side(f, a)) * Sgn(Side(f, b)) = -1
BoundaryOnHull == (Done /\ geo) =>
                  \A f \in BFaces : (\A x \in 0..(NV - 1) : Side(f, x) >= 0) \/ (\A x \in 0..(NV - 1) : Side(f, x) <= 0)
PotentialLayout == Done => LET bv == UNION BFaces IN \A x \in 0..(NV - 1) : (pot[x + 1] = 0) <=> (x \in bv)
(* icosphere surface: closed, consistently oriented, sphere-like, cache drained *)
IcoSurface == (Done /\ cfg.kind = "ico") =>
              LET tris == [k \in DOMAIN E |-> <<E[k][1], E[k][2], E[k][3]>>]
                  dir  == UNION {{<<tris[k][1], tris[k][2]>>, <<tris[k][2], tris[k][3]>>, <<tris[k][3], tris[k][1]>>} : k \in DOMAIN tris}
                  nv   == NV - 1
                  pow4 == [o \in 0..4 |-> CASE o = 0 -> 1 [] o = 1 -> 4 [] o = 2 -> 16 [] o = 3 -> 64 [] o = 4 -> 256]
              IN /\ icoOK
                 /\ Cardinality(dir) = 3 * Len(tris)                  \* no directed edge twice: consistent orientation
                 /\ \A e \in dir : <<e[2], e[1]>> \in dir              \* closed
                 /\ nv = 10 * pow4[cfg.order] + 2
                 /\ nv - (Cardinality(dir) \div 2) + Len(tris) = 2     \* Euler characteristic
                 /\ Len(tris) = 20 * pow4[cfg.order]
=============================================================================
