INIT TInit
NEXT TNext
CONSTANTS
  Kinds = {}
  MaxN = 0
  MaxC = 0
  MaxOrder = 0
  Variant = "lib"
