--------------------------- MODULE TetFactoryTrace ---------------------------
(* C17 - binds the explorer TetFactory to the real factories: every record carries the index arrays a factory returned
   (0-based, in the order of the returned rows) together with the configuration the harness derived from the call
   (kind / class, vertices per circle, circles per cap, axes with the minimal box size, order) and TLC compares them with
   the element list and the potential layout of the model for that configuration.  A mismatch is model drift (the
   property clauses themselves are judged on the same meshes by TetMeshTrace); a match transfers the invariants that TLC
   established for the model's construction to the real index arrays. *)
EXTENDS TetFactory, Json, IOUtils
T == ndJsonDeserialize(IOEnv.TRACE_FILE)
SetOfSeq(s) == {s[k] : k \in DOMAIN s}
CfgOf(r) == [kind |-> r.kind, n |-> r.n, c |-> r.c, z |-> SetOfSeq(r.z), order |-> r.order]
Failing(r) ==
  LET c == CfgOf(r)  me == ModelElems(c)  mp == ModelPots(c)
      nz == {k - 1 : k \in {x \in DOMAIN mp : mp[x] = 1}} IN
  {x \in {"DRIFT_ElementsMatchModel", "DRIFT_PotentialsMatchModel", "DRIFT_VertexCountMatchesModel"} :
     ~ CASE x = "DRIFT_ElementsMatchModel"      -> Len(me) = Len(r.E) /\ \A k \in DOMAIN me : me[k] = r.E[k]
         [] x = "DRIFT_PotentialsMatchModel"    -> nz = SetOfSeq(r.pot1)
         [] x = "DRIFT_VertexCountMatchesModel" -> Len(mp) = r.nv}
BadIdx == {i \in 1..Len(T) : Failing(T[i]) # {}}
ASSUME /\ \A i \in BadIdx : PrintT(<<"REJECT", T[i].id, Failing(T[i])>>)
       /\ PrintT(<<"JUDGED", Len(T), Cardinality(BadIdx)>>)
TInit == Init
TNext == UNCHANGED vars
=============================================================================
