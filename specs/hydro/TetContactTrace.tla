--------------------------- MODULE TetContactTrace ---------------------------
EXTENDS TetContact, TLC, Json, IOUtils
T == ndJsonDeserialize(IOEnv.TRACE_FILE)
BadIdx == {i \in 1..Len(T) : Failing(T[i]) # {}}
ASSUME /\ \A i \in BadIdx : PrintT(<<"REJECT", T[i].id, Failing(T[i])>>)
       /\ PrintT(<<"JUDGED", Len(T), Cardinality(BadIdx)>>)
VARIABLE dummy
Init == dummy = 0
Next == UNCHANGED dummy
=============================================================================
