SPECIFICATION Spec
CONSTANT Variant = "compact"
INVARIANT Correct
