----------------------------- MODULE HydroSession -----------------------------
(* C16 (and the session side of C04, C15) - EXPLORER of the hydroelastic query session
   (hydroelastic_contact/_interface.py, _rigid_body.py).

   A RigidBody stores vertices_ expressed in SOME frame, the pose of that frame (body2origin_, a numpy
   array that may be shared with other objects) and lazily filled caches derived from the vertices:
   tetrahedra_points, com, aabbs, aabb_tree.  contact_forces(b1, b2) / find_contact_surface first
   re-express b1 in b2's frame (express_in rewrites the vertices, stores a COPY of the frame and drops
   every cache), then read caches of both bodies.  Users move a body by mutating its pose array in
   place or by update_pose(new array); they may read aabb() and aabb_tree at any time.

   Abstraction: a frame is a label <<body, version>> ("the pose of that body after so many moves").
     vfr[b]  label of the frame the numbers in vertices_ are expressed in
     ofr[b]  label of the pose stored in body2origin_
     arr[b]  identity of the array object holding body2origin_ (a body name = the array the user
             handed to that body's factory, "private" = a copy nobody else holds)
     cache[b][c]  label of the frame the cached data was computed in, or none
   The world geometry of b is right iff vfr[b] = ofr[b]; a query is right iff every cache it reads was
   computed in the current vfr.

   The constants describe the design decisions of the library and their plausible regressions:
     Invalidate   caches reset by express_in            (library: all four)
     Cached       data that is cached at all             (library: the four; "bary" = per-tetrahedron
                  barycentric transforms of the reference body is recomputed on every query)
     FrameCopy    express_in stores a copy of the frame  (library: TRUE; FALSE = keeps the caller's
                  array and skips the work when it already holds that very array)
     BoxCache     "none": aabb() computes the world box on every call (library); "by_pose_value": the box is kept and
                  returned again while body2origin_ compares equal to the pose it was computed for - wrong, because
                  express_in rewrites the vertices (aabb, query as body 1, moved back to the old pose value, aabb);
                  "until_update": the box is kept until express_in or update_pose resets it - wrong, because the pose is
                  also changed by assigning body2origin_ or writing into it, as the library's own examples and tests do
                  (aabb, move, aabb)
     TreeRule     when aabb_tree is rebuilt: "none" = only if unset (library); "aabbs" = also if aabbs unset
     DetailsFirst contact_forces(return_details=True): make_details rewrites the contact points and forces of the
                  ContactSurface IN PLACE into the world frame; the library accumulates the wrenches first (FALSE).
                  TRUE = details first: the wrenches are then accumulated from world-frame data with the bodies'
                  centres of mass still in the frame of body 2 and rotated once more
   HydroSession.cfg checks the library's design exhaustively for all sessions of MaxCalls steps; every
   HydroSession_mut_*.cfg changes one decision, and TLC prints each shortest history that exposes it
   (WITNESS lines) - those histories are replayed on the implementation by harness/props/c16.py. *)
EXTENDS Integers, Sequences, FiniteSets, TLC, Json
CONSTANTS Bodies, Invalidate, Cached, FrameCopy, TreeRule, DetailsFirst, BoxCache, MaxCalls, MaxMoves, Witness
VARIABLES ver, vfr, ofr, arr, cache, stale, hist,
          pval,    \* pval[b]: the VALUE of the matrix in body2origin_, named by the label of the frame that first had it
                   \* (two labels can carry the same value: a body moved back to an earlier pose)
          vgen,    \* vgen[b]: how often express_in has rewritten the vertices of b with other numbers
          boxc     \* boxc[b]: the world box kept by aabb() under the design BoxCache = "by_pose_value":
                   \* NoBox or <<pose value it was computed for, vgen at that time>>
vars == <<ver, vfr, ofr, arr, cache, stale, hist, pval, vgen, boxc>>
Caches == {"tetrahedra_points", "com", "aabbs", "aabb_tree", "bary"}
None == <<"none", 0>>
Wrong == <<"wrong", 0>>
NoBox == <<None, -1>>
Own(b) == <<b, ver[b]>>

Init == /\ ver = [b \in Bodies |-> 0]
        /\ vfr = [b \in Bodies |-> <<b, 0>>] /\ ofr = [b \in Bodies |-> <<b, 0>>]
        /\ arr = [b \in Bodies |-> b]
        /\ cache = [b \in Bodies |-> [c \in Caches |-> None]]
        /\ stale = FALSE /\ hist = <<>>
        /\ pval = [b \in Bodies |-> <<b, 0>>] /\ vgen = [b \in Bodies |-> 0] /\ boxc = [b \in Bodies |-> NoBox]

(* reading the lazily computed data `used` of a body whose vertices are in frame f; the tree is built from aabbs *)
Read(cb, used, f) ==
  LET rebuild == "aabb_tree" \in used /\ (cb["aabb_tree"] = None \/ (TreeRule = "aabbs" /\ cb["aabbs"] = None))
      need    == used \cup (IF rebuild THEN {"aabbs"} ELSE {})
  IN [c \in Caches |-> IF c \notin Cached THEN (IF c \in need THEN f ELSE None)        \* recomputed, never kept
                       ELSE IF c = "aabb_tree" THEN (IF rebuild THEN f ELSE cb[c])
                       ELSE IF c \in need /\ cb[c] = None THEN f ELSE cb[c]]
StaleRead(cb, used, f) == \E c \in used : cb[c] # f
Forget(cb) == [c \in Caches |-> IF c \in Cached THEN cb[c] ELSE None]

Step(e) == Len(hist) < MaxCalls /\ ~stale /\ hist' = Append(hist, e)

(* contact_forces / find_contact_surface(b1, b2, use_aabb_trees = (bp = "tree")) *)
ContactForces(b1, b2, bp, det) ==
  /\ b1 # b2
  /\ Step([op |-> "cf", b1 |-> b1, b2 |-> b2, bp |-> bp, det |-> det, how |-> "-", back |-> FALSE])
  /\ LET skip  == ~FrameCopy /\ arr[b1] = arr[b2] /\ arr[b1] # "private"
         f     == IF skip THEN vfr[b1] ELSE IF vfr[b1] = ofr[b1] THEN ofr[b2] ELSE Wrong
         used1 == {"tetrahedra_points", "com"} \cup (IF bp = "tree" THEN {"aabb_tree"} ELSE {"aabbs"})
         used2 == used1 \cup {"bary"}
         c1a   == IF skip THEN cache[b1] ELSE [c \in Caches |-> IF c \in Invalidate THEN None ELSE cache[b1][c]]
         c1    == Read(c1a, used1, f)
         c2    == Read(cache[b2], used2, vfr[b2])
     IN /\ vfr' = [vfr EXCEPT ![b1] = f]
        /\ ofr' = [ofr EXCEPT ![b1] = ofr[b2]]
        /\ arr' = [arr EXCEPT ![b1] = IF FrameCopy THEN "private" ELSE arr[b2]]
        /\ cache' = [cache EXCEPT ![b1] = Forget(c1), ![b2] = Forget(c2)]
        /\ stale' = (StaleRead(c1, used1, f) \/ StaleRead(c2, used2, vfr[b2]) \/ vfr[b2] # ofr[b2] \/ f = Wrong
                     \/ (DetailsFirst /\ det))
        /\ pval' = [pval EXCEPT ![b1] = pval[b2]]
        /\ vgen' = [vgen EXCEPT ![b1] = IF skip \/ pval[b1] = pval[b2] THEN vgen[b1] ELSE vgen[b1] + 1]
        /\ boxc' = IF BoxCache = "until_update" THEN [boxc EXCEPT ![b1] = NoBox] ELSE boxc     \* express_in resets the kept box
        /\ UNCHANGED ver

(* the user moves a body by giving it another pose: in place (mutating the pose array) or update_pose(new array).
   The vertices keep their numbers, so the new pose DEFINES the new world placement; this is possible whatever frame
   the body is currently expressed in (after a query body 1 is expressed in the frame of body 2).  back = TRUE: the
   new matrix has the value the body's pose had at the start of the session (the body is "moved back": a new frame
   label with an old pose value) *)
Move(b, how, back) ==
  /\ vfr[b] = ofr[b] /\ ver[b] < MaxMoves
  /\ Step([op |-> "move", b1 |-> b, b2 |-> b, bp |-> "-", det |-> FALSE, how |-> how, back |-> back])
  /\ LET new == <<b, ver[b] + 1>>
         shared == IF how = "inplace" /\ arr[b] # "private" THEN {c \in Bodies : arr[c] = arr[b]} ELSE {b}
     IN /\ ver' = [ver EXCEPT ![b] = ver[b] + 1]
        /\ ofr' = [c \in Bodies |-> IF c \in shared THEN new ELSE ofr[c]]
        /\ pval' = [c \in Bodies |-> IF c \in shared THEN (IF back THEN <<b, 0>> ELSE new) ELSE pval[c]]
        /\ vfr' = [vfr EXCEPT ![b] = new]                       \* body coordinates are unchanged, the frame moved
        /\ arr' = [arr EXCEPT ![b] = IF how = "inplace" THEN arr[b] ELSE b]
        /\ cache' = [cache EXCEPT ![b] = [c \in Caches |-> IF cache[b][c] = vfr[b] THEN new ELSE cache[b][c]]]
        /\ stale' = \E c \in shared \ {b} : vfr[c] # new          \* somebody else's frame label moved under its vertices
        /\ UNCHANGED <<boxc, vgen>>
(* the user reads b.aabb_tree (a public property): fills aabbs and the tree *)
Tree(b) ==
  /\ Step([op |-> "tree", b1 |-> b, b2 |-> b, bp |-> "-", det |-> FALSE, how |-> "-", back |-> FALSE])
  /\ LET c1 == Read(cache[b], {"aabb_tree"}, vfr[b])
     IN cache' = [cache EXCEPT ![b] = Forget(c1)] /\ stale' = StaleRead(c1, {"aabb_tree"}, vfr[b])
  /\ UNCHANGED <<ver, vfr, ofr, arr, pval, vgen, boxc>>
(* the user reads the public properties tetrahedra_points, com, aabbs and then aabb_tree of b *)
Inspect(b) ==
  /\ Step([op |-> "inspect", b1 |-> b, b2 |-> b, bp |-> "-", det |-> FALSE, how |-> "-", back |-> FALSE])
  /\ LET c1 == Read(cache[b], {"tetrahedra_points", "com", "aabbs"}, vfr[b])
         c2 == Read(c1, {"aabb_tree"}, vfr[b])
     IN cache' = [cache EXCEPT ![b] = Forget(c2)]
        /\ stale' = (StaleRead(c1, {"tetrahedra_points", "com", "aabbs"}, vfr[b]) \/ StaleRead(c2, {"aabb_tree"}, vfr[b]))
  /\ UNCHANGED <<ver, vfr, ofr, arr, pval, vgen, boxc>>
(* the user reads b.aabb(): the box of vertices_ taken to the world through body2origin_ *)
Aabb(b) ==
  /\ Step([op |-> "aabb", b1 |-> b, b2 |-> b, bp |-> "-", det |-> FALSE, how |-> "-", back |-> FALSE])
  /\ IF \/ BoxCache = "by_pose_value" /\ boxc[b] # NoBox /\ boxc[b][1] = pval[b]
        \/ BoxCache = "until_update" /\ boxc[b] # NoBox
     THEN stale' = (boxc[b][1] # pval[b] \/ boxc[b][2] # vgen[b] \/ vfr[b] # ofr[b]) /\ UNCHANGED boxc       \* the kept box is returned
     ELSE /\ stale' = (vfr[b] # ofr[b])
          /\ boxc' = [boxc EXCEPT ![b] = IF BoxCache = "none" THEN NoBox ELSE <<pval[b], vgen[b]>>]
  /\ UNCHANGED <<ver, vfr, ofr, arr, cache, pval, vgen>>

Next == \/ \E b1, b2 \in Bodies, bp \in {"brute", "tree"}, det \in BOOLEAN : ContactForces(b1, b2, bp, det)
        \/ \E b \in Bodies, how \in {"inplace", "assign"}, back \in BOOLEAN : Move(b, how, back)
        \/ \E b \in Bodies : Tree(b) \/ Aabb(b) \/ Inspect(b)
Spec == Init /\ [][Next]_vars

CacheCoherent == ~stale
WorldGeometryUnchanged == \A b \in Bodies : vfr[b] = ofr[b]
FramesPrivate == FrameCopy => \A b, c \in Bodies : (b # c /\ arr[b] = arr[c]) => arr[b] = "private"
EmitWitness == (Witness /\ stale) => PrintT(<<"WITNESS", ToJson(hist)>>)
EmitHist == (~Witness /\ Len(hist) = MaxCalls) => PrintT(<<"HIST", ToJson(hist)>>)
=============================================================================
