SPECIFICATION Spec
CONSTANTS
  Kinds = {"cyl_long", "cyl_medium", "cyl_short", "box", "cube", "ico"}
  MaxN = 12
  MaxC = 1
  MaxOrder = 2
  Variant = "lib"
INVARIANT IndicesInRange
INVARIANT FourDistinct
INVARIANT NoDuplicateTet
INVARIANT VerticesReferenced
INVARIANT FaceAtMostTwo
INVARIANT BoundaryClosed
INVARIANT NonZeroVolume
INVARIANT ApexesSeparated
INVARIANT BoundaryOnHull
INVARIANT PotentialLayout
INVARIANT IcoSurface
