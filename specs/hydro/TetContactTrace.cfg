INIT Init
NEXT Next
