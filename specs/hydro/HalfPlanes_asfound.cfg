SPECIFICATION Spec
CONSTANT Variant = "slot_i"
INVARIANT Correct
