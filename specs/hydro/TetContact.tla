------------------------------ MODULE TetContact ------------------------------
(* C15 - JUDGE for hydroelastic contact polygons.  One record per tetrahedron pair handed to
   intersect_tetrahedron_pair (alone or inside find_contact_surface).  Residuals are measured by the
   harness with its own barycentric solves and arrive as ticks of 1e-9 * L / 8:
     r.hit          the pair was reported as intersecting
     r.onPlane      max distance of a polygon vertex from the reported contact plane
     r.in1, r.in2   max violation of "barycentric coordinates >= 0" in tetrahedron 1 / 2
     r.convex       largest violation of convexity of the ordered polygon (0 if convex), r.areaNeg
     r.forceDir     | force x normal | / |force| (force along the plane normal), r.pressureNeg
     r.swapPts      after exchanging the two tetrahedra: largest distance between the two vertex sets
     r.swapNormal   | n12 + n21 |  (opposite normals), r.swapHit (same verdict)
     r.overlap      the harness' exact-rational GJK finds the two tetrahedra overlapping by more than 1e-6*L ("yes"),
                    separated by more than that ("no"), or neither ("band")
   DisjointMeansNoContact uses r.overlap; bodies: r.kind = "bodies" with r.far (AABBs of the bodies disjoint),
   r.flag, r.wrench (|wrench| in ticks of 1e-12). *)
EXTENDS Integers, Sequences, FiniteSets
Slack == 8 + 1
SetOf(s) == { s[k] : k \in DOMAIN s }
PairClauses == <<"NoException", "OnPlane", "InsideBoth", "Convex", "AreaNonNegative", "ForceAlongNormal",
                 "PressureNonNegative", "OrderIndependent", "DisjointMeansNoContact">>
PairHolds(c, r) ==
  LET ok == r.exc = "none" IN
  CASE c = "NoException"            -> ok
    [] c = "OnPlane"                -> (ok /\ r.hit) => r.onPlane <= Slack
    [] c = "InsideBoth"             -> (ok /\ r.hit) => (r.in1 <= Slack /\ r.in2 <= Slack)
    [] c = "Convex"                 -> (ok /\ r.hit) => r.convex <= Slack
    [] c = "AreaNonNegative"        -> (ok /\ r.hit) => ~r.areaNeg
    [] c = "ForceAlongNormal"       -> (ok /\ r.hit) => r.forceDir <= Slack
    [] c = "PressureNonNegative"    -> (ok /\ r.hit) => ~r.pressureNeg
    [] c = "OrderIndependent"       -> \* same verdict in both orders (grazing pairs, r.overlap = "band", may be decided either way),
                                       \* and where both orders report a polygon it is the same one with the opposite normal
                                       ok => /\ (r.overlap = "yes" => r.swapHit)
                                             /\ ((r.hit /\ r.swapHit) => (r.swapPts <= Slack /\ r.swapNormal <= Slack))
    [] c = "DisjointMeansNoContact" -> (ok /\ r.overlap = "no") => ~r.hit
BodyClauses == <<"NoException", "DisjointMeansNoContact">>
BodyHolds(c, r) ==
  CASE c = "NoException"            -> r.exc = "none"
    [] c = "DisjointMeansNoContact" -> (r.exc = "none" /\ r.far) => (~r.flag /\ r.wrench = 0)
(* kind = "clip": one configuration of the explorer PolygonClip replayed on the real clipping pipeline under a similarity
   transform, in two half-plane orders: r.orderArea = |area(order 1) - area(order 2)|, r.modelArea = largest difference to
   the exact area of the model's polygon (ticks of 1e-9 * L^2 / 8), r.fits (at most 8 points reach the tesselation table).
   OrderIndependent is the property's clause; conformance to the model is reported as drift, not as a violation. *)
ClipClauses == <<"NoException", "OrderIndependent", "FitsTable", "DRIFT_ClipConformsToModel">>
ClipHolds(c, r) ==
  CASE c = "NoException"               -> r.exc = "none"
    [] c = "OrderIndependent"          -> r.exc = "none" => r.orderArea <= Slack
    [] c = "FitsTable"                 -> r.exc = "none" => r.fits
    [] c = "DRIFT_ClipConformsToModel" -> r.exc = "none" => r.modelArea <= Slack
Failing(r) == IF r.kind = "pair" THEN { c \in SetOf(PairClauses) : ~PairHolds(c, r) }
              ELSE IF r.kind = "clip" THEN { c \in SetOf(ClipClauses) : ~ClipHolds(c, r) }
              ELSE { c \in SetOf(BodyClauses) : ~BodyHolds(c, r) }
=============================================================================
