SPECIFICATION Spec
CONSTANTS
  Kinds = {"capsule","cyl_long","cyl_medium","box"}
  MaxN = 4
  MaxC = 2
  MaxOrder = 1
  Variant = "ring_shift"
INVARIANT IndicesInRange
INVARIANT FourDistinct
INVARIANT NoDuplicateTet
INVARIANT VerticesReferenced
INVARIANT FaceAtMostTwo
INVARIANT BoundaryClosed
INVARIANT NonZeroVolume
INVARIANT ApexesSeparated
INVARIANT BoundaryOnHull
INVARIANT PotentialLayout
INVARIANT IcoSurface
