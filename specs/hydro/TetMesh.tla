------------------------------- MODULE TetMesh -------------------------------
(* C17 - JUDGE for the tetrahedral mesh factories.  A mesh arrives as data:
     r.T       sequence of tetrahedra, each a 4-tuple of 1-based vertex indices
     r.nv      number of vertices
     r.zero    set (sequence) of vertex indices whose potential is 0 (|pot| <= 1e-12 * size)
   Combinatorial validity of the complex is decided here, exactly:
     DistinctVertices   every tetrahedron has four different vertices, no tetrahedron occurs twice
     FaceAtMostTwo      every triangle belongs to at most two tetrahedra
     BoundaryClosed     the triangles that belong to exactly one tetrahedron form a closed surface
                        (every edge of it lies in exactly two of them)
     VerticesReferenced every vertex is used by some tetrahedron
     BoundaryPotentialZero / InteriorPotentialPositive   boundary vertices are exactly the zero-potential ones
   Together with strictly positive volumes and consistently separated apexes (measured by the harness:
   r.minVolOK, r.apexOK) this is equivalent to "tiles the hull without gaps or overlaps".
   Metric clauses arrive as ticks of 1e-9 * L / 8 (volumes: 1e-9 relative): r.volSum (sum of volumes vs hull
   volume), r.inside (vertices inside the analytic shape), r.inradius (interior potentials = inradius),
   r.helpers (tetrahedral_mesh_volumes / _aabbs / center_of_mass agree with direct computation), r.exactVol
   (box and cube: sum of volumes = product of the sizes). *)
EXTENDS Integers, Sequences, FiniteSets

Slack == 8 + 1
SetOf(s) == { s[k] : k \in DOMAIN s }
Faces(t) == { f \in SUBSET t : Cardinality(f) = 3 }
Edges(f) == { e \in SUBSET f : Cardinality(e) = 2 }

(* all combinatorial clauses of one mesh, computed once: the set of violated ones *)
CombFailing(r) ==
  LET n     == Len(r.T)
      \* the harness sends every tetrahedron with ascending vertex indices (checked: Sorted), so faces are tuples
      Sorted == \A k \in 1..n : r.T[k][1] <= r.T[k][2] /\ r.T[k][2] <= r.T[k][3] /\ r.T[k][3] <= r.T[k][4]
      FaceOf(k, j) == CASE j = 1 -> <<r.T[k][2], r.T[k][3], r.T[k][4]>> [] j = 2 -> <<r.T[k][1], r.T[k][3], r.T[k][4]>>
                        [] j = 3 -> <<r.T[k][1], r.T[k][2], r.T[k][4]>> [] j = 4 -> <<r.T[k][1], r.T[k][2], r.T[k][3]>>
      slots == (1..n) \X (1..4)
      faces == { FaceOf(p[1], p[2]) : p \in slots }
      cnt   == [f \in faces |-> Cardinality({ p \in slots : FaceOf(p[1], p[2]) = f })]
      B     == { f \in faces : cnt[f] = 1 }
      EdgesOf(f) == { <<f[1], f[2]>>, <<f[1], f[3]>>, <<f[2], f[3]>> }
      bedges == UNION { EdgesOf(f) : f \in B }
      ecnt  == [e \in bedges |-> Cardinality({ f \in B : e \in EdgesOf(f) })]
      bv    == UNION { {f[1], f[2], f[3]} : f \in B }
      zero  == SetOf(r.zero)
      used  == UNION { {r.T[k][1], r.T[k][2], r.T[k][3], r.T[k][4]} : k \in 1..n }
  IN  { c \in {"DistinctVertices", "FaceAtMostTwo", "BoundaryClosed", "VerticesReferenced",
                "BoundaryPotentialZero", "InteriorPotentialPositive"} :
        ~ CASE c = "DistinctVertices"          -> /\ Sorted
                                                  /\ \A k \in 1..n : r.T[k][1] < r.T[k][2] /\ r.T[k][2] < r.T[k][3] /\ r.T[k][3] < r.T[k][4]
                                                  /\ Cardinality(SetOf(r.T)) = n
            [] c = "FaceAtMostTwo"             -> \A f \in faces : cnt[f] <= 2
            [] c = "BoundaryClosed"            -> \A e \in bedges : ecnt[e] = 2
            [] c = "VerticesReferenced"        -> used = 1..r.nv
            [] c = "BoundaryPotentialZero"     -> bv \subseteq zero
            [] c = "InteriorPotentialPositive" -> zero \subseteq bv }

Clauses == <<"NoException", "PositiveVolume", "ApexesSeparated", "TilesHull",
             "VerticesInShape", "InteriorPotentialInradius", "HelpersAgree", "BoxExact">>
Holds(c, r) ==
  LET ok == r.exc = "none" IN
  CASE c = "NoException"               -> ok
    [] c = "PositiveVolume"            -> ok => r.minVolOK
    [] c = "ApexesSeparated"           -> ok => r.apexOK
    [] c = "TilesHull"                 -> ok => r.volSum <= Slack
    [] c = "VerticesInShape"           -> ok => r.inside <= Slack
    [] c = "InteriorPotentialInradius" -> ok => r.inradius <= Slack
    [] c = "HelpersAgree"              -> ok => r.helpers <= Slack
    [] c = "BoxExact"                  -> ok => r.exactVol <= Slack
Failing(r) == { c \in SetOf(Clauses) : ~Holds(c, r) } \cup (IF r.exc = "none" /\ r.comb THEN CombFailing(r) ELSE {})
=============================================================================
