SPECIFICATION Spec
CONSTANTS
  Pool <- PoolDef
  MaxN = 5
  Boundary = "coin"
  Dedup = "coin"
  Emit = FALSE
INVARIANT Complete
INVARIANT FitsTable
