SPECIFICATION Spec
CONSTANTS V <- CubeV  Tris <- CubeT  DirBound = 2
INVARIANT Terminates
INVARIANT AttainsGlobalMax
