------------------------------ MODULE ShapesMC ------------------------------
(* Model checking of the shape judge's own definitions on the lattice (oracle
   sanity, shared by C03 / C04 / C13): for every shape of a parameter lattice,
   every closed direction and every lattice point,
     Bounded:  Contains(p) => d.p <= SupportVal(d)      (C13 "AgreesWithSupport")
     Attained: some lattice point of the shape attains SupportVal(d)  (tightness; C04)
   One TLC state per (shape, direction). *)
EXTENDS Shapes, TLC
VARIABLES s, d
Cube == <<<<-1,-1,-1>>, <<-1,-1,1>>, <<-1,1,-1>>, <<-1,1,1>>, <<1,-1,-1>>, <<1,-1,1>>, <<1,1,-1>>, <<1,1,1>>>>
Pyr  == <<<<-1,-1,0>>, <<1,-1,0>>, <<1,1,0>>, <<-1,1,0>>, <<0,0,3>>>>
CubeF == Facets(Cube)
PyrF == Facets(Pyr)
ShapeSet ==
  {[kind |-> "sphere", r |-> r] : r \in 1..2} \cup
  {[kind |-> "capsule", r |-> r, h |-> h] : r \in 1..2, h \in {2, 4}} \cup
  {[kind |-> "cylinder", r |-> r, h |-> h] : r \in 1..3, h \in {2, 4}} \cup
  {[kind |-> "cone", r |-> r, h |-> h] : r \in {1, 3}, h \in {2, 4}} \cup
  {[kind |-> "ellipsoid", a |-> 1, b |-> 2, c |-> 2], [kind |-> "ellipsoid", a |-> 2, b |-> 3, c |-> 6]} \cup
  {[kind |-> "disk", r |-> 3], [kind |-> "ellipse", a |-> 3, b |-> 4]} \cup
  {[kind |-> "box", a |-> 2, b |-> 4, c |-> 6]} \cup
  {[kind |-> "hull", V |-> Cube, F |-> CubeF], [kind |-> "hull", V |-> Pyr, F |-> PyrF]}
CONSTANTS C, PR     \* direction bound, point-lattice bound
Dirs == ((-C)..C) \X ((-C)..C) \X ((-C)..C) \ {Zero3}
ISqrt(n) == IF \E k \in 0..(13 * C) : k * k = n THEN CHOOSE k \in 0..(13 * C) : k * k = n ELSE -1
Closed(sh, dd) == ISqrt(Radicand(sh, dd)) >= 0

Init == s \in ShapeSet /\ d = Zero3
Next == d = Zero3 /\ d' \in {dd \in Dirs : Closed(s, dd)} /\ UNCHANGED s
K == ISqrt(Radicand(s, d))

Bounded ==
  d # Zero3 => \A p \in ((-PR)..PR) \X ((-PR)..PR) \X ((-PR)..PR) : SupportBounds(s, d, K, p, 1)

(* a witness point <<wn, wd>> that the closed forms predict; a wrong witness can only make the
   lemma fail, never hide an error of SupportVal *)
Sg(x) == IF x < 0 THEN -1 ELSE 1
Witness ==
  LET k == IF K = 0 THEN 1 ELSE K IN
  CASE s.kind = "sphere"    -> <<Scale(s.r, d), k>>
    [] s.kind = "capsule"   -> <<<<2 * s.r * d[1], 2 * s.r * d[2], 2 * s.r * d[3] + Sg(d[3]) * s.h * k>>, 2 * k>>
    [] s.kind = "cylinder"  -> IF K = 0 THEN <<<<0, 0, Sg(d[3]) * s.h>>, 2>>
                               ELSE <<<<2 * s.r * d[1], 2 * s.r * d[2], Sg(d[3]) * s.h * k>>, 2 * k>>
    [] s.kind = "cone"      -> IF s.h * d[3] >= s.r * K THEN <<<<0, 0, s.h>>, 1>>
                               ELSE <<<<s.r * d[1], s.r * d[2], 0>>, k>>
    [] s.kind = "ellipsoid" -> <<<<s.a * s.a * d[1], s.b * s.b * d[2], s.c * s.c * d[3]>>, k>>
    [] s.kind = "disk"      -> IF K = 0 THEN <<Zero3, 1>> ELSE <<<<s.r * d[1], s.r * d[2], 0>>, k>>
    [] s.kind = "ellipse"   -> IF K = 0 THEN <<Zero3, 1>> ELSE <<<<s.a * s.a * d[1], s.b * s.b * d[2], 0>>, k>>
    [] s.kind = "box"       -> <<<<Sg(d[1]) * s.a, Sg(d[2]) * s.b, Sg(d[3]) * s.c>>, 2>>
    [] s.kind = "hull"      -> <<s.V[CHOOSE i \in DOMAIN s.V : \A j \in DOMAIN s.V : Dot(s.V[j], d) <= Dot(s.V[i], d)], 1>>
Attained == d # Zero3 => (Contains(s, Witness[1], Witness[2]) /\ Attains(s, d, K, Witness[1], Witness[2]))
=============================================================================
