INIT Init
NEXT Next
