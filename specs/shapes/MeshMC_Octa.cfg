SPECIFICATION Spec
CONSTANTS V <- OctaV  Tris <- OctaT  DirBound = 2
INVARIANT Terminates
INVARIANT AttainsGlobalMax
