INIT Init
NEXT Next
CONSTANTS C = 4  PR = 6
INVARIANT Bounded
INVARIANT Attained
