------------------------------ MODULE MeshClimb ------------------------------
(* C03 - EXPLORER for the hill-climbing support mapping of MeshGraph
   (distance3d/mesh.py: MeshHillClimbingSupportFunction, hill_climb_mesh_extreme).

   State: firstIdx, the cached start vertex that every query overwrites.
   Query(d): (1) shortcut pass over the six axis-extreme vertices, moving to a
   shortcut vertex whenever it is strictly better than the current best;
   (2) repeat: scan the neighbours of the current best in SOME order (the real
   order comes from a Python set, so it is nondeterministic here) and move to
   every strictly better one met; stop when a whole scan makes no move.
   On the lattice "projected_length > 10*eps" is "> 0".

   Checked: for every reachable cache state and every direction the result
   attains the global maximum (history independence of the support VALUE), and
   the walk terminates within |V| moves. *)
EXTENDS Vec, TLC

CONSTANTS V,        \* sequence of integer vertices
          Tris,     \* set of index triples
          DirBound

VARIABLES firstIdx, lastDir, lastRes
vars == <<firstIdx, lastDir, lastRes>>

I == DOMAIN V
Nbrs(i) == { j \in I : \E t \in Tris : i \in {t[1], t[2], t[3]} /\ j \in {t[1], t[2], t[3]} /\ j # i }
Dirs == ((-DirBound)..DirBound) \X ((-DirBound)..DirBound) \X ((-DirBound)..DirBound) \ {Zero3}

ArgMaxC(c) == CHOOSE i \in I : \A j \in I : V[j][c] < V[i][c] \/ (V[j][c] = V[i][c] /\ i <= j)   \* np.argmax: first maximal
ArgMinC(c) == CHOOSE i \in I : \A j \in I : V[j][c] > V[i][c] \/ (V[j][c] = V[i][c] /\ i <= j)
Shortcuts == <<ArgMaxC(1), ArgMaxC(2), ArgMaxC(3), ArgMinC(1), ArgMinC(2), ArgMinC(3)>>

Better(d, j, i) == Dot(d, Sub(V[j], V[i])) > 0

RECURSIVE ShortcutPass(_, _, _)
ShortcutPass(d, best, k) ==
  IF k > 6 THEN best
  ELSE ShortcutPass(d, IF Better(d, Shortcuts[k], best) THEN Shortcuts[k] ELSE best, k + 1)

(* all results of the climbing loop from `best`, over every neighbour order: a scan in a given
   order moves greedily; here every strictly improving neighbour may be the one taken next *)
RECURSIVE ClimbResults(_, _, _)
ClimbResults(d, best, fuel) ==
  LET up == { j \in Nbrs(best) : Better(d, j, best) } IN
  IF up = {} THEN {best}
  ELSE IF fuel = 0 THEN {0}                              \* 0 = did not terminate within |V| moves
  ELSE UNION { ClimbResults(d, j, fuel - 1) : j \in up }

Init == firstIdx = (CHOOSE i \in I : \A j \in I : i <= j) /\ lastDir = Zero3 /\ lastRes = 0

Query(d) ==
  \E r \in ClimbResults(d, ShortcutPass(d, firstIdx, 1), Cardinality(I)) :
     /\ firstIdx' = (IF r = 0 THEN firstIdx ELSE r) /\ lastDir' = d /\ lastRes' = r

Next == \E d \in Dirs : Query(d)
Spec == Init /\ [][Next]_vars

MaxVal(d) == CHOOSE m \in {Dot(d, V[i]) : i \in I} : \A i \in I : Dot(d, V[i]) <= m
Terminates        == lastRes # 0 \/ lastDir = Zero3
AttainsGlobalMax  == lastRes # 0 => Dot(lastDir, V[lastRes]) = MaxVal(lastDir)
=============================================================================
