----------------------------- MODULE ShapeJudge -----------------------------
(* Judges for C03 (support mappings), C04 (AABBs) and C13 (containment), all in
   terms of module Shapes.  A record describes one observed call; the harness
   maps world coordinates back to the shape's local lattice frame with its own
   exact pose (so a frame error of the library shows up as a wrong local point).

   Exact tier (tier <= 2 with closed = TRUE): observed floats are reconstructed
   as rationals (recon / rticks as in SimplexJudge) and the clauses are evaluated
   in exact arithmetic.  Float tier: residuals measured by the harness' float
   mirror of Shapes (itself checked against the exact values by MirrorExact on
   every exact-tier record) arrive as ticks, 1 tick = 1e-9 * L / 8. *)
EXTENDS Shapes

Slack == 8 + 1

(* ---------------- C03: kind = "support" ----------------
   r.shape, r.d (local integer direction), r.k (root hint), r.closed,
   r.via in {"support_function", "first_vertex", "center"},
   r.recon, r.pn, r.pd, r.rticks            (exact tier)
   r.hn, r.hd                               harness' float mirror of SupportVal, reconstructed
   r.memticks, r.extticks                   (float tier)
   r.exc                                                                          *)
SupportClauses == <<"NoException", "RootHint", "Rational", "SupportInSet", "SupportExtreme", "MirrorExact",
                    "FloatInSet", "FloatExtreme">>
SupHolds(c, r) ==
  LET exact == r.exc = "none" /\ r.closed /\ RootOK(r.shape, r.d, r.k) IN
  CASE c = "NoException"    -> r.exc = "none"
    [] c = "RootHint"       -> r.closed => RootOK(r.shape, r.d, r.k)
    [] c = "Rational"       -> exact => (r.recon /\ r.pd > 0 /\ r.rticks <= Slack)
    [] c = "SupportInSet"   -> (exact /\ r.recon) => Contains(r.shape, r.pn, r.pd)
    [] c = "SupportExtreme" -> (exact /\ r.recon /\ r.via = "support_function") => Attains(r.shape, r.d, r.k, r.pn, r.pd)
    [] c = "MirrorExact"    -> (exact /\ r.via = "support_function") =>
                                 LET h == SupportVal(r.shape, r.d, r.k) IN r.hd > 0 /\ h[1] * r.hd = r.hn * h[2]
    [] c = "FloatInSet"     -> (r.exc = "none" /\ ~r.closed) => r.memticks <= Slack
    [] c = "FloatExtreme"   -> (r.exc = "none" /\ ~r.closed /\ r.via = "support_function") => r.extticks <= Slack

(* ---------------- C04: kind = "aabb" ----------------
   world = t + (M / N) * local; r.rows[i] = row i of M (the local direction of world axis i),
   r.N, r.t (lattice integers), r.k[i] / r.kneg[i] root hints for rows[i] / -rows[i] (equal radicands),
   observed bounds as rationals over a common denominator: r.lon, r.hin, r.bd;  r.recon, r.rticks;
   float tier: r.loticks, r.hiticks                                                *)
AabbClauses == <<"NoException", "RootHint", "Rational", "Tight", "FloatTight">>
AabbHolds(c, r) ==
  LET roots == \A i \in 1..3 : RootOK(r.shape, r.rows[i], r.k[i])
      exact == r.exc = "none" /\ r.closed /\ roots IN
  CASE c = "NoException" -> r.exc = "none"
    [] c = "RootHint"    -> r.closed => roots
    [] c = "Rational"    -> exact => (r.recon /\ r.bd > 0 /\ r.rticks <= Slack)
    [] c = "Tight"       ->      \* hi_i = t_i + h(row_i)/N   and   lo_i = t_i - h(-row_i)/N
         (exact /\ r.recon) =>
           \A i \in 1..3 :
             LET hp == SupportVal(r.shape, r.rows[i], r.k[i])
                 hm == SupportVal(r.shape, Neg(r.rows[i]), r.k[i])
             IN  /\ r.hin[i] * r.N * hp[2] = r.bd * (r.t[i] * r.N * hp[2] + hp[1])
                 /\ r.lon[i] * r.N * hm[2] = r.bd * (r.t[i] * r.N * hm[2] - hm[1])
    [] c = "FloatTight"  -> (r.exc = "none" /\ ~r.closed) => (\A i \in 1..3 : r.loticks[i] <= Slack /\ r.hiticks[i] <= Slack)

(* ---------------- C13: kind = "contain" ----------------
   r.shape, r.pn, r.pd (local rational query point), r.ans (predicate answer for the point asked alone),
   r.batchans (answer for the same point inside a shuffled batch),
   r.hasdist, r.dzero (library's point_to_<shape> distance <= 1e-9*L), r.supok (no support value exceeded, harness-measured) *)
ContainClauses == <<"NoException", "InsideTrue", "OutsideFalse", "BatchElementwise", "AgreesWithDistance", "AgreesWithSupport">>
ConHolds(c, r) ==
  LET ok == r.exc = "none" IN
  CASE c = "NoException"        -> ok
    [] c = "InsideTrue"         -> (ok /\ StrictlyInside(r.shape, r.pn, r.pd)) => r.ans
    [] c = "OutsideFalse"       -> (ok /\ StrictlyOutside(r.shape, r.pn, r.pd)) => ~r.ans
    [] c = "BatchElementwise"   -> \* same verdict alone and inside a batch (decided points only: on the boundary
                                   \* band either answer is acceptable, also for the batch)
                                   (ok /\ (StrictlyInside(r.shape, r.pn, r.pd) \/ StrictlyOutside(r.shape, r.pn, r.pd)))
                                     => r.batchans = r.ans
    [] c = "AgreesWithDistance" -> (ok /\ r.hasdist) =>
                                     /\ StrictlyInside(r.shape, r.pn, r.pd) => r.dzero
                                     /\ StrictlyOutside(r.shape, r.pn, r.pd) => ~r.dzero
    [] c = "AgreesWithSupport"  -> (ok /\ r.ans) => r.supok

Failing(r) ==
  CASE r.kind = "support" -> {c \in Range(SupportClauses) : ~SupHolds(c, r)}
    [] r.kind = "aabb"    -> {c \in Range(AabbClauses) : ~AabbHolds(c, r)}
    [] r.kind = "contain" -> {c \in Range(ContainClauses) : ~ConHolds(c, r)}
=============================================================================
