INIT Init
NEXT Next
CONSTANTS C = 2  PR = 4
INVARIANT Bounded
INVARIANT Attained
