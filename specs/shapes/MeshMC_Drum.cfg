SPECIFICATION Spec
CONSTANTS V <- DrumV  Tris <- DrumT  DirBound = 2
INVARIANT Terminates
INVARIANT AttainsGlobalMax
