SPECIFICATION Spec
CONSTANTS V <- NeedleV  Tris <- NeedleT  DirBound = 2
INVARIANT Terminates
INVARIANT AttainsGlobalMax
