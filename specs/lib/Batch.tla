------------------------------- MODULE Batch -------------------------------
(* Stateless trace validation: every line of the ndjson file named by the
   environment variable TRACE_FILE is one observed call of the implementation.
   The instantiating module supplies Failing(r) (the set of judge clauses the
   record violates).  One output line per rejected record, one summary line;
   the verdict is total: every record is either accepted or rejected with the
   failing clause names. *)
EXTENDS Integers, Sequences, FiniteSets, TLC, Json, IOUtils
CONSTANT FailingOp(_)

T == ndJsonDeserialize(IOEnv.TRACE_FILE)

BadIdx == {i \in 1..Len(T) : FailingOp(T[i]) # {}}

Report ==
  /\ \A i \in BadIdx : PrintT(<<"REJECT", T[i].id, FailingOp(T[i])>>)
  /\ PrintT(<<"JUDGED", Len(T), Cardinality(BadIdx)>>)
=============================================================================
