------------------------------- MODULE Vec -------------------------------
(* Exact integer 3-vectors and small rational helpers shared by all geometry
   specifications.  TLC integers are 32 bit and TLC aborts loudly on overflow,
   so every module that uses this one states its coordinate bounds. *)
EXTENDS Integers, Sequences, FiniteSets

Dot(a, b)   == a[1]*b[1] + a[2]*b[2] + a[3]*b[3]
Add(a, b)   == <<a[1]+b[1], a[2]+b[2], a[3]+b[3]>>
Sub(a, b)   == <<a[1]-b[1], a[2]-b[2], a[3]-b[3]>>
Scale(k, a) == <<k*a[1], k*a[2], k*a[3]>>
Neg(a)      == <<-a[1], -a[2], -a[3]>>
Cross(a, b) == <<a[2]*b[3]-a[3]*b[2], a[3]*b[1]-a[1]*b[3], a[1]*b[2]-a[2]*b[1]>>
Triple(a, b, c) == Dot(a, Cross(b, c))
Norm2(a)    == Dot(a, a)
Zero3       == <<0, 0, 0>>

Abs(x)      == IF x < 0 THEN -x ELSE x
Sgn(x)      == IF x < 0 THEN -1 ELSE IF x > 0 THEN 1 ELSE 0
MaxI(a, b)  == IF a >= b THEN a ELSE b
MinI(a, b)  == IF a <= b THEN a ELSE b

RECURSIVE GcdN(_, _)
GcdN(a, b)  == IF b = 0 THEN a ELSE GcdN(b, a % b)        \* a, b >= 0
Gcd(a, b)   == GcdN(Abs(a), Abs(b))
Gcd4(v, d)  == Gcd(Gcd(v[1], v[2]), Gcd(v[3], d))

(* rational vector  vn / vd  (vd > 0) in lowest terms *)
ReduceV(vn, vd) == LET g == Gcd4(vn, vd) IN
                   IF g = 0 THEN <<vn, 1>> ELSE <<<<vn[1] \div g, vn[2] \div g, vn[3] \div g>>, vd \div g>>

(* rationals <<n, d>>, d > 0 *)
RLe(p, q) == p[1]*q[2] <= q[1]*p[2]
RLt(p, q) == p[1]*q[2] <  q[1]*p[2]
REq(p, q) == p[1]*q[2] =  q[1]*p[2]
RRed(p)   == LET g == Gcd(p[1], p[2]) IN IF g = 0 THEN <<0, 1>> ELSE <<p[1] \div g, p[2] \div g>>

RECURSIVE SumSeq(_)
SumSeq(s) == IF s = <<>> THEN 0 ELSE Head(s) + SumSeq(Tail(s))

RECURSIVE SumVec(_, _)
(* sum_i w[i] * P[i]  for sequences of equal length *)
SumVec(w, P) == IF w = <<>> THEN Zero3 ELSE Add(Scale(Head(w), Head(P)), SumVec(Tail(w), Tail(P)))

Det2(a, b, c, d) == a*d - b*c
Det3(r1, r2, r3) == Triple(r1, r2, r3)

Range(s) == {s[i] : i \in DOMAIN s}
=============================================================================
