----------------------------- MODULE MinNorm -----------------------------
(* Declarative definition of the minimum-norm point of the convex hull of a
   finite sequence of lattice points, by certificates:

     x is THE point of conv(Y) closest to the origin  iff
       (1) x in conv(Y)             and
       (2) x.(y - x) >= 0  for every y in Y          (KKT / Wolfe criterion).

   Candidates for x are the orthogonal projections of the origin onto the
   affine hulls of affinely independent sub-tuples (size <= 4 in 3-D,
   Caratheodory) with non-negative barycentric weights; all arithmetic is
   exact (Cramer's rule over a common denominator).  Nothing here mirrors any
   algorithm of the library. *)
EXTENDS Vec

(* ---- projection of a rational point q = qn/qd onto aff(P), P a sequence of
        1..4 points.  Result <<w, W>>: integer weights w[i] with common
        denominator W > 0 (sum w = W), or W = 0 if P is affinely dependent. *)
ProjW(P, qn, qd) ==
  LET k  == Len(P)
      p1 == Sub(Scale(qd, P[1]), qn)              \* qd * (P[1] - q)
  IN
  IF k = 1 THEN <<<<1>>, 1>>
  ELSE IF k = 2 THEN
    LET e2 == Sub(P[2], P[1])
        D  == Dot(e2, e2)
        N2 == -Dot(e2, p1)                         \* mu2 = N2 / (D*qd)
    IN  IF D = 0 THEN <<<<0, 0>>, 0>> ELSE <<<<D*qd - N2, N2>>, D*qd>>
  ELSE IF k = 3 THEN
    LET e2 == Sub(P[2], P[1])  e3 == Sub(P[3], P[1])
        a == Dot(e2, e2)  b == Dot(e2, e3)  c == Dot(e3, e3)
        r2 == -Dot(e2, p1)  r3 == -Dot(e3, p1)
        D  == a*c - b*b
        N2 == r2*c - b*r3
        N3 == a*r3 - b*r2
    IN  IF D = 0 THEN <<<<0, 0, 0>>, 0>> ELSE <<<<D*qd - N2 - N3, N2, N3>>, D*qd>>
  ELSE
    LET e2 == Sub(P[2], P[1])  e3 == Sub(P[3], P[1])  e4 == Sub(P[4], P[1])
        \* aff(P) is all of space when independent: solve e-matrix * mu = -p1 directly
        D  == Triple(e2, e3, e4)
        m  == Neg(p1)
        N2 == Triple(m, e3, e4)
        N3 == Triple(e2, m, e4)
        N4 == Triple(e2, e3, m)
        s  == IF D < 0 THEN -1 ELSE 1
    IN  IF D = 0 THEN <<<<0, 0, 0, 0>>, 0>>
        ELSE <<<<s*(D*qd - N2 - N3 - N4), s*N2, s*N3, s*N4>>, s*D*qd>>

AllNonNeg(w) == \A i \in DOMAIN w : w[i] >= 0

(* sub-tuples of the index set 1..n, as strictly increasing sequences, size 1..4 *)
SubTuples(n) ==
  LET I == 1..n IN
       {<<i>> : i \in I}
  \cup {t \in I \X I : t[1] < t[2]}
  \cup {t \in I \X I \X I : t[1] < t[2] /\ t[2] < t[3]}
  \cup {t \in I \X I \X I \X I : t[1] < t[2] /\ t[2] < t[3] /\ t[3] < t[4]}

Pick(Y, t) == [i \in DOMAIN t |-> Y[t[i]]]

(* KKT: the rational point xn/xd (xd > 0) is no farther from the origin than any
   point of conv(Y) provided it lies in conv(Y) *)
IsKKT(Y, xn, xd) == \A i \in DOMAIN Y : xd * Dot(xn, Y[i]) >= Dot(xn, xn)

(* membership of the rational point qn/qd in conv(Y[t]) for SOME affinely
   independent sub-tuple t of the index tuple S *)
InHullOf(Y, S, qn, qd) ==
  \E t \in SubTuples(Len(S)) :
     LET P  == Pick(Y, Pick(S, t))
         pw == ProjW(P, qn, qd)
     IN  /\ pw[2] > 0
         /\ AllNonNeg(pw[1])
         /\ Scale(qd, SumVec(pw[1], P)) = Scale(pw[2], qn)     \* projection is q itself

(* all exact solutions: <<t, xn, xd>> reduced *)
MinNormSols(Y) ==
  { s \in { LET P  == Pick(Y, t)
                pw == ProjW(P, Zero3, 1)
            IN  IF pw[2] > 0 /\ AllNonNeg(pw[1])
                THEN <<t, ReduceV(SumVec(pw[1], P), pw[2])>>
                ELSE <<t, <<Zero3, 0>>>>
            : t \in SubTuples(Len(Y)) } :
      s[2][2] > 0 /\ IsKKT(Y, s[2][1], s[2][2]) }

MinNormPoint(Y) == (CHOOSE s \in MinNormSols(Y) : TRUE)[2]       \* <<xn, xd>>
MinNorm2(Y)     == LET x == MinNormPoint(Y) IN RRed(<<Dot(x[1], x[1]), x[2]*x[2]>>)

(* theorem checked by TLC on the lattice: the solution is unique as a point *)
SolutionUnique(Y) == \A s1, s2 \in MinNormSols(Y) : s1[2] = s2[2]
SolutionExists(Y) == MinNormSols(Y) # {}

(* index subsets (as sets) whose hull contains the minimiser *)
Acceptable(Y, S) ==  \* S: strictly increasing index tuple
  LET x == MinNormPoint(Y) IN InHullOf(Y, S, x[1], x[2])
=============================================================================
