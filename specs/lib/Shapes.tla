------------------------------- MODULE Shapes -------------------------------
(* The library's convex shapes in their LOCAL frame, with exact integer
   parameters in lattice units, and the three declarative operators every shape
   judge is built from:

     Ineqs(s, pn, pd)    the polynomial inequalities  lhs <= rhs  that define
                         membership of the rational point pn/pd (pd > 0)
     SupportVal(s, d, k) the exact support value  max { x.d : x in s }  for an
                         integer direction d, as a rational <<num, den>>; k is
                         the integer square root of Radicand(s, d) (a HINT that
                         is verified: RootOK)
     Facets(V)           facet inequalities of the convex hull of a vertex tuple

   Local frames follow the library: capsule / cylinder axis = z, centred;
   cone base disk in z = 0, apex at z = h; disk / ellipse in the plane z = 0;
   box centred, full edge lengths.  A shape is a record with field "kind" and
   integer fields:
     sphere r | capsule r h | cylinder r h | cone r h | ellipsoid a b c |
     disk r | ellipse a b | box a b c | hull V (sequence of integer vertices; an
   optional field F caches Facets(V)) *)
EXTENDS MinNorm

Sq(x) == x * x
AbsI(x) == IF x < 0 THEN -x ELSE x

(* ---------------- facets of a lattice polytope ---------------- *)
(* all <<n, c>> with n = (v_j - v_i) x (v_k - v_i) # 0 and n.v <= c for every vertex *)
Facets(V) ==
  LET I == DOMAIN V IN
  { f \in { LET n == Cross(Sub(V[t[2]], V[t[1]]), Sub(V[t[3]], V[t[1]]))
            IN  <<n, Dot(n, V[t[1]])>> : t \in { u \in I \X I \X I : u[1] < u[2] /\ u[1] < u[3] /\ u[2] # u[3] } } :
      /\ f[1] # Zero3
      /\ \A i \in I : Dot(f[1], V[i]) <= f[2] }

(* a vertex tuple is "solid" if its hull has interior, i.e. some facet has a vertex strictly behind it *)
Solid(V) == \E f \in Facets(V) : \E i \in DOMAIN V : Dot(f[1], V[i]) < f[2]

(* ---------------- membership inequalities ---------------- *)
Ineqs(s, pn, pd) ==
  LET x == pn[1]  y == pn[2]  z == pn[3] IN
  CASE s.kind = "sphere"    -> { <<Sq(x) + Sq(y) + Sq(z), Sq(s.r * pd)>> }
    [] s.kind = "capsule"   ->
         LET z2 == 2 * z   hh == s.h * pd
             dz2 == IF z2 > hh THEN z2 - hh ELSE IF z2 < -hh THEN z2 + hh ELSE 0
         IN  { <<4 * (Sq(x) + Sq(y)) + Sq(dz2), 4 * Sq(s.r * pd)>> }
    [] s.kind = "cylinder"  -> { <<Sq(x) + Sq(y), Sq(s.r * pd)>>, <<AbsI(2 * z), s.h * pd>> }
    [] s.kind = "cone"      -> { <<-z, 0>>, <<z, s.h * pd>> } \cup
                               (IF z >= 0 /\ z <= s.h * pd
                                THEN { <<Sq(s.h) * (Sq(x) + Sq(y)), Sq(s.r) * Sq(s.h * pd - z)>> } ELSE {})
    [] s.kind = "ellipsoid" -> { <<Sq(x * s.b * s.c) + Sq(y * s.a * s.c) + Sq(z * s.a * s.b), Sq(s.a * s.b * s.c * pd)>> }
    [] s.kind = "disk"      -> { <<AbsI(z), 0>>, <<Sq(x) + Sq(y), Sq(s.r * pd)>> }
    [] s.kind = "ellipse"   -> { <<AbsI(z), 0>>, <<Sq(x * s.b) + Sq(y * s.a), Sq(s.a * s.b * pd)>> }
    [] s.kind = "box"       -> { <<AbsI(2 * x), s.a * pd>>, <<AbsI(2 * y), s.b * pd>>, <<AbsI(2 * z), s.c * pd>> }
    [] s.kind = "hull"      -> { <<Dot(f[1], pn), f[2] * pd>> : f \in (IF "F" \in DOMAIN s THEN s.F ELSE Facets(s.V)) }

Contains(s, pn, pd)       == \A q \in Ineqs(s, pn, pd) : q[1] <= q[2]
StrictlyInside(s, pn, pd) == \A q \in Ineqs(s, pn, pd) : q[1] <  q[2]
StrictlyOutside(s, pn, pd) == \E q \in Ineqs(s, pn, pd) : q[1] >  q[2]
(* flat shapes (disk, ellipse, non-solid hulls) have no strict interior in 3-D *)

(* ---------------- support values ---------------- *)
Radicand(s, d) ==
  CASE s.kind \in {"sphere", "capsule"}          -> Norm2(d)
    [] s.kind \in {"cylinder", "cone", "disk"}   -> Sq(d[1]) + Sq(d[2])
    [] s.kind = "ellipsoid"                      -> Sq(s.a * d[1]) + Sq(s.b * d[2]) + Sq(s.c * d[3])
    [] s.kind = "ellipse"                        -> Sq(s.a * d[1]) + Sq(s.b * d[2])
    [] OTHER                                     -> 0
RootOK(s, d, k) == k >= 0 /\ k * k = Radicand(s, d)

MaxOver(S) == CHOOSE m \in S : \A x \in S : x <= m

SupportVal(s, d, k) ==      \* rational <<num, den>>, den in {1, 2}
  CASE s.kind = "sphere"    -> <<s.r * k, 1>>
    [] s.kind = "capsule"   -> <<2 * s.r * k + s.h * AbsI(d[3]), 2>>
    [] s.kind = "cylinder"  -> <<2 * s.r * k + s.h * AbsI(d[3]), 2>>
    [] s.kind = "cone"      -> <<MaxI(s.h * d[3], s.r * k), 1>>
    [] s.kind = "ellipsoid" -> <<k, 1>>
    [] s.kind = "disk"      -> <<s.r * k, 1>>
    [] s.kind = "ellipse"   -> <<k, 1>>
    [] s.kind = "box"       -> <<s.a * AbsI(d[1]) + s.b * AbsI(d[2]) + s.c * AbsI(d[3]), 2>>
    [] s.kind = "hull"      -> <<MaxOver({Dot(s.V[i], d) : i \in DOMAIN s.V}), 1>>

(* the rational point pn/pd attains the support value in direction d *)
Attains(s, d, k, pn, pd) == LET h == SupportVal(s, d, k) IN h[2] * Dot(d, pn) = h[1] * pd

(* lemma checked by TLC on the lattice (ShapesMC): membership implies the
   support inequality in every direction, i.e. SupportVal really is an upper bound *)
SupportBounds(s, d, k, pn, pd) ==
  Contains(s, pn, pd) => LET h == SupportVal(s, d, k) IN h[2] * Dot(d, pn) <= h[1] * pd
=============================================================================
