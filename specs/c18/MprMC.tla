-------------------------------- MODULE MprMC --------------------------------
(* scenes for Mpr: Minkowski differences of small lattice polytopes with lattice centres (the centre is the
   mean of the vertices, as ConvexHullVertices.center() computes it) at lattice offsets *)
EXTENDS Mpr
CONSTANT R                       \* offsets in (-R..R)^3
SPoint == [V |-> {<<0, 0, 0>>}, c |-> <<0, 0, 0>>]
SSeg   == [V |-> {<<0, 0, 0>>, <<2, 0, 0>>}, c |-> <<1, 0, 0>>]
STri   == [V |-> {<<0, 0, 0>>, <<3, 0, 0>>, <<0, 3, 0>>}, c |-> <<1, 1, 0>>]
SSq    == [V |-> {<<-1, -1, 0>>, <<1, -1, 0>>, <<1, 1, 0>>, <<-1, 1, 0>>}, c |-> <<0, 0, 0>>]
STet   == [V |-> {<<0, 0, 0>>, <<4, 0, 0>>, <<0, 4, 0>>, <<0, 0, 4>>}, c |-> <<1, 1, 1>>]
SCube  == [V |-> {<<x, y, z>> : x \in {-1, 1}, y \in {-1, 1}, z \in {-1, 1}}, c |-> <<0, 0, 0>>]
SOcta  == [V |-> {<<2, 0, 0>>, <<-2, 0, 0>>, <<0, 2, 0>>, <<0, -2, 0>>, <<0, 0, 1>>, <<0, 0, -1>>}, c |-> <<0, 0, 0>>]
ShapesA == {SPoint, SSeg, STri, SSq, STet, SCube, SOcta}
ShapesB == {SPoint, SSeg, SSq, STet, SCube}
Off == {<<x, y, z>> : x \in (-R)..R, y \in (-R)..R, z \in (-R)..R}
Scene(A, B, t) == [D |-> {Sub(Sub(a, b), t) : a \in A.V, b \in B.V}, c |-> Sub(Sub(A.c, B.c), t)]
SceneSet == {Scene(A, B, t) : A \in ShapesA, B \in ShapesB, t \in Off}
CycleSceneSet == {Scene(STet, STet, <<1, 1, -1>>)}      \* NeverCapped fails here: the discover loop cycles with period 8
AliasSceneSet == {Scene(STet, SCube, <<2, 2, 1>>)}       \* ContactCommonPoint fails here for the as-found swap
SmallSceneSet == {Scene(A, B, t) : A \in {SCube, STet}, B \in {SCube}, t \in Off}
==============================================================================
