SPECIFICATION Spec
CONSTANTS K = 3  C = 1
INVARIANT Exists
INVARIANT Unique
INVARIANT DenBound
INVARIANT JoltCorrect
