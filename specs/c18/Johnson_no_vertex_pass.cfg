SPECIFICATION Spec
CONSTANTS K = 3  C = 1  Variant = "no_vertex_pass"
INVARIANT BackupCorrect
