SPECIFICATION Spec
CONSTANTS
  TolNum = 0
  TolDen = 1
  Scenes <- CycleSceneSet
  MaxIter = 12
  MaxSteps = 30
  Mode = "intersection"
  Variant = "lib"
  R = 1
INVARIANT NeverCapped
