SPECIFICATION Spec
CONSTANTS
  Scenes <- CycleSceneSet
  MaxIter = 12
  MaxSteps = 30
  Mode = "intersection"
  Variant = "lib"
  R = 1
INVARIANT NeverCapped
