----------------------------- MODULE SimplexMC -----------------------------
(* Model checking on the specification alone (C18): one state per ordered
   configuration of 0..K lattice points.  Invariants:
     Exists / Unique  - the declarative minimiser is well defined
     DenBound         - its reduced denominator is <= MaxDen (licenses the rational
                        reconstruction used by the trace binding)
     JoltCorrect      - the transcribed Jolt solver (explorer model) returns the
                        minimiser and a subset whose hull contains it
     JoltSubsetTight  - and never reports all four points unless the origin is inside *)
EXTENDS MinNorm, JoltSolver, TLC
CONSTANTS K, C            \* number of points, coordinate bound
VARIABLE Y

Coord == (-C)..C
Pts   == Coord \X Coord \X Coord

Init == Y = <<>>
Extend == /\ Len(Y) < K
          /\ \E p \in Pts : Y' = Append(Y, p)
Next == Extend
Spec == Init /\ [][Next]_Y

AscTuple(S) ==
  LET n == Cardinality(S)
      rank(i) == Cardinality({j \in S : j < i}) + 1
  IN  [p \in 1..n |-> CHOOSE i \in S : rank(i) = p]

Exists   == Y # <<>> => SolutionExists(Y)
Unique   == Y # <<>> => SolutionUnique(Y)
DenBound == Y # <<>> => MinNormPoint(Y)[2] <= 4096
JoltCorrect ==
  Y # <<>> =>
    LET j == Jolt(Y)
        x == MinNormPoint(Y)
    IN  /\ j[1] = x
        /\ j[2] # {} /\ j[2] \subseteq 1..Len(Y)
        /\ InHullOf(Y, AscTuple(j[2]), x[1], x[2])
=============================================================================
