--------------------------- MODULE SimplexJudge ---------------------------
(* C18 - judge for the simplex solvers (Jolt-style closest-point routine and the
   backup procedure of the original GJK).

   A record r describes ONE call of a solver on the real implementation:
     r.solver   "jolt" | "johnson"
     r.Y        the k input points (k in 1..4), lattice integers
     r.S        the returned subset, as 1-based indices into Y.  For "johnson" in
                the ORDER of the reordered simplex; for "jolt" ascending (bit set)
     r.recon    TRUE iff the returned float point is within the property's
                tolerance of a rational vector with denominator <= MaxDen
     r.xn, r.xd that rational vector  (xd > 0)
     r.nticks   | |v_float| - |xn/xd| |  in ticks;  1 tick = RelTol * scale / 8,
                scale = max |Y[i]|  (measured by the harness, judged here)
     r.exc      "none" or the exception class name
     johnson only:
     r.wn, r.wd barycentric weights as integers over a common denominator,
     r.wrecon   TRUE iff the float weights are within tolerance of wn/wd
     r.wticks   max |w_float - wn/wd| in ticks of 1e-9/8

   The verdict is a CERTIFICATE check in exact arithmetic: a point of
   conv(Y[S]) that satisfies the KKT inequalities against every input point is the
   minimum-norm point of conv(Y); no reference solver is involved. *)
EXTENDS MinNorm

Slack  == 8 + 1          \* 8 ticks = the stated tolerance, +1 for quantisation
MaxDen == 4096           \* see theorem DenBound in SimplexMC

IdxTuple(r) == r.S
Distinct(s) == \A i, j \in DOMAIN s : i # j => s[i] # s[j]
SortedTuple(s) ==        \* ascending copy of a sequence of distinct naturals
  LET n == Len(s)
      rank(i) == Cardinality({j \in 1..n : s[j] < s[i]}) + 1
  IN  [p \in 1..n |-> s[CHOOSE i \in 1..n : rank(i) = p]]

NoException(r)   == r.exc = "none"
WellFormed(r)    == /\ Len(r.S) >= 1 /\ Len(r.S) <= Len(r.Y)
                    /\ \A i \in DOMAIN r.S : r.S[i] \in 1..Len(r.Y)
                    /\ Distinct(r.S)
Rational(r)      == r.recon /\ r.xd > 0 /\ r.xd <= MaxDen
Optimal(r)       == IsKKT(r.Y, r.xn, r.xd)
InSubsetHull(r)  == InHullOf(r.Y, SortedTuple(r.S), r.xn, r.xd)
NormClose(r)     == r.nticks <= Slack

WeightsValid(r)  ==
  r.solver = "johnson" =>
    /\ r.wrecon /\ r.wd > 0 /\ r.wticks <= Slack
    /\ Len(r.wn) = Len(r.S)
    /\ \A i \in DOMAIN r.wn : r.wn[i] >= 0
    /\ SumSeq(r.wn) = r.wd
    /\ Scale(r.xd, SumVec(r.wn, Pick(r.Y, r.S))) = Scale(r.wd, r.xn)   \* in order

Clauses == <<"NoException", "WellFormed", "Rational", "Optimal", "InSubsetHull",
             "NormClose", "WeightsValid">>

Holds(c, r) ==
  CASE c = "NoException"  -> NoException(r)
    [] c = "WellFormed"   -> NoException(r) => WellFormed(r)
    [] c = "Rational"     -> (NoException(r) /\ WellFormed(r)) => Rational(r)
    [] c = "Optimal"      -> (NoException(r) /\ WellFormed(r) /\ Rational(r)) => Optimal(r)
    [] c = "InSubsetHull" -> (NoException(r) /\ WellFormed(r) /\ Rational(r)) => InSubsetHull(r)
    [] c = "NormClose"    -> (NoException(r) /\ WellFormed(r) /\ Rational(r)) => NormClose(r)
    [] c = "WeightsValid" -> (NoException(r) /\ WellFormed(r) /\ Rational(r)) => WeightsValid(r)

Failing(r) == {c \in Range(Clauses) : ~Holds(c, r)}

(* ---- float tier (T3): random real configurations.  The harness measures
        | |v| - |x*| |  against its exact-rational oracle (itself certified by the
        lattice clauses above, solver = "exactmn") and hull membership by
        non-negative least squares; residuals arrive as ticks.  Each record also
        carries the decimal exponents of the configuration's scale (max |Y[i]|),
        aspect ratio (largest / smallest singular value of the centred points)
        and smallest extent. ---- *)
FloatClauses == <<"NoException", "NormClose", "InSubsetHull", "WeightsValid">>
FHolds(c, r) ==
  CASE c = "NoException"  -> r.exc = "none"
    [] c = "NormClose"    -> r.exc = "none" => r.nticks <= Slack
    [] c = "InSubsetHull" -> r.exc = "none" => r.hullticks <= Slack
    [] c = "WeightsValid" -> (r.exc = "none" /\ r.solver = "johnson") => r.wticks <= Slack

(* Named input pattern for known findings (DESIGN section 8): configurations
   outside the zone in which each solver's absolute EPSILON thresholds and its
   float cancellation are harmless.  A rejected record inside the pattern is
   tagged ZONE_Extreme; outside it the rejection is an ordinary violation.
   Jolt: measured on 150,000 random real configurations of the unchanged library, every failure has an aspect ratio
   of at least 1e7 or is a 4-point configuration with a smallest extent below 1e-3 (the absolute EPSILON of the
   tetrahedron plane tests); 1-3 points with aspect below 1e7 never failed, whatever their size (the zone used to be
   aspect >= 1e5 or extent < 1e-3 for any k, which hid seed C18-7: a needle triangle of aspect 1e5 .. 1e7). *)
Extreme(r) ==
  IF r.solver = "jolt"    THEN r.aspDec >= 7 \/ (r.k = 4 /\ r.featDec < -3)
  ELSE                         r.aspDec >= 2 \/ r.scaleDec < -1
FFailing(r) ==
  LET f == {c \in Range(FloatClauses) : ~FHolds(c, r)}
  IN  IF f # {} /\ Extreme(r) THEN f \cup {"ZONE_Extreme"} ELSE f
=============================================================================
