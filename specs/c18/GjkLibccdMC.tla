----------------------------- MODULE GjkLibccdMC -----------------------------
(* scenes for GjkLibccd: Minkowski differences of small lattice polytopes at lattice offsets
   (the shapes of GjkJoltMC plus a flat rectangle and a second, rotated tetrahedron) *)
EXTENDS GjkLibccd
CONSTANT R                       \* offsets in (-R..R)^3
SPoint == {<<0, 0, 0>>}
SSeg   == {<<0, 0, 0>>, <<2, 0, 0>>}
STri   == {<<0, 0, 0>>, <<2, 0, 0>>, <<0, 2, 0>>}
SSq    == {<<-1, -1, 0>>, <<1, -1, 0>>, <<1, 1, 0>>, <<-1, 1, 0>>}
STet   == {<<0, 0, 0>>, <<2, 0, 0>>, <<0, 2, 0>>, <<0, 0, 2>>}
SCube  == {<<x, y, z>> : x \in {-1, 1}, y \in {-1, 1}, z \in {-1, 1}}
SOcta  == {<<2, 0, 0>>, <<-2, 0, 0>>, <<0, 2, 0>>, <<0, -2, 0>>, <<0, 0, 1>>, <<0, 0, -1>>}
ShapesA == {SPoint, SSeg, STri, SSq, STet, SCube, SOcta}
ShapesB == {SPoint, SSeg, SSq, STet, SCube}
Off == {<<x, y, z>> : x \in (-R)..R, y \in (-R)..R, z \in (-R)..R}
Diff(A, B, t) == {Sub(Sub(a, b), t) : a \in A, b \in B}
SceneSet == {Diff(A, B, t) : A \in ShapesA, B \in ShapesB, t \in Off}
SmallSceneSet == {Diff(A, B, t) : A \in {SPoint, SSeg}, B \in {SPoint, SSeg}, t \in Off}     \* for the failing variants
==============================================================================
