SPECIFICATION Spec
CONSTANTS
  Scenes <- SceneSet
  MaxIter = 12
  Loop = "distance"
  Variant = "lib"
  R = 2
INVARIANT Terminates
INVARIANT SimplexInD
INVARIANT HitIsOverlap
INVARIANT MissIsOptimal
INVARIANT MissIsSeparated
