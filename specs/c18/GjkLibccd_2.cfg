SPECIFICATION Spec
CONSTANTS
  Scenes <- SceneSet
  MaxIter = 100
  Variant = "lib"
  R = 2
INVARIANT HitIsOverlap
INVARIANT MissIsNotDeep
INVARIANT NeverExhausted
INVARIANT SimplexInD
