SPECIFICATION Spec
CONSTANTS
  Scenes <- SceneSet
  MaxIter = 100
  Variant = "lib"
  R = 3
INVARIANT HitIsOverlap
INVARIANT MissIsNotDeep
INVARIANT NeverExhausted
INVARIANT SimplexInD
