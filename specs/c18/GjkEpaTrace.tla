---------------------------- MODULE GjkEpaTrace ----------------------------
(* C07 - binds recorded runs of gjk_distance_jolt followed by epa.epa on lattice polytopes to the composite
   explorer GjkEpa.  A recording proxy logs the direction and the result of every support evaluation:
     iter    one GJK iteration, w = p - q                       -> StepW(w) of the GJK loop model
     gjkend  the distance query returned (rows = simplex points handed over)
     eiter   one EPA iteration: n = the search direction as a primitive integer vector, w = p - q
             -> EpaStepCW(c, w) with c a face of minimal distance whose normal is n
     eresult epa returned: success flag, |mtv|^2 as a rational, or the exception
   All clauses are conformance clauses (prefix DRIFT): the code took a path the model does not have, stopped at another
   iteration, or reports another vector than the model on the same path.  They are reported in the evidence, never as a
   violation: whether the vector is the minimum translation is judged by the C07 records against the certified facet
   depth, and the model itself shows (GjkEpa.cfg, first-index tie-breaking) that the design does not guarantee it.
   Runs that hand EPA fewer than four simplex points, or a flat tetrahedron, are outside the model
   (C07's known finding is judged by the C07 records, not here): the EPA part is skipped. *)
EXTENDS GjkEpa, Json, IOUtils
T == ndJsonDeserialize(IOEnv.TRACE_FILE)
VARIABLES l, off, skip      \* position; left the model; EPA part outside the model
tvars == <<allvars, l, off, skip>>
Ev == T[l]
Is(e) == l <= Len(T) /\ Ev.ev = e /\ l' = l + 1
Vec3(x) == <<x[1], x[2], x[3]>>
SeqPts(s) == [k \in DOMAIN s |-> Vec3(s[k])]
Reject(id, cl) == cl # {} => PrintT(<<"REJECT", id, cl>>)

TScene == /\ Is("scene")
          /\ AB' = <<SeqPts(Ev.A), SeqPts(Ev.B)>> /\ D' = DiffSet(<<SeqPts(Ev.A), SeqPts(Ev.B)>>)
          /\ Y' = <<>> /\ dir' = <<1, 0, 0>> /\ v' = IntPt(<<1, 0, 0>>) /\ prev' = Inf /\ st' = "run" /\ it' = 0
          /\ F' = <<>> /\ est' = "off" /\ eit' = 0 /\ res' = <<Zero3, 0>> /\ off' = FALSE /\ skip' = FALSE
TIter  == /\ Is("iter")
          /\ LET w == Vec3(Ev.w) IN
             IF ~off /\ st = "run" /\ w \in ArgMax(D, dir)
             THEN StepW(w) /\ UNCHANGED <<evars, off, skip>>
             ELSE off' = TRUE /\ UNCHANGED <<allvars, skip>>
TGjkEnd == /\ Is("gjkend")
           /\ IF ~off /\ st = "hit" /\ Len(Y) = 4 /\ Ev.rows = 4 /\ ProperStart(Y)
              THEN /\ LET Z == IF OrientStart /\ Det4(Y) > 0 THEN <<Y[1], Y[3], Y[2], Y[4]>> ELSE Y IN
                      F' = <<Face(Z[1], Z[2], Z[3]), Face(Z[1], Z[3], Z[4]), Face(Z[1], Z[4], Z[2]), Face(Z[2], Z[4], Z[3])>>
                   /\ est' = "run" /\ eit' = 0 /\ UNCHANGED <<vars, res, AB, off, skip>>
              ELSE skip' = TRUE /\ UNCHANGED <<allvars, off>>
TEIter == /\ Is("eiter")
          /\ LET n == Vec3(Ev.n)  w == Vec3(Ev.w)
                 cs == { i \in MinAll(F) : F[i].n = n } IN
             IF ~off /\ ~skip /\ est = "run" /\ cs # {} /\ w \in ArgMax(D, n)
             THEN EpaStepCW(F[CHOOSE i \in cs : TRUE], w) /\ UNCHANGED <<off, skip>>
             ELSE off' = (off \/ ~skip) /\ UNCHANGED <<allvars, skip>>
TEResult == /\ Is("eresult")
            /\ LET drift == IF skip THEN {} ELSE
                            {c \in {"DRIFT_EpaPath", "DRIFT_EpaStopsWithModel", "DRIFT_EpaResult"} :
                               ~ CASE c = "DRIFT_EpaPath" -> ~off
                                   [] c = "DRIFT_EpaStopsWithModel" -> off \/ (est = "done") = (Ev.exc = "none" /\ Ev.ok)
                                   [] c = "DRIFT_EpaResult" -> (off \/ est # "done" \/ Ev.exc # "none" \/ ~Ev.ok) \/
                                        (Ev.recon /\ REq(<<res[2] * res[2], Dot(res[1], res[1])>>, <<Ev.m2n, Ev.m2d>>))}
               IN Reject(Ev.id, drift)
            /\ UNCHANGED <<allvars, off, skip>>
TEnd   == Is("end") /\ PrintT(<<"JUDGED", Ev.count, 0>>) /\ UNCHANGED <<allvars, off, skip>>
TInit  == /\ AB = <<<<>>, <<>>>> /\ D = {} /\ Y = <<>> /\ dir = <<1, 0, 0>> /\ v = IntPt(<<1, 0, 0>>) /\ prev = Inf /\ st = "run" /\ it = 0
          /\ F = <<>> /\ est = "off" /\ eit = 0 /\ res = <<Zero3, 0>> /\ l = 1 /\ off = FALSE /\ skip = FALSE
TNext  == TScene \/ TIter \/ TGjkEnd \/ TEIter \/ TEResult \/ TEnd
TSpec  == TInit /\ [][TNext]_tvars
Consumed == TLCGet("stats").diameter - 1 = Len(T)
=============================================================================
