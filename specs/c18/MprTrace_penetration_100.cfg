SPECIFICATION TSpec
CONSTANTS
  TolNum = 0
  TolDen = 1
  Scenes = {}
  MaxIter = 100
  MaxSteps = 400
  Mode = "penetration"
  Variant = "lib"
POSTCONDITION Consumed
CHECK_DEADLOCK FALSE
