SPECIFICATION TSpec
CONSTANTS
  Scenes = {}
  MaxIter = 100
  MaxSteps = 400
  Mode = "intersection"
  Variant = "lib"
POSTCONDITION Consumed
CHECK_DEADLOCK FALSE
