------------------------------ MODULE GjkEpaMC ------------------------------
(* overlapping scenes for GjkEpa: Minkowski differences of small lattice polytopes at lattice offsets *)
EXTENDS GjkEpa
CONSTANT R
EPoint == <<<<0, 0, 0>>>>
ESeg   == <<<<0, 0, 0>>, <<2, 0, 0>>>>
ESq    == <<<<-1, -1, 0>>, <<1, -1, 0>>, <<1, 1, 0>>, <<-1, 1, 0>>>>
ETet   == <<<<0, 0, 0>>, <<2, 0, 0>>, <<0, 2, 0>>, <<0, 0, 2>>>>
ECube  == <<<<-1, -1, -1>>, <<-1, -1, 1>>, <<-1, 1, -1>>, <<-1, 1, 1>>, <<1, -1, -1>>, <<1, -1, 1>>, <<1, 1, -1>>, <<1, 1, 1>>>>
EOcta  == <<<<2, 0, 0>>, <<-2, 0, 0>>, <<0, 2, 0>>, <<0, -2, 0>>, <<0, 0, 1>>, <<0, 0, -1>>>>
EWedge == <<<<0, 0, 0>>, <<2, 0, 0>>, <<0, 2, 0>>, <<0, 0, 1>>, <<2, 0, 1>>, <<0, 2, 1>>>>
ETet2  == <<<<0, 0, 2>>, <<0, 2, 0>>, <<2, 0, 0>>, <<0, 0, 0>>>>            \* the same tetrahedron, other vertex order
ECube2 == <<<<1, 1, 1>>, <<-1, 1, 1>>, <<1, -1, 1>>, <<1, 1, -1>>, <<-1, -1, 1>>, <<-1, 1, -1>>, <<1, -1, -1>>, <<-1, -1, -1>>>>
EShapesA == {ETet, ECube, EOcta, EWedge, ETet2, ECube2}
EShapesB == {EPoint, ESeg, ESq, ETet, ETet2}
EOff == {<<x, y, z>> : x \in (-R)..R, y \in (-R)..R, z \in (-R)..R}
Shift(Z, t) == [k \in DOMAIN Z |-> Add(Z[k], t)]
Twice(Z) == [k \in DOMAIN Z |-> Scale(2, Z[k])]
EOdd == {<<x, y, z>> : x \in {-3, -1, 1, 3}, y \in {-1, 1}, z \in {-3, -1, 1}}      \* odd offsets of doubled shapes: generic overlaps
EPairs == {<<A, Shift(B, t)>> : A \in EShapesA, B \in EShapesB, t \in EOff}
          \cup {<<Twice(A), Shift(Twice(B), t)>> : A \in EShapesA, B \in EShapesB, t \in EOdd}
EOnePair == {<<ECube, ETet>>}
==============================================================================
