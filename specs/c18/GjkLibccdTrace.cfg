SPECIFICATION TSpec
CONSTANTS
  Scenes = {}
  MaxIter = 100
  Variant = "lib"
POSTCONDITION Consumed
CHECK_DEADLOCK FALSE
