SPECIFICATION TSpec
CONSTANTS
  TolNum = 390625
  TolDen = 64
  Scenes = {}
  MaxIter = 12
  MaxSteps = 400
  Mode = "penetration"
  Variant = "lib"
POSTCONDITION Consumed
CHECK_DEADLOCK FALSE
