------------------------------ MODULE GjkLibccd ------------------------------
(* C02 / C19 - EXPLORER for gjk_intersection_libccd (distance3d/gjk/_gjk_libccd.py: _gjk, _line_segment,
   _triangle, _triangle_ab, _tetrahedron, _rearrange_simplex_to_triangle), in exact integer arithmetic on
   lattice polytopes.  On the lattice every quantity the routine compares with EPSILON / sqrt(EPSILON) is an
   integer or a rational with a small denominator, so "x < EPSILON" is "x <= 0", "x > -EPSILON" is "x >= 0",
   "dot < -sqrt(EPSILON)" is "dot < 0", and "point_to_triangle(q, T) < sqrt(EPSILON)" is "q lies in the
   closed triangle T".

   D is the finite set { p - q : p vertex of A, q vertex of B }.  The simplex Y is the sequence v[0..n-1]
   of the code (oldest first, the newest point last).  One step = one iteration of the for loop:
     w := ANY maximiser of dir . x over D (all tie-breaks of the support function)
     exits "hit"  : w is the origin; origin on the segment; origin in the closed triangle; origin on a face of
                    the tetrahedron; origin on the inner side of the three faces at A
     exits "miss" : dir . w < 0; the new point repeats A (degenerate triangle); A lies in triangle BCD
                    (degenerate tetrahedron); the new search direction is zero; MaxIter iterations used up
   Checked for every pair of shapes, every lattice offset, every first vertex and every tie-breaking choice:
     HitIsOverlap    "hit" only if the origin is in hull(D)               (closed sets intersect)
     MissIsNotDeep   "miss" only if hull(D) does not contain the octahedron of radius 1/2 about the origin
                     (a pair with a common point at depth >= 0.28 lattice units in both bodies must be reported)
     NeverExhausted  the iteration cap is never the reason of an answer (otherwise the routine cycles)
     SimplexInD      every simplex point is a point of D
   Variants ("lib" is the library): "no_before_test" drops the dir . w < 0 exit - must violate NeverExhausted. *)
EXTENDS MinNorm, TLC
CONSTANTS Scenes, MaxIter, Variant
VARIABLES D, Y, dir, st, why, it
vars == <<D, Y, dir, st, why, it>>

ArgMax(S, d) == {w \in S : \A u \in S : Dot(d, u) <= Dot(d, w)}
TripleCross(a, b, c) == Cross(Cross(a, b), c)
InTri(q, A, B, C) == InHullOf(<<A, B, C>>, <<1, 2, 3>>, q, 1)        \* closed triangle, degenerate ones included
Res(s, y, r, d) == [s |-> s, why |-> y, Y |-> r, dir |-> d]

Line(Z) ==
  LET A == Z[2]  B == Z[1]
      AB == Sub(B, A)  AO == Neg(A)
      oab == Dot(AB, AO)
  IN  IF Cross(AB, AO) = Zero3 /\ oab > 0 THEN Res("hit", "on_segment", Z, Zero3)
      ELSE IF oab <= 0 THEN Res("cont", "seg_to_point", <<A>>, AO)
      ELSE Res("cont", "seg", Z, TripleCross(AB, AO, AB))

TriAB(A, B, AB, AO) ==
  IF Dot(AB, AO) >= 0 THEN Res("cont", "tri_to_ab", <<B, A>>, TripleCross(AB, AO, AB))
  ELSE Res("cont", "tri_to_a", <<A>>, AO)

Tri(Z) ==
  LET A == Z[3]  B == Z[2]  C == Z[1]
      AO == Neg(A)  AB == Sub(B, A)  AC == Sub(C, A)
      ABC == Cross(AB, AC)
  IN  IF InTri(Zero3, A, B, C) THEN Res("hit", "in_triangle", Z, Zero3)
      ELSE IF A = B \/ A = C THEN Res("miss", "degenerate_triangle", <<>>, Zero3)
      ELSE IF Dot(Cross(ABC, AC), AO) >= 0
      THEN IF Dot(AC, AO) >= 0 THEN Res("cont", "tri_to_ac", <<C, A>>, TripleCross(AC, AO, AC))
           ELSE TriAB(A, B, AB, AO)
      ELSE IF Dot(Cross(AB, ABC), AO) >= 0 THEN TriAB(A, B, AB, AO)
      ELSE IF Dot(ABC, AO) >= 0 THEN Res("cont", "tri_above", Z, ABC)
      ELSE Res("cont", "tri_below", <<B, C, A>>, Neg(ABC))

Tetra(Z) ==
  LET A == Z[4]  B == Z[3]  C == Z[2]  E == Z[1]
      AO == Neg(A)  AB == Sub(B, A)  AC == Sub(C, A)  AD == Sub(E, A)
      ABC == Cross(AB, AC)  ACD == Cross(AC, AD)  ADB == Cross(AD, AB)
      ABO == Sgn(Dot(ACD, AO)) = Sgn(Dot(ACD, AB))
      ACO == Sgn(Dot(ADB, AO)) = Sgn(Dot(ADB, AC))
      ADO == Sgn(Dot(ABC, AO)) = Sgn(Dot(ABC, AD))
  IN  IF InTri(A, B, C, E) THEN Res("miss", "degenerate_tetrahedron", <<>>, Zero3)
      ELSE IF InTri(Zero3, A, B, C) \/ InTri(Zero3, A, C, E) \/ InTri(Zero3, A, B, E) \/ InTri(Zero3, B, C, E)
      THEN Res("hit", "on_face", Z, Zero3)
      ELSE IF ABO /\ ACO /\ ADO THEN Res("hit", "in_tetrahedron", Z, Zero3)
      ELSE IF ~ABO THEN Tri(<<E, C, A>>)
      ELSE IF ~ACO THEN Tri(<<B, E, A>>)
      ELSE Tri(<<C, B, A>>)

Refine(Z) == IF Len(Z) = 2 THEN Line(Z) ELSE IF Len(Z) = 3 THEN Tri(Z) ELSE Tetra(Z)

Init == D \in Scenes /\ Y = <<>> /\ dir = Zero3 /\ st = "start" /\ why = "" /\ it = 0

(* first_vertex() of both colliders: any vertex pair *)
StartW(w) == /\ st = "start" /\ Y' = <<w>> /\ dir' = Neg(w) /\ st' = "run" /\ UNCHANGED <<D, why, it>>

StepW(w) ==
  /\ st = "run" /\ it < MaxIter /\ it' = it + 1 /\ UNCHANGED D
  /\ IF w = Zero3 THEN st' = "hit" /\ why' = "support_is_origin" /\ Y' = <<w>> /\ UNCHANGED dir
     ELSE IF Variant # "no_before_test" /\ Dot(w, dir) < 0 THEN st' = "miss" /\ why' = "before_origin" /\ UNCHANGED <<Y, dir>>
     ELSE LET r == Refine(Append(Y, w)) IN
          IF r.s = "cont" /\ r.dir = Zero3 THEN st' = "miss" /\ why' = "zero_direction" /\ Y' = r.Y /\ dir' = r.dir
          ELSE /\ st' = (IF r.s = "cont" THEN "run" ELSE r.s) /\ why' = r.why /\ Y' = r.Y /\ dir' = r.dir
Exhaust == st = "run" /\ it = MaxIter /\ st' = "miss" /\ why' = "exhausted" /\ UNCHANGED <<D, Y, dir, it>>

Start == \E w \in D : StartW(w)
Step  == \E w \in ArgMax(D, dir) : StepW(w)
Next  == Start \/ Step \/ Exhaust
Spec  == Init /\ [][Next]_vars

RECURSIVE SeqOf(_)
SeqOf(S) == IF S = {} THEN <<>> ELSE LET x == CHOOSE y \in S : TRUE IN <<x>> \o SeqOf(S \ {x})
Dseq == SeqOf(D)
AllIdx == [k \in 1..Len(Dseq) |-> k]
OriginInHull == InHullOf(Dseq, AllIdx, Zero3, 1)
Axes6 == {<<1, 0, 0>>, <<-1, 0, 0>>, <<0, 1, 0>>, <<0, -1, 0>>, <<0, 0, 1>>, <<0, 0, -1>>}
Deep == \A e \in Axes6 : InHullOf(Dseq, AllIdx, e, 2)          \* the octahedron of radius 1/2 is inside hull(D)

(* cheap sufficient witnesses first: on a hit the simplex itself contains the origin (the model keeps the whole
   simplex on a hit; the code's n_points is not part of the boolean answer); on a miss the last search direction
   usually separates the origin from D strictly *)
Idx(Z) == [k \in 1..Len(Z) |-> k]
SepWitness == dir # Zero3 /\ \A x \in D : Dot(dir, x) < 0
HitIsOverlap   == st = "hit" => (InHullOf(Y, Idx(Y), Zero3, 1) \/ OriginInHull)
MissIsNotDeep  == st = "miss" => (SepWitness \/ ~Deep)
NeverExhausted == why # "exhausted"
SimplexInD     == \A k \in DOMAIN Y : Y[k] \in D
=============================================================================
