SPECIFICATION Spec
CONSTANTS
  Scenes <- SmallSceneSet
  MaxIter = 12
  MaxSteps = 30
  Mode = "penetration"
  Variant = "expand_v1"
  R = 1
INVARIANT PortalOnBoundary
INVARIANT HitIsOverlap
INVARIANT PenNeverCapped
