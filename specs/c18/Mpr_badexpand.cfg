SPECIFICATION Spec
CONSTANTS
  TolNum = 0
  TolDen = 1
  Scenes <- SmallSceneSet
  MaxIter = 12
  MaxSteps = 30
  Mode = "penetration"
  Variant = "expand_v1"
  R = 1
INVARIANT PortalOnBoundary
INVARIANT HitIsOverlap
INVARIANT PenNeverCapped
