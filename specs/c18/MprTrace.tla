------------------------------ MODULE MprTrace ------------------------------
(* C02 / C08 / C19 - binds recorded runs of mpr_intersection / mpr_penetration on lattice polytopes to the
   explorer Mpr.  A recording proxy around both colliders logs center() and every support evaluation, so the
   trace holds v0 and the support point w = p - q of each evaluation.  The trace spec re-executes the model with
   the logged points (the mode, max_iterations and scale of each scene are trace fields, compared with the constants of
   the run: one TLC run per (mode, max_iterations, scale); scale 7 = the scene multiplied by 2^-7, exact in binary floating
   point, logged points multiplied back - the model then applies the absolute portal tolerance, see TolNum in Mpr.tla):
     scene   D, v0
     iter    w must be a maximiser of n . x over D and the model must still be running, then StepW(w)
     result  property clauses, decided on D alone:
               ClearGapFalse     answer TRUE only if the origin is in hull(D)                       (C02 / C08)
               DeepOverlapTrue   answer FALSE only if hull(D) does not contain the octahedron of radius 1/2
               DepthNonNegative  reported depth >= 0                                                 (C08)
             conformance clauses (drift - reported, not a violation):
               DRIFT_SupportPath, DRIFT_StopsWithModel, DRIFT_AnswerMatchesModel,
               DRIFT_DepthMatchesModel  depth^2 equals the squared distance of the origin to the model's final
                                        portal triangle (or |v1|^2 when the origin is on the v0-v1 segment) *)
EXTENDS Mpr, Json, IOUtils
T == ndJsonDeserialize(IOEnv.TRACE_FILE)
VARIABLES l, off
Ev == T[l]
Is(e) == l <= Len(T) /\ Ev.ev = e /\ l' = l + 1
Vec3(x) == <<x[1], x[2], x[3]>>
SetOfPts(s) == {Vec3(s[k]) : k \in DOMAIN s}
Reject(id, cl) == cl # {} => PrintT(<<"REJECT", id, cl>>)

TScene == /\ Is("scene")
          /\ D' = SetOfPts(Ev.D) /\ P' = <<Vec3(Ev.c), Zero3, Zero3, Zero3>>
          /\ n' = Neg(IF Vec3(Ev.c) = Zero3 THEN <<1, 0, 0>> ELSE Vec3(Ev.c))
          /\ ph' = "ray" /\ st' = "run" /\ why' = "" /\ it' = 0 /\ capped' = FALSE
          /\ off' = (Ev.mode # Mode \/ Ev.maxit # MaxIter \/ (Ev.scale = 0) # (TolNum = 0))
TIter  == /\ Is("iter")
          /\ LET w == Vec3(Ev.w) IN
             IF ~off /\ st = "run" /\ w \in ArgMax(D, n)
             THEN StepW(w) /\ off' = FALSE
             ELSE off' = TRUE /\ UNCHANGED vars
ModelDepth2 == IF why = "origin_on_v1" THEN <<0, 1>>
               ELSE IF why = "origin_on_segment" THEN <<Norm2(P[2]), 1>>
               ELSE MinNorm2(<<P[2], P[3], P[4]>>)
TResult == /\ Is("result")
           /\ LET followed == ~off /\ st \in {"hit", "miss"}
                  drift == {c \in {"DRIFT_SupportPath", "DRIFT_StopsWithModel", "DRIFT_AnswerMatchesModel", "DRIFT_DepthMatchesModel"} :
                             ~ CASE c = "DRIFT_SupportPath"        -> ~off
                                 [] c = "DRIFT_StopsWithModel"     -> off \/ st # "run"
                                 [] c = "DRIFT_AnswerMatchesModel" -> ~followed \/ (Ev.answer <=> st = "hit")
                                 [] c = "DRIFT_DepthMatchesModel"  -> ~followed \/ st # "hit" \/ Mode # "penetration" \/ ~Ev.answer
                                                                      \/ (Ev.recon /\ REq(ModelDepth2, <<Ev.d2n, Ev.d2d>>))}
                  inhull == IF followed /\ st = "hit" /\ InHullOf(P, <<1, 2, 3, 4>>, Zero3, 1) /\ CentreInHull THEN TRUE ELSE OriginInHull
                  notdeep == IF followed /\ st = "miss" /\ Supporting THEN TRUE ELSE ~Deep
                  prop == IF Ev.exc # "none" THEN {"NoException"}
                          ELSE (IF Ev.answer THEN (IF inhull THEN {} ELSE {"ClearGapFalse"})
                                ELSE (IF notdeep THEN {} ELSE {"DeepOverlapTrue"}))
                               \cup (IF Ev.answer /\ Ev.mode = "penetration" /\ Ev.depthneg THEN {"DepthNonNegative"} ELSE {})
              IN Reject(Ev.id, drift \cup prop)
           /\ UNCHANGED <<vars, off>>
TEnd   == Is("end") /\ PrintT(<<"JUDGED", Ev.count, 0>>) /\ UNCHANGED <<vars, off>>
TInit  == /\ D = {} /\ P = <<Zero3, Zero3, Zero3, Zero3>> /\ n = Zero3 /\ ph = "start" /\ st = "run" /\ why = "" /\ it = 0
          /\ capped = FALSE /\ l = 1 /\ off = FALSE
TNext  == TScene \/ TIter \/ TResult \/ TEnd
TSpec  == TInit /\ [][TNext]_<<vars, l, off>>
Consumed == TLCGet("stats").diameter - 1 = Len(T)
=============================================================================
