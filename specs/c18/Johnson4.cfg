SPECIFICATION Spec
CONSTANTS K = 4  C = 1  Variant = "lib"
INVARIANT BackupCorrect
