------------------------------- MODULE Johnson -------------------------------
(* C18 / C09 - EXPLORER for the backup procedure of the original GJK (gjk/_gjk_original.py: backup_procedure,
   _backup_procedure_line_segment / _face / _tetrahedron, BarycentricCoordinates.backup_xxx), transcribed in exact integer
   arithmetic on lattice points.

   The routine fills Johnson's table of unnormalised barycentric coordinates d[vertex, case] from the dot product table
   G[i][j] = y_i . y_j (0-based as in the code; cases 2 = segment 01, 4 = 02, 5 = 12, 6 = face 012, 8 = 03, 9 = 13, 10 = 23,
   11 = face 013, 12 = 023, 13 = 123, 14 = tetrahedron), then scans the candidates in a fixed order - vertex 0, the sub-simplices
   that contain vertex 0, the other vertices, the sub-simplices without vertex 0 - and replaces the incumbent whenever a
   candidate whose coordinates are all positive is STRICTLY closer (face 123 also on a tie with the tetrahedron).  The result is
   the ordered subset (simplex.reorder), the barycentric weights in that order and the point.  "x > EPSILON" (EPSILON = 10 eps)
   is "x > 0" on integers.

   Invariants for EVERY ordered tuple of 1..K lattice points with coordinates in -C..C (duplicates, collinear, coplanar
   included):
     WeightsValid   weights > 0 with a positive sum, one per reported vertex (a vertex candidate has weight 1)
     Reproduces     the point is the weighted mean of the reported vertices in the reported order
     BackupOptimal  KKT: the point is no farther from the origin than any y_i along itself - with Reproduces and
                    WeightsValid this makes it THE minimum-norm point of the hull
     NoZeroSum      no candidate that passes its positivity test has a zero coordinate sum (from_line_segment / from_face /
                    from_tetrahedron divide by it)
     SubsetMinimal  no proper sub-tuple of the reported subset among the candidates attains the same point
   Variant "lib" is the library.  Variants that must fail: "no_vertex_pass" (the other vertices are not scanned),
   "seg12_swapped" (weights of segment 12 in the order of its vertices).  ("nonstrict" - replacing the incumbent on a
   tie - is kept as a variant that does NOT break any clause for K <= 3: the strictness of the comparison is not what makes
   the scan correct.) *)
EXTENDS Integers, Sequences, FiniteSets, TLC, Vec
CONSTANTS K, C, Variant
VARIABLE Y
Coord == (-C)..C
Pts   == Coord \X Coord \X Coord
Init == Y = <<>>
Next == Len(Y) < K /\ \E p \in Pts : Y' = Append(Y, p)
Spec == Init /\ [][Next]_Y

G(Z, i, j) == Dot(Z[i + 1], Z[j + 1])
(* the table, as a record of the entries the scan reads; entries of higher cases are only defined for long enough tuples *)
Tab(Z) ==
  LET k == Len(Z)
      g(i, j) == IF i < k /\ j < k THEN G(Z, i, j) ELSE 0
      d12 == g(0,0) - g(1,0)   d02 == g(1,1) - g(1,0)
      d24 == g(0,0) - g(2,0)   e132 == g(1,0) - g(2,1)
      d26 == d02*d24 + d12*e132
      e123 == g(2,0) - g(2,1)  d04 == g(2,2) - g(2,0)
      d16 == d04*d12 + d24*e123
      e213 == -e123            d15 == g(2,2) - g(2,1)   d25 == g(1,1) - g(2,1)
      d06 == d15*d02 + d25*e213
      d38 == g(0,0) - g(3,0)   e142 == g(1,0) - g(3,1)
      d311 == d02*d38 + d12*e142
      e143 == g(2,0) - g(3,2)
      d312 == d04*d38 + d24*e143
      d314 == d06*d38 + d16*e142 + d26*e143
      e124 == g(3,0) - g(3,1)  e134 == g(3,0) - g(3,2)  d08 == g(3,3) - g(3,0)
      d111 == d08*d12 + d38*e124
      d212 == d08*d24 + d38*e134
      d19 == g(3,3) - g(3,1)   d39 == g(1,1) - g(3,1)   e214 == -e124
      d011 == d19*d02 + d39*e214
      d214 == d011*d24 + d111*e132 + d311*e134
      d210 == g(3,3) - g(3,2)  d310 == g(2,2) - g(3,2)  e314 == -e134
      d012 == d210*d04 + d310*e314
      d114 == d012*d12 + d212*e123 + d312*e124
      e243 == g(2,1) - g(3,2)
      d313 == d15*d39 + d25*e243
      e234 == g(3,1) - g(3,2)
      d213 == d19*d25 + d39*e234
      e324 == -e234
      d113 == d210*d15 + d310*e324
      d014 == d113*d02 + d213*e213 + d313*e214
  IN [d12 |-> d12, d02 |-> d02, d24 |-> d24, d04 |-> d04, d26 |-> d26, d16 |-> d16, d06 |-> d06, d15 |-> d15, d25 |-> d25,
      d38 |-> d38, d08 |-> d08, d311 |-> d311, d111 |-> d111, d011 |-> d011, d312 |-> d312, d212 |-> d212, d012 |-> d012,
      d314 |-> d314, d214 |-> d214, d114 |-> d114, d014 |-> d014, d19 |-> d19, d39 |-> d39, d210 |-> d210, d310 |-> d310,
      d313 |-> d313, d213 |-> d213, d113 |-> d113]

(* candidates in scan order: [ord |-> vertex indices (0-based) in reported order, w |-> weights in that order, vertex |-> BOOLEAN,
   tieWithTetra |-> BOOLEAN]; a sub-simplex candidate takes part only if all its weights are positive *)
Cand(ord, w) == [ord |-> ord, w |-> w, vertex |-> FALSE, tie |-> FALSE]
Vtx(i) == [ord |-> <<i>>, w |-> <<1>>, vertex |-> TRUE, tie |-> FALSE]
Scan(Z) ==
  LET t == Tab(Z)  k == Len(Z)
      others == IF Variant = "no_vertex_pass" THEN <<>> ELSE [i \in 1..(k - 1) |-> Vtx(i)]
      seg12 == IF Variant = "seg12_swapped" THEN Cand(<<2, 1>>, <<t.d15, t.d25>>) ELSE Cand(<<2, 1>>, <<t.d25, t.d15>>)
  IN CASE k = 1 -> <<Vtx(0)>>
       [] k = 2 -> <<Vtx(0), Cand(<<0, 1>>, <<t.d02, t.d12>>)>> \o others
       [] k = 3 -> <<Vtx(0), Cand(<<0, 1>>, <<t.d02, t.d12>>), Cand(<<0, 2>>, <<t.d04, t.d24>>),
                     Cand(<<0, 1, 2>>, <<t.d06, t.d16, t.d26>>)>> \o others \o <<seg12>>
       [] k = 4 -> <<Vtx(0), Cand(<<0, 1>>, <<t.d02, t.d12>>), Cand(<<0, 2>>, <<t.d04, t.d24>>),
                     Cand(<<0, 1, 2>>, <<t.d06, t.d16, t.d26>>), Cand(<<0, 3>>, <<t.d08, t.d38>>),
                     Cand(<<0, 1, 3>>, <<t.d011, t.d111, t.d311>>), Cand(<<0, 3, 2>>, <<t.d012, t.d312, t.d212>>),
                     Cand(<<0, 1, 2, 3>>, <<t.d014, t.d114, t.d214, t.d314>>)>>
                   \o others
                   \o <<seg12, Cand(<<3, 1>>, <<t.d39, t.d19>>), Cand(<<2, 3>>, <<t.d210, t.d310>>),
                        [Cand(<<3, 1, 2>>, <<t.d313, t.d113, t.d213>>) EXCEPT !.tie = TRUE]>>
Positive(c) == \A i \in DOMAIN c.w : c.w[i] > 0
WSum(c) == SumSeq(c.w)
PointOf(Z, c) == ReduceV(SumVec(c.w, [i \in DOMAIN c.ord |-> Z[c.ord[i] + 1]]), WSum(c))     \* <<vector, denominator>>
Dist2(Z, c) == LET p == PointOf(Z, c) IN RRed(<<Dot(p[1], p[1]), p[2]*p[2]>>)
RECURSIVE Run(_, _, _, _)
Run(Z, cs, i, best) ==
  IF i > Len(cs) THEN best
  ELSE LET c == cs[i] IN
       IF ~Positive(c) \/ WSum(c) = 0 THEN Run(Z, cs, i + 1, best)
       ELSE LET dc == Dist2(Z, c)  db == Dist2(Z, best)
                take == \/ RLt(dc, db)
                        \/ (Variant = "nonstrict" /\ REq(dc, db))
                        \/ (c.tie /\ Len(best.ord) = 4 /\ REq(dc, db))
            IN Run(Z, cs, i + 1, IF take THEN c ELSE best)
Backup(Z) == LET cs == Scan(Z) IN Run(Z, cs, 2, cs[1])

-----------------------------------------------------------------------------
(* all clauses of one result, computed once per state: the set of violated ones *)
Violated(Z) ==
  LET cs == Scan(Z)
      b  == Run(Z, cs, 2, cs[1])
      x  == PointOf(Z, b)
      ok(c) == CASE c = "WeightsValid" -> /\ Len(b.w) = Len(b.ord) /\ Positive(b) /\ WSum(b) > 0
                                          /\ \A i \in DOMAIN b.ord : b.ord[i] \in 0..(Len(Z) - 1)
                                          /\ Cardinality({b.ord[i] : i \in DOMAIN b.ord}) = Len(b.ord)
                 [] c = "Reproduces" -> Scale(WSum(b), x[1]) = Scale(x[2], SumVec(b.w, [i \in DOMAIN b.ord |-> Z[b.ord[i] + 1]]))
                 [] c = "BackupOptimal" -> \A i \in DOMAIN Z : x[2] * Dot(x[1], Z[i]) >= Dot(x[1], x[1])
                 [] c = "NoZeroSum" -> \A i \in DOMAIN cs : Positive(cs[i]) => WSum(cs[i]) > 0
                 \* the reported subset is never larger than needed: no proper sub-tuple of it among the candidates attains the point
                 [] c = "SubsetMinimal" -> \A i \in DOMAIN cs :
                        (Positive(cs[i]) /\ WSum(cs[i]) > 0 /\ Len(cs[i].ord) < Len(b.ord)
                         /\ {cs[i].ord[j] : j \in DOMAIN cs[i].ord} \subseteq {b.ord[j] : j \in DOMAIN b.ord})
                          => ~REq(Dist2(Z, cs[i]), Dist2(Z, b))
  IN {c \in {"WeightsValid", "Reproduces", "BackupOptimal", "NoZeroSum", "SubsetMinimal"} : ~ok(c)}
BackupCorrect == Y # <<>> => Violated(Y) = {}
(* for the failing variants: which clause breaks *)
WeightsValid   == Y # <<>> => "WeightsValid" \notin Violated(Y)
Reproduces     == Y # <<>> => "Reproduces" \notin Violated(Y)
BackupOptimal  == Y # <<>> => "BackupOptimal" \notin Violated(Y)
SubsetMinimal  == Y # <<>> => "SubsetMinimal" \notin Violated(Y)
=============================================================================
