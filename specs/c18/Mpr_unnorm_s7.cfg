SPECIFICATION Spec
CONSTANTS
  TolNum = 390625
  TolDen = 64
  Scenes <- SceneSet
  MaxIter = 12
  MaxSteps = 30
  Mode = "intersection"
  Variant = "unnormalised"
  R = 1
INVARIANT MissIsNotDeep
