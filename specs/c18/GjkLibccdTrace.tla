--------------------------- MODULE GjkLibccdTrace ---------------------------
(* C02 / C19 - binds recorded runs of gjk_intersection_libccd on lattice polytopes to the explorer GjkLibccd.
   A recording proxy around both colliders logs first_vertex() and every support evaluation, so the trace
   holds the first simplex point w0 and the support point w = p - q of each iteration.  The trace spec
   re-executes the model with the logged points:
     scene   D and w0: StartW(w0)
     iter    w must be a maximiser of dir . x over D and the model must still be running, then StepW(w)
     result  property clauses (C02), decided on D alone, never on the model's path:
               ClearGapFalse     answer TRUE only if the origin is in hull(D)
               DeepOverlapTrue   answer FALSE only if hull(D) does not contain the octahedron of radius 1/2
                                 (the model's separating direction or simplex is used as a cheap certificate
                                 when the run followed the model; otherwise the full hull test)
             drift clauses (the code took a path the model does not have - reported, not a violation):
               DRIFT_SupportPath, DRIFT_StopsWithModel, DRIFT_AnswerMatchesModel *)
EXTENDS GjkLibccd, Json, IOUtils
T == ndJsonDeserialize(IOEnv.TRACE_FILE)
VARIABLES l, off
Ev == T[l]
Is(e) == l <= Len(T) /\ Ev.ev = e /\ l' = l + 1
Vec3(x) == <<x[1], x[2], x[3]>>
SetOfPts(s) == {Vec3(s[k]) : k \in DOMAIN s}
Reject(id, cl) == cl # {} => PrintT(<<"REJECT", id, cl>>)

TScene == /\ Is("scene")
          /\ LET w0 == Vec3(Ev.w0) IN
             /\ D' = SetOfPts(Ev.D) /\ why' = "" /\ it' = 0
             /\ IF w0 \in SetOfPts(Ev.D) THEN Y' = <<w0>> /\ dir' = Neg(w0) /\ st' = "run" /\ off' = FALSE
                ELSE Y' = <<>> /\ dir' = Zero3 /\ st' = "start" /\ off' = TRUE
TIter  == /\ Is("iter")
          /\ LET w == Vec3(Ev.w) IN
             IF ~off /\ st = "run" /\ it < MaxIter /\ w \in ArgMax(D, dir)
             THEN StepW(w) /\ off' = FALSE
             ELSE off' = TRUE /\ UNCHANGED vars
TResult == /\ Is("result")
           /\ LET followed == ~off /\ st \in {"hit", "miss"}
                  drift == {c \in {"DRIFT_SupportPath", "DRIFT_StopsWithModel", "DRIFT_AnswerMatchesModel"} :
                             ~ CASE c = "DRIFT_SupportPath"        -> ~off
                                 [] c = "DRIFT_StopsWithModel"     -> off \/ st # "run"
                                 [] c = "DRIFT_AnswerMatchesModel" -> ~followed \/ (Ev.answer <=> st = "hit")}
                  inhull == IF followed /\ st = "hit" /\ InHullOf(Y, Idx(Y), Zero3, 1) /\ SimplexInD THEN TRUE ELSE OriginInHull
                  notdeep == IF followed /\ st = "miss" /\ SepWitness THEN TRUE ELSE ~Deep
                  prop == IF Ev.exc # "none" THEN {"NoException"}
                          ELSE IF Ev.answer THEN (IF inhull THEN {} ELSE {"ClearGapFalse"})
                          ELSE (IF notdeep THEN {} ELSE {"DeepOverlapTrue"})
              IN Reject(Ev.id, drift \cup prop)
           /\ UNCHANGED <<vars, off>>
TEnd   == Is("end") /\ PrintT(<<"JUDGED", Ev.count, 0>>) /\ UNCHANGED <<vars, off>>
TInit  == /\ D = {} /\ Y = <<>> /\ dir = Zero3 /\ st = "start" /\ why = "" /\ it = 0 /\ l = 1 /\ off = FALSE
TNext  == TScene \/ TIter \/ TResult \/ TEnd
TSpec  == TInit /\ [][TNext]_<<vars, l, off>>
Consumed == TLCGet("stats").diameter - 1 = Len(T)
=============================================================================
