------------------------------- MODULE GjkEpa -------------------------------
(* C07 - EXPLORER for epa.epa started from the simplex of gjk_distance_jolt (distance3d/epa.py:
   Polytope, LooseEdges), in exact arithmetic on lattice polytopes, composed with the GJK loop model.

   When the GJK model ends with "hit" and four simplex points, EPA starts from the faces ABC, ACD, ADB,
   BDC of the start tetrahedron, oriented first (OrientStart; as found the rows were taken as GJK left them).  One EpaStep = one iteration of epa():
     closest   ANY face with the smallest signed distance a.n/|n| (np.argmin on rounded values)
     w         ANY support point of D along the closest face's normal
     converge  if w.n - a.n <= 0 (the 1e-8 tolerance is an exact zero on the lattice): mtv = n (w.n)/(n.n)
     else      remove every face that faces w (swap-remove, index not advanced), collect its edges in the
               loose-edge list where an edge met again in reverse order cancels (swap-remove), then
               add one face per loose edge (e1, e2, w), skipping zero normals, flipping those whose
               a.n < 0 (fix_ccw_normal_direction)
   Normals are kept as primitive integer vectors (positive scaling changes no comparison).
   Checked on every start the GJK model can produce:
     EpaTerminates   converges within MaxEpaIter iterations, never exceeds 64 faces / 32 loose edges
     EpaDepthExact   |mtv|^2 equals the penetration depth^2 = min over the facets of conv(D) of offset^2/|n|^2
     FacesOnHull     every face vertex is a point of D
   ProperStart (the start tetrahedron has volume) is the precondition under which the library's design
   passes; GjkEpa_anystart.cfg drops it and TLC exhibits how a flat start simplex breaks EPA - the
   design-level form of C07's known finding. *)
EXTENDS GjkJolt
CONSTANTS ScenePairs,     \* set of <<A, B>>: vertex sequences of the two polytopes (B already translated)
          SupportTies,    \* "any": every maximiser; "order": the first maximal vertex of each array (ConvexHullVertices.support_function)
          SwapVariant,    \* fix_ccw_normal_direction: "aliased" = the code as written (temp is a numpy view, so after the
                          \* 'swap' both vertex 0 and vertex 1 hold the old vertex 1); "correct" = a real swap
          OrientStart,    \* TRUE = the library since fix 18911a2: the start tetrahedron is oriented (two rows swapped when its signed
                          \* volume is positive) before the four faces are built; FALSE = as found: faces from the rows as GJK left them
          MaxEpaIter, RequireProperStart, ClosestTies   \* "first": np.argmin on exact values; "any": every face of minimal distance
VARIABLES AB,       \* the two vertex sequences
          F,        \* polytope: sequence of faces [p |-> <<a, b, c>>, n |-> primitive normal]
          est,      \* "off" | "run" | "done" | "maxiter" | "overflow"
          eit, res  \* iteration count; result <<n, h>>: mtv = n * h / (n.n)
evars == <<AB, F, est, eit, res>>
allvars == <<vars, evars>>

Prim(n) == LET g == Gcd(Gcd(n[1], n[2]), n[3]) IN IF g = 0 THEN n ELSE <<n[1] \div g, n[2] \div g, n[3] \div g>>
Normal(a, b, c) == Prim(Cross(Sub(b, a), Sub(c, a)))
Face(a, b, c) == [p |-> <<a, b, c>>, n |-> Normal(a, b, c)]
(* signed distance of a face plane from the origin, x / sqrt(p); zero normal: 0 *)
FX(f) == Dot(f.p[1], f.n)
FP(f) == IF f.n = Zero3 THEN 1 ELSE Dot(f.n, f.n)
DLess(f, g) == LET x == FX(f)  p == FP(f)  y == FX(g)  q == FP(g) IN
               IF x >= 0 /\ y >= 0 THEN x * x * q < y * y * p
               ELSE IF x < 0 /\ y < 0 THEN x * x * q > y * y * p
               ELSE x < y
(* np.argmin over floating-point distances: exact ties are broken by rounding of the normalisation, so the model
   takes ANY face of minimal distance *)
MinAll(S) == { i \in DOMAIN S : \A j \in DOMAIN S : ~DLess(S[j], S[i]) }
MinFaces(S) == IF ClosestTies = "any" THEN MinAll(S) ELSE { CHOOSE i \in MinAll(S) : \A j \in MinAll(S) : i <= j }
Faces(f, w) == Dot(f.n, Sub(w, f.p[1])) > 0
SwapRemove(S, i) == IF i = Len(S) THEN SubSeq(S, 1, Len(S) - 1) ELSE [SubSeq(S, 1, Len(S) - 1) EXCEPT ![i] = S[Len(S)]]

(* add_removed_triangles_edges_to_list: the three edges of a removed face *)
RECURSIVE FindRev(_, _, _)
FindRev(E, e, k) == IF k > Len(E) THEN 0 ELSE IF E[k][2] = e[1] /\ E[k][1] = e[2] THEN k ELSE FindRev(E, e, k + 1)
AddEdge(E, e) == LET k == FindRev(E, e, 1) IN
                 IF k > 0 THEN SwapRemove(E, k) ELSE IF Len(E) >= 32 THEN E ELSE Append(E, e)
AddEdges(E, f) == AddEdge(AddEdge(AddEdge(E, <<f.p[1], f.p[2]>>), <<f.p[2], f.p[3]>>), <<f.p[3], f.p[1]>>)
(* find_triangles_facing_point_and_store_loose_edges *)
RECURSIVE Scan(_, _, _, _)
Scan(S, E, w, i) == IF i > Len(S) THEN <<S, E>>
                    ELSE IF Faces(S[i], w) THEN Scan(SwapRemove(S, i), AddEdges(E, S[i]), w, i)
                    ELSE Scan(S, E, w, i + 1)
(* extend_with_point *)
RECURSIVE Extend(_, _, _, _)
Extend(S, E, w, k) ==
  IF k > Len(E) THEN S
  ELSE LET f0 == Face(E[k][1], E[k][2], w) IN
       IF f0.n = Zero3 THEN Extend(S, E, w, k + 1)
       ELSE LET f == IF Dot(f0.p[1], f0.n) < 0
                      THEN [p |-> <<f0.p[2], IF SwapVariant = "aliased" THEN f0.p[2] ELSE f0.p[1], f0.p[3]>>, n |-> Neg(f0.n)]
                      ELSE f0
            IN Extend(Append(S, f), E, w, k + 1)

Det4(Z) == Triple(Sub(Z[2], Z[1]), Sub(Z[3], Z[1]), Sub(Z[4], Z[1]))
ProperStart(Z) == Len(Z) = 4 /\ Det4(Z) # 0

FirstMax(Z, d) == CHOOSE i \in DOMAIN Z : (\A j \in DOMAIN Z : Dot(d, Z[j]) <= Dot(d, Z[i])) /\ (\A j \in 1..(i - 1) : Dot(d, Z[j]) < Dot(d, Z[i]))
SupO(d) == Sub(AB[1][FirstMax(AB[1], d)], AB[2][FirstMax(AB[2], Neg(d))])
Sups(d) == IF SupportTies = "any" THEN ArgMax(D, d) ELSE {SupO(d)}
DiffSet(P) == {Sub(P[1][i], P[2][j]) : i \in DOMAIN P[1], j \in DOMAIN P[2]}
EInit == /\ AB \in ScenePairs /\ D = DiffSet(AB) /\ Y = <<>> /\ dir = <<1, 0, 0>> /\ v = IntPt(<<1, 0, 0>>)
         /\ prev = Inf /\ st = "run" /\ it = 0
         /\ F = <<>> /\ est = "off" /\ eit = 0 /\ res = <<Zero3, 0>>
GjkStep == st = "run" /\ it < MaxIter /\ (\E w \in Sups(dir) : StepW(w)) /\ UNCHANGED evars
EpaStart == /\ st = "hit" /\ est = "off" /\ Len(Y) = 4
            /\ (RequireProperStart => ProperStart(Y))
            /\ LET Z == IF OrientStart /\ Det4(Y) > 0 THEN <<Y[1], Y[3], Y[2], Y[4]>> ELSE Y IN
               F' = <<Face(Z[1], Z[2], Z[3]), Face(Z[1], Z[3], Z[4]), Face(Z[1], Z[4], Z[2]), Face(Z[2], Z[4], Z[3])>>
            /\ est' = "run" /\ eit' = 0 /\ UNCHANGED <<vars, res, AB>>
(* one iteration with the closest face c and the support point w *)
EpaStepCW(c, w) ==
  IF Dot(w, c.n) - FX(c) <= 0
  THEN est' = "done" /\ res' = <<c.n, Dot(w, c.n)>> /\ UNCHANGED <<vars, AB, F, eit>>
  ELSE LET sc == Scan(F, <<>>, w, 1)
           S2 == Extend(sc[1], sc[2], w, 1)
       IN IF Len(S2) > 64 THEN est' = "overflow" /\ UNCHANGED <<vars, AB, F, eit, res>>
          ELSE F' = S2 /\ eit' = eit + 1 /\ UNCHANGED <<vars, AB, est, res>>
EpaStep ==
  /\ est = "run"
  /\ IF eit >= MaxEpaIter THEN est' = "maxiter" /\ UNCHANGED <<vars, AB, F, eit, res>>
     ELSE \E ci \in MinFaces(F) : \E w \in Sups(F[ci].n) : EpaStepCW(F[ci], w)
ENext == GjkStep \/ EpaStart \/ EpaStep
ESpec == EInit /\ [][ENext]_allvars

(* ---- oracle: penetration depth^2 of the origin in conv(D), from the facets of the hull ---- *)
DSeqE == SeqOf(D)
FacetNormals == { n \in { Normal(a, b, c) : a \in D, b \in D, c \in D } :
                    n # Zero3 /\ \E h \in { Dot(n, x) : x \in D } : \A x \in D : Dot(n, x) <= h }
Offset(n) == CHOOSE h \in { Dot(n, x) : x \in D } : \A x \in D : Dot(n, x) <= h
(* a supporting normal is a facet normal if at least three non-collinear points of D attain the offset *)
IsFacet(n) == LET T == { x \in D : Dot(n, x) = Offset(n) } IN \E a \in T, b \in T, c \in T : Normal(a, b, c) # Zero3
DepthLe(n, m) == Offset(n) * Offset(n) * Dot(m, m) <= Offset(m) * Offset(m) * Dot(n, n)     \* offsets are >= 0 when the origin is inside
EpaTerminates == est \notin {"maxiter", "overflow"}
FacesOnHull   == \A k \in DOMAIN F : \A j \in 1..3 : F[k].p[j] \in D
(* holds on every path, whatever the tie-breaking: a converged run reports a supporting plane of conv(D) whose
   normal is a face normal of the polytope, i.e. translating by the vector separates the bodies (it may be longer
   than necessary) *)
DoneSupports == est = "done" => (res[1] # Zero3 /\ res[2] >= 0 /\ \A x \in D : Dot(res[1], x) <= res[2])
EpaDepthExact ==
  est = "done" =>
    LET n == res[1]  h == res[2]
        facets == { m \in FacetNormals : IsFacet(m) }
    IN /\ n # Zero3 /\ h >= 0
       /\ \A m \in facets : h * h * Dot(m, m) <= Offset(m) * Offset(m) * Dot(n, n)        \* no facet is closer
       /\ \A x \in D : Dot(n, x) <= h                                                       \* and the plane supports D
=============================================================================
