SPECIFICATION Spec
CONSTANTS K = 3  C = 1  Variant = "lib"
INVARIANT BackupCorrect
