SPECIFICATION TSpec
CONSTANTS
  Scenes = {}
  MaxIter = 1000
  Loop = "distance"
  Variant = "lib"
POSTCONDITION Consumed
CHECK_DEADLOCK FALSE
