SPECIFICATION Spec
CONSTANTS
  Scenes <- SmallSceneSet
  MaxIter = 14
  Variant = "no_before_test"
  R = 1
INVARIANT NeverExhausted
