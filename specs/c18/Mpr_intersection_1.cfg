SPECIFICATION Spec
CONSTANTS
  TolNum = 0
  TolDen = 1
  Scenes <- SceneSet
  MaxIter = 12
  MaxSteps = 30
  Mode = "intersection"
  Variant = "lib"
  R = 1
INVARIANT CentreOk
INVARIANT HitIsOverlap
INVARIANT MissIsNotDeep
INVARIANT Terminates
INVARIANT PortalInD
INVARIANT PortalOnBoundary
INVARIANT PenNeverCapped
