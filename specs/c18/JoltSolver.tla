---------------------------- MODULE JoltSolver ----------------------------
(* Explorer model: line-by-line transcription of the Jolt-style simplex solver
   (closest_point_line / _triangle / _tetrahedron, get_closest_point_to_origin in
   distance3d/gjk/_gjk_jolt.py) into exact rational arithmetic on lattice points.

   On integer input every quantity the code compares against EPSILON or
   EPSILON^2 is an integer, so "< EPSILON_SQR" is "= 0", ">= -EPSILON" is ">= 0".
   Points are rational vectors <<vn, vd>> (vd > 0); feature sets are sets of
   1-based indices (bit i-1 of the code's bit set). *)
EXTENDS Vec

RV(vn, vd) == IF vd < 0 THEN ReduceV(Neg(vn), -vd) ELSE ReduceV(vn, vd)
IntPt(a)   == <<a, 1>>
N2R(p)     == <<Dot(p[1], p[1]), p[2]*p[2]>>           \* squared norm as rational

(* closest_point_line(a, b): bits 1 = a, 2 = b *)
Line(a, b) ==
  LET ab == Sub(b, a)
      den == Dot(ab, ab)
  IN IF den = 0
     THEN \* degenerate segment: u,v = (1,0) if |a|^2 < |b|^2 else (0,1); then v <= 0 -> a, u <= 0 -> b
          IF Dot(a, a) < Dot(b, b) THEN <<IntPt(a), {1}>> ELSE <<IntPt(b), {2}>>
     ELSE LET vnum == -Dot(a, ab)                        \* v = vnum/den, u = 1 - v
          IN IF vnum <= 0 THEN <<IntPt(a), {1}>>
             ELSE IF den - vnum <= 0 THEN <<IntPt(b), {2}>>
             ELSE <<RV(Add(Scale(den - vnum, a), Scale(vnum, b)), den), {1, 2}>>

Remap(S, f) == {f[i] : i \in S}

(* closest_point_triangle(a, b, c): bits 1 = a, 2 = b, 3 = c *)
Tri(a, b, c) ==
  LET ab == Sub(b, a)  ac == Sub(c, a)  bc == Sub(c, b)
      n  == IF Dot(bc, bc) < Dot(ac, ac) THEN Cross(ab, bc) ELSE Cross(ab, ac)
      nl == Dot(n, n)
  IN
  IF nl = 0 THEN
     \* degenerate: best of the three edges, strict "<" keeps the earlier one on ties
     LET e1 == Line(a, b)
         e2 == Line(a, c)
         e3 == Line(b, c)
         s2 == Remap(e2[2], [i \in {1, 2} |-> IF i = 1 THEN 1 ELSE 3])
         s3 == Remap(e3[2], [i \in {1, 2} |-> i + 1])
         b1 == IF RLt(N2R(e2[1]), N2R(e1[1])) THEN <<e2[1], s2>> ELSE <<e1[1], e1[2]>>
         b2 == IF RLt(N2R(e3[1]), N2R(b1[1])) THEN <<e3[1], s3>> ELSE b1
     IN b2
  ELSE
     LET d1 == -Dot(ab, a)  d2 == -Dot(ac, a)
         d3 == -Dot(ab, b)  d4 == -Dot(ac, b)
         d5 == -Dot(ab, c)  d6 == -Dot(ac, c)
         vc == d1*d4 - d3*d2
         vb == d5*d2 - d1*d6
         va == d3*d6 - d5*d4
         d43 == d4 - d3
         d56 == d5 - d6
     IN
     IF d1 <= 0 /\ d2 <= 0 THEN <<IntPt(a), {1}>>
     ELSE IF d3 >= 0 /\ d4 <= d3 THEN <<IntPt(b), {2}>>
     ELSE IF vc <= 0 /\ 0 <= d1 /\ d3 <= 0
          THEN <<RV(Add(Scale(d1 - d3, a), Scale(d1, ab)), d1 - d3), {1, 2}>>
     ELSE IF d6 >= 0 /\ d5 <= d6 THEN <<IntPt(c), {3}>>
     ELSE IF vb <= 0 /\ 0 <= d2 /\ d6 <= 0
          THEN <<RV(Add(Scale(d2 - d6, a), Scale(d2, ac)), d2 - d6), {1, 3}>>
     ELSE IF va <= 0 /\ 0 <= d43 /\ d56 >= 0
          THEN <<RV(Add(Scale(d43 + d56, b), Scale(d43, bc)), d43 + d56), {2, 3}>>
     ELSE <<RV(Scale(Dot(Add(Add(a, b), c), n), n), 3 * nl), {1, 2, 3}>>

(* origin_outside_of_tetrahedron_planes: planes ABC, ACD, ADB, BDC *)
OutPlanes(a, b, c, d) ==
  LET ab == Sub(b, a)  ac == Sub(c, a)  ad == Sub(d, a)  bd == Sub(d, b)  bc == Sub(c, b)
      abac == Cross(ab, ac)  acad == Cross(ac, ad)  adab == Cross(ad, ab)  bdbc == Cross(bd, bc)
      sp == <<Dot(a, abac), Dot(a, acad), Dot(a, adab), Dot(b, bdbc)>>
      sd == <<Dot(ad, abac), Dot(ab, acad), Dot(ac, adab), -Dot(ab, bdbc)>>
  IN IF \A i \in 1..4 : sd[i] > 0 THEN [i \in 1..4 |-> sp[i] >= 0]
     ELSE IF \A i \in 1..4 : sd[i] < 0 THEN [i \in 1..4 |-> sp[i] <= 0]
     ELSE [i \in 1..4 |-> TRUE]

(* closest_point_tetrahedron.  best = <<point, set, haveDist>>; initially the
   origin with all four bits and best_dist_sq = MAX_FLOAT (haveDist = FALSE) *)
Tet(a, b, c, d) ==
  LET out == OutPlanes(a, b, c, d)
      Better(q, best) == ~best[3] \/ RLt(N2R(q), N2R(best[1]))
      s0 == <<IntPt(Zero3), {1, 2, 3, 4}, FALSE>>
      t1 == Tri(a, b, c)
      s1 == IF out[1] THEN <<t1[1], t1[2], TRUE>> ELSE s0
      t2 == Tri(a, c, d)
      s2 == IF out[2] /\ Better(t2[1], s1)
            THEN <<t2[1], Remap(t2[2], [i \in 1..3 |-> IF i = 1 THEN 1 ELSE i + 1]), TRUE>> ELSE s1
      t3 == Tri(a, d, b)
      s3 == IF out[3] /\ Better(t3[1], s2)
            THEN <<t3[1], Remap(t3[2], [i \in 1..3 |-> IF i = 1 THEN 1 ELSE IF i = 2 THEN 4 ELSE 2]), TRUE>> ELSE s2
      t4 == Tri(b, d, c)
      \* the last face does not update best_dist_sq in the code; nothing follows it
      s4 == IF out[4] /\ Better(t4[1], s3)
            THEN <<t4[1], Remap(t4[2], [i \in 1..3 |-> IF i = 1 THEN 2 ELSE IF i = 2 THEN 4 ELSE 3]), TRUE>> ELSE s3
  IN <<s4[1], s4[2]>>

(* get_closest_point_to_origin(Y, n, inf) *)
Jolt(Y) ==
  CASE Len(Y) = 1 -> <<IntPt(Y[1]), {1}>>
    [] Len(Y) = 2 -> Line(Y[1], Y[2])
    [] Len(Y) = 3 -> Tri(Y[1], Y[2], Y[3])
    [] Len(Y) = 4 -> Tet(Y[1], Y[2], Y[3], Y[4])
=============================================================================
