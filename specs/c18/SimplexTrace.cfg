INIT Init
NEXT Next
