SPECIFICATION TSpec
CONSTANTS
  Scenes = {}
  ScenePairs = {}
  SupportTies = "any"
  MaxIter = 1000
  Loop = "distance"
  Variant = "lib"
  SwapVariant = "aliased"
  OrientStart = TRUE
  MaxEpaIter = 1000
  RequireProperStart = TRUE
  ClosestTies = "any"
POSTCONDITION Consumed
CHECK_DEADLOCK FALSE
