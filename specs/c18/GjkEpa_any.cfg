SPECIFICATION ESpec
CONSTANTS
  Scenes = {}
  ScenePairs <- EPairs
  SupportTies = "order"
  MaxIter = 12
  Loop = "distance"
  Variant = "lib"
  SwapVariant = "aliased"
  MaxEpaIter = 10
  RequireProperStart = TRUE
  ClosestTies = "any"
  R = 1
INVARIANT FacesOnHull
INVARIANT DoneSupports
