SPECIFICATION ESpec
CONSTANTS
  Scenes = {}
  ScenePairs <- EPairs
  SupportTies = "order"
  MaxIter = 12
  Loop = "distance"
  Variant = "lib"
  SwapVariant = "aliased"
  OrientStart = TRUE
  MaxEpaIter = 12
  RequireProperStart = TRUE
  ClosestTies = "any"
  R = 1
INVARIANT FacesOnHull
INVARIANT DoneSupports
INVARIANT EpaTerminates
INVARIANT EpaDepthExact
