SPECIFICATION Spec
CONSTANTS K = 3  C = 1  Variant = "seg12_swapped"
INVARIANT BackupCorrect
