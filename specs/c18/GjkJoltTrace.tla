---------------------------- MODULE GjkJoltTrace ----------------------------
(* C01 / C19 - binds recorded runs of gjk_distance_jolt on lattice polytopes to the loop explorer GjkJolt.
   A recording proxy around both colliders logs every support evaluation, so the trace holds the support
   point w = p - q of each iteration.  The trace spec re-executes the loop model with the logged w:
     iter    w must be a maximiser of dir . x over D and the model must still be running, then StepW(w)
     result  the model must have finished in the same iteration, with the same verdict, the same squared
             distance (exact rational; the harness reconstructs it from the float result) and the same
             number of simplex points
   DistanceMatches is the property's clause (C01: d equals the true minimum, which the model's invariants
   MissIsOptimal / HitIsOverlap establish for the model's result); the other clauses say that the code took
   a path the model does not have - model drift, reported but not a violation. *)
EXTENDS GjkJolt, Json, IOUtils
T == ndJsonDeserialize(IOEnv.TRACE_FILE)
VARIABLES l, off            \* position; the run left the model (drift already recorded for this scene)
Ev == T[l]
Is(e) == l <= Len(T) /\ Ev.ev = e /\ l' = l + 1
Vec3(x) == <<x[1], x[2], x[3]>>
SetOfPts(s) == {Vec3(s[k]) : k \in DOMAIN s}
Reject(id, cl) == cl # {} => PrintT(<<"REJECT", id, cl>>)

TScene == /\ Is("scene")
          /\ D' = SetOfPts(Ev.D) /\ Y' = <<>> /\ dir' = <<1, 0, 0>> /\ v' = IntPt(<<1, 0, 0>>)
          /\ prev' = Inf /\ st' = "run" /\ it' = 0 /\ off' = FALSE
TIter  == /\ Is("iter")
          /\ LET w == Vec3(Ev.w) IN
             IF ~off /\ st = "run" /\ w \in ArgMax(D, dir)
             THEN StepW(w) /\ off' = FALSE
             ELSE off' = TRUE /\ UNCHANGED vars
TResult == /\ Is("result")
           /\ LET vv == N2R(v)
                  drift == {c \in {"DRIFT_SupportPath", "DRIFT_StopsWithModel", "DRIFT_SimplexSize"} :
                             ~ CASE c = "DRIFT_SupportPath"    -> ~off
                                 [] c = "DRIFT_StopsWithModel" -> off \/ st # "run"
                                 [] c = "DRIFT_SimplexSize"    -> (off \/ st = "run") \/ Len(Y) = Ev.rows}
                  prop  == IF ~off /\ st # "run" /\ ~(Ev.exc = "none" /\ Ev.recon /\ REq(vv, <<Ev.d2n, Ev.d2d>>))
                           THEN {"DistanceMatches"} ELSE {}
              IN Reject(Ev.id, drift \cup prop \cup (IF Ev.exc = "none" THEN {} ELSE {"NoException"}))
           /\ UNCHANGED <<vars, off>>
TEnd   == Is("end") /\ PrintT(<<"JUDGED", Ev.count, 0>>) /\ UNCHANGED <<vars, off>>
TInit  == /\ D = {} /\ Y = <<>> /\ dir = <<1, 0, 0>> /\ v = IntPt(<<1, 0, 0>>) /\ prev = Inf /\ st = "run" /\ it = 0
          /\ l = 1 /\ off = FALSE
TNext  == TScene \/ TIter \/ TResult \/ TEnd
TSpec  == TInit /\ [][TNext]_<<vars, l, off>>
Consumed == TLCGet("stats").diameter - 1 = Len(T)
=============================================================================
