SPECIFICATION Spec
CONSTANTS K = 4  C = 1
INVARIANT Exists
INVARIANT Unique
INVARIANT DenBound
INVARIANT JoltCorrect
