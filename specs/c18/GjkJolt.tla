------------------------------- MODULE GjkJolt -------------------------------
(* C01 / C02 / C19 - EXPLORER for the loops of gjk_distance_jolt and gjk_intersection_jolt
   (distance3d/gjk/_gjk_jolt.py: _distance_loop, _intersection_loop, get_closest_point_to_origin,
   update_simplex_y, update_simplex_ypq), in exact rational arithmetic on lattice polytopes.

   D is the finite set { p - q : p vertex of A, q vertex of B } (support points of the Minkowski
   difference are always of this form).  One step = one iteration of the while loop:
     w  := a support point of D along the search direction (ANY maximiser: the library's choice among
           ties depends on vertex order and rounding, so the model takes every one)
     Y  := Y + w;  (v, set) := Jolt(Y)           the simplex solver transcribed in JoltSolver.tla (C18)
     success := |v|^2 < prev                      (get_closest_point_to_origin)
     distance loop: on failure the last point is dropped and the old v is kept
     exit "hit"  : set = all four points, or v = 0      (tolerances are exact zeros on the lattice)
     exit "miss" : no progress (prev - |v|^2 <= 0);  intersection loop also: dir . w < 0
     otherwise   : Y := Y restricted to set, dir := -v, prev := |v|^2
   Checked for every pair of shapes, every lattice offset and every tie-breaking choice:
     Terminates        no run reaches MaxIter iterations
     HitIsOverlap      "hit" only if the origin is in the hull of D (certificate: v = 0 on a sub-simplex
                       of D, or the origin is in the hull of the four simplex points)
     MissIsOptimal     "miss" of the distance loop only with v the minimum-norm point of hull(D) (KKT over D)
     MissIsSeparated   "miss" of the intersection loop only if the origin is not in the hull of D
     SimplexInD        every simplex point is a point of D, no duplicates
   FullSimplexOnHit (hit => four simplex points) is NOT an invariant: TLC reports how GJK ends with fewer
   than four points on touching / flat overlaps - the input pattern of C07's known finding. *)
EXTENDS MinNorm, JoltSolver, TLC
CONSTANTS Scenes,        \* set of point sets D
          MaxIter, Loop, \* "distance" | "intersection"
          Variant        \* "lib" | "weak_progress" (convergence exit only on a strict increase: must fail Terminates)
VARIABLES D, Y, dir, v, prev, st, it
vars == <<D, Y, dir, v, prev, st, it>>
Inf == <<1, 0>>                                   \* "MAX_FLOAT": RLt(x, Inf) holds for every rational x
RLtI(p, q) == IF q = Inf THEN TRUE ELSE IF p = Inf THEN FALSE ELSE RLt(p, q)
ArgMax(S, d) == {w \in S : \A u \in S : Dot(d, u) <= Dot(d, w)}
AscTuple(S) ==
  LET n == Cardinality(S)
      rank(i) == Cardinality({j \in S : j < i}) + 1
  IN  [p \in 1..n |-> CHOOSE i \in S : rank(i) = p]
Restrict(Z, S) == LET t == AscTuple(S) IN [k \in DOMAIN t |-> Z[t[k]]]
RECURSIVE SeqOf(_)
SeqOf(S) == IF S = {} THEN <<>> ELSE LET x == CHOOSE y \in S : TRUE IN <<x>> \o SeqOf(S \ {x})

Init == /\ D \in Scenes /\ Y = <<>> /\ dir = <<1, 0, 0>> /\ v = IntPt(<<1, 0, 0>>)
        /\ prev = Inf /\ st = "run" /\ it = 0

StepW(w) ==
       IF Loop = "intersection" /\ Dot(dir, w) < 0
       THEN st' = "miss" /\ UNCHANGED <<D, Y, dir, v, prev>> /\ it' = it + 1
       ELSE
       LET Y2  == Append(Y, w)
           j   == Jolt(Y2)
           vv2 == N2R(j[1])
           ok  == RLtI(vv2, prev)
           vn  == IF ok THEN j[1] ELSE v
           set == IF ok THEN j[2] ELSE 1..Len(Y)
           Yn  == IF ok THEN Restrict(Y2, set) ELSE Y
           vvn == N2R(vn)
       IN /\ it' = it + 1 /\ UNCHANGED D
          /\ IF Loop = "intersection" /\ ~ok
             THEN st' = "miss" /\ UNCHANGED <<Y, dir, v, prev>>
             ELSE IF set = {1, 2, 3, 4}
             THEN st' = "hit" /\ Y' = Y2 /\ v' = IntPt(Zero3) /\ UNCHANGED <<dir, prev>>
             ELSE IF vn[1] = Zero3
             THEN st' = "hit" /\ Y' = Yn /\ v' = vn /\ UNCHANGED <<dir, prev>>
             ELSE IF (IF Variant = "lib" THEN ~RLtI(vvn, prev) ELSE RLtI(prev, vvn))   \* prev - |v|^2 <= 0: converged
             THEN st' = "miss" /\ Y' = Yn /\ v' = vn /\ dir' = Neg(vn[1]) /\ UNCHANGED prev
             ELSE st' = "run" /\ Y' = Yn /\ v' = vn /\ dir' = Neg(vn[1]) /\ prev' = vvn
Step == st = "run" /\ it < MaxIter /\ \E w \in ArgMax(D, dir) : StepW(w)
Next == Step
Spec == Init /\ [][Next]_vars

Dseq == SeqOf(D)
OriginInHull(Z) == InHullOf(Z, [k \in 1..Len(Z) |-> k], Zero3, 1)      \* Caratheodory: some affinely independent sub-tuple
Terminates      == ~(st = "run" /\ it >= MaxIter)
SimplexInD      == /\ \A k \in DOMAIN Y : Y[k] \in D
                   /\ (st = "run" => \A a, b \in DOMAIN Y : a # b => Y[a] # Y[b])
HitIsOverlap    == st = "hit" => OriginInHull(Y)
MissIsOptimal   == (st = "miss" /\ Loop = "distance") =>
                     /\ \A w \in D : v[2] * Dot(v[1], w) >= Dot(v[1], v[1])          \* KKT over all of D
                     /\ InHullOf(Y, AscTuple(1..Len(Y)), v[1], v[2])
MissIsSeparated == (st = "miss" /\ Loop = "intersection") => ~OriginInHull(Dseq)
FullSimplexOnHit == st = "hit" => Len(Y) = 4
=============================================================================
