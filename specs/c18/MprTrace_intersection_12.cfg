SPECIFICATION TSpec
CONSTANTS
  Scenes = {}
  MaxIter = 12
  MaxSteps = 400
  Mode = "intersection"
  Variant = "lib"
POSTCONDITION Consumed
CHECK_DEADLOCK FALSE
