--------------------------- MODULE SimplexTrace ---------------------------
(* Binds recorded calls of the real solvers to SimplexJudge (C18). *)
EXTENDS SimplexJudge, TLC, Json, IOUtils

T == ndJsonDeserialize(IOEnv.TRACE_FILE)
(* conformance with the explorer Johnson.tla (backup procedure of the original GJK): on lattice input the real routine reports
   the ordered subset and the point of the model's candidate scan.  A difference is drift (an exact tie between two candidates
   can be broken by the rounding of the normalised weights), never a verdict. *)
J == INSTANCE Johnson WITH K <- 4, C <- 1, Variant <- "lib", Y <- <<>>
V3s(Z) == [i \in DOMAIN Z |-> <<Z[i][1], Z[i][2], Z[i][3]>>]
JohnsonDrift(r) ==
  IF r.tier = 1 /\ r.solver = "johnson" /\ r.exc = "none" /\ r.recon
  THEN LET k == Len(r.Y)
           \* SimplexInfo.add_new_point moves the first point to the last spot and puts the new one first: after the harness has
           \* added Y1 .. Yk the routine sees them in this order
           perm == CASE k = 1 -> <<1>> [] k = 2 -> <<2, 1>> [] k = 3 -> <<3, 1, 2>> [] k = 4 -> <<4, 1, 2, 3>>
           Z == [i \in 1..k |-> <<r.Y[perm[i]][1], r.Y[perm[i]][2], r.Y[perm[i]][3]>>]
           b == J!Backup(Z)  p == J!PointOf(Z, b)
           ord == [i \in DOMAIN b.ord |-> perm[b.ord[i] + 1]] IN
       IF r.S = ord /\ Scale(p[2], <<r.xn[1], r.xn[2], r.xn[3]>>) = Scale(r.xd, p[1]) THEN {} ELSE {"DRIFT_JohnsonMatchesModel"}
  ELSE {}
F(r) == (IF r.tier = 3 THEN FFailing(r) ELSE Failing(r)) \cup JohnsonDrift(r)
BadIdx == {i \in 1..Len(T) : F(T[i]) # {}}
ASSUME /\ \A i \in BadIdx : PrintT(<<"REJECT", T[i].id, F(T[i])>>)
       /\ PrintT(<<"JUDGED", Len(T), Cardinality(BadIdx)>>)
VARIABLE dummy
Init == dummy = 0
Next == UNCHANGED dummy
=============================================================================
