SPECIFICATION ESpec
CONSTANTS
  Scenes = {}
  ScenePairs <- EPairs
  SupportTies = "order"
  MaxIter = 12
  Loop = "distance"
  Variant = "lib"
  SwapVariant = "aliased"
  OrientStart = TRUE
  MaxEpaIter = 12
  RequireProperStart = TRUE
  ClosestTies = "first"
  R = 1
INVARIANT EpaTerminates
INVARIANT FacesOnHull
INVARIANT EpaDepthExact
