SPECIFICATION Spec
CONSTANTS
  TolNum = 0
  TolDen = 1
  Scenes <- AliasSceneSet
  MaxIter = 12
  MaxSteps = 30
  Mode = "penetration"
  Variant = "aliased_swap"
  R = 2
INVARIANT ContactCommonPoint
