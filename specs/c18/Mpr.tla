--------------------------------- MODULE Mpr ---------------------------------
(* C02 / C08 / C19 - EXPLORER for Minkowski portal refinement (distance3d/mpr.py: _discover_portal,
   _find_origin_ray, _find_support_in_direction_of_origin_ray,
   _find_support_perpendicular_to_plane_containing_origin_v01,
   _search_direction_perpendicular_to_plane_containing_v012, _iterate_discover_portal, _refine_portal,
   _expand_portal, _find_penetration_info), in exact integer arithmetic on lattice polytopes.

   The code normalises every search direction; all its decisions are signs of  x . dir  against EPSILON or
   10 EPSILON, or (for the portal tolerance 1e-4) of differences of such products.  With integer points and an
   integer normal n of length below 1e4, "x . dir < EPSILON" is "x . n <= 0", "x . dir > -10 EPSILON" is
   "x . n >= 0" and "(w - v) . dir < 1e-4 + EPSILON" is "(w - v) . n <= 0".  The model therefore keeps the
   unnormalised integer normal.  Support points along n are ANY maximiser over D (all tie-breaks).

   D   = { p - q : p vertex of A, q vertex of B };   v0 = centre(A) - centre(B), an interior point of hull(D)
         (scenes are built from shapes with lattice centres).  When v0 is the origin the code moves it to
         (10 EPSILON, 0, 0): the model keeps v0 = 0 as a position and uses e1 wherever only the direction of v0
         matters (v0d); the test |v0 x v1|^2 < EPSILON is then always true.
   P   = <<v0, v1, v2, v3>> the portal;  ph = phase: "ray" "perp" "discover" "refine" "pen";  one action per
         support evaluation.
   Mode "intersection" = mpr_intersection;  "penetration" = mpr_penetration (continues after the hit with
         _find_penetration_info until the portal reaches the boundary or the iteration cap).

   Checked for every pair of shapes, lattice offset and tie-break:
     HitIsOverlap      "hit" only if the origin is in hull(D)
     MissIsNotDeep     "miss" only if hull(D) does not contain the octahedron of radius 1/2 about the origin
     Terminates        no phase runs MaxSteps support evaluations (the refine loop of the code has no cap)
     PenNeverCapped    the iteration cap of _find_penetration_info is never the reason to stop
     (NeverCapped, the same for the discover loop, does NOT hold - see below)
     PortalInD         portal points 1..3 are points of D
     PortalOnBoundary  (penetration) the final portal plane supports D: x . n <= v1 . n for all x in D, so the
                       closest point of the portal triangle is a boundary point of hull(D): translating by it
                       leaves touching contact, and its length is at least the penetration depth (C08)
   Variant "lib" is the library.  "aliased_swap" is the library as found before its repair: the "swap" of v1 and
   v2 in _swap_vertices duplicated v2 (numpy views as temporaries).  Trace validation found it - 114 of 604 recorded
   runs left the first version of this model exactly at that step - and TLC shows what it breaks: the origin ray no
   longer passes through the portal, ContactCommonPoint fails (must fail: vacuity guard), which is C08's known
   finding "contact position outside the colliders" on touching pairs, repaired by a fix: commit.
   "unnormalised" (scaled scenes only) uses the raw cross product in the
   portal tolerance test - the absolute tolerance then scales with the portal area and overlapping pairs are missed: must
   violate MissIsNotDeep; "expand_v1" always replaces portal point 1 when the portal is expanded
   and must violate PenNeverCapped; "no_reach_test" drops the portal tolerance exit of the refine loop - on polytopes
   the exit "support point behind the origin" already covers it, so that variant passes (the tolerance matters for
   smooth shapes only). *)
EXTENDS MinNorm, TLC
CONSTANTS TolNum, TolDen, \* portal tolerance of a SCALED scene: the lattice scene multiplied by s = 2^-k (exact in binary floating
                         \* point, so every sign decision is the lattice decision) meets the absolute mpr_tolerance = 1e-4:
                         \* (w - v) . dir < 1e-4  <=>  d * s / |n| < 1e-4  <=>  d^2 * TolNum < TolDen * |n|^2  with
                         \* TolNum / TolDen = (s / 1e-4)^2  (k = 7: 390625 / 64).  TolNum = 0: unit scale, the tolerance is
                         \* below every non-zero lattice value and the test is d <= 0.
          Scenes,        \* set of records [D |-> set of points, c |-> v0]
          MaxIter,       \* max_iterations of the code (100)
          MaxSteps,      \* model bound on support evaluations per phase (Terminates)
          Mode, Variant
VARIABLES D, P, n, ph, st, why, it, capped
vars == <<D, P, n, ph, st, why, it, capped>>

ArgMax(S, d) == {w \in S : \A u \in S : Dot(d, u) <= Dot(d, w)}
V0d == IF P[1] = Zero3 THEN <<1, 0, 0>> ELSE P[1]
PortalDir(Q) == Cross(Sub(Q[3], Q[2]), Sub(Q[4], Q[2]))
Set(Q, i, w) == [Q EXCEPT ![i] = w]

Init == /\ \E s \in Scenes : D = s.D /\ P = <<s.c, Zero3, Zero3, Zero3>>
        /\ n = Zero3 /\ ph = "start" /\ st = "run" /\ why = "" /\ it = 0 /\ capped = FALSE

Begin == /\ ph = "start" /\ ph' = "ray" /\ n' = Neg(V0d) /\ UNCHANGED <<D, P, st, why, it, capped>>

Stop(s, y) == st' = s /\ why' = y

(* entering the refine loop: the test before the support evaluation *)
EnterRefine(Q) ==
  LET m == PortalDir(Q) IN
  IF Dot(Q[2], m) >= 0
  THEN IF Mode = "penetration"
       THEN /\ ph' = "pen" /\ n' = m /\ P' = Q /\ it' = 0 /\ UNCHANGED <<st, why>>
       ELSE /\ Stop("hit", "encapsulated") /\ n' = m /\ P' = Q /\ UNCHANGED <<ph, it>>
  ELSE /\ ph' = "refine" /\ n' = m /\ P' = Q /\ it' = 0 /\ UNCHANGED <<st, why>>

Expand(Q, w) ==
  LET c == Cross(w, V0d) IN
  IF Variant = "expand_v1" THEN Set(Q, 2, w) ELSE
  IF Dot(Q[2], c) > 0
  THEN IF Dot(Q[3], c) > 0 THEN Set(Q, 2, w) ELSE Set(Q, 4, w)
  ELSE IF Dot(Q[4], c) > 0 THEN Set(Q, 3, w) ELSE Set(Q, 2, w)

WithinTol(d, m) == d <= 0 \/ (TolNum > 0 /\ d <= 64 /\ d * d * TolNum < TolDen * Dot(m, m))
UnnormTol(d) == d <= 209          \* variant "unnormalised" at k = 7: the raw cross product is s^2 |n| long, the test becomes d s^3 < 1e-4
ReachTol(Q, w, m) == \E i \in 2..4 : LET d == Dot(Sub(w, Q[i]), m) IN
                                       IF Variant = "unnormalised" /\ TolNum > 0 THEN UnnormTol(d) ELSE WithinTol(d, m)

StepRay(w) ==
  /\ ph = "ray" /\ UNCHANGED <<D, it, capped>>
  /\ IF w # Zero3 /\ Dot(w, n) <= 0
     THEN Stop("miss", "outside_v1") /\ P' = Set(P, 2, w) /\ UNCHANGED <<n, ph>>
     ELSE LET c == Cross(V0d, w) IN
          IF P[1] = Zero3 \/ c = Zero3
          THEN /\ Stop("hit", IF w = Zero3 THEN "origin_on_v1" ELSE "origin_on_segment")
               /\ P' = Set(P, 2, w) /\ UNCHANGED <<n, ph>>
          ELSE ph' = "perp" /\ n' = c /\ P' = Set(P, 2, w) /\ UNCHANGED <<st, why>>

StepPerp(w) ==
  /\ ph = "perp" /\ UNCHANGED <<D, capped>>
  /\ IF Dot(w, n) <= 0
     THEN Stop("miss", "outside_v2") /\ P' = Set(P, 3, w) /\ UNCHANGED <<n, ph, it>>
     ELSE LET m == Cross(Sub(P[2], P[1]), Sub(w, P[1])) IN
          /\ ph' = "discover" /\ it' = 0 /\ UNCHANGED <<st, why>>
          /\ IF Dot(m, P[1]) > 0
             THEN /\ n' = Neg(m)
                  \* _swap_vertices.  As found, "tmp = v[idx1]" was a numpy VIEW, so v[idx1] = v[idx2] also changed tmp
                  \* and v[idx2] = tmp wrote v[idx2] onto itself: both rows ended up as the old v[idx2] (= w).
                  /\ P' = IF Variant = "aliased_swap" THEN <<P[1], w, w, P[4]>> ELSE <<P[1], w, P[2], P[4]>>
             ELSE P' = Set(P, 3, w) /\ n' = m

StepDisc(w) ==
  /\ ph = "discover" /\ UNCHANGED D
  /\ IF Dot(w, n) <= 0
     THEN Stop("miss", "outside_v3") /\ P' = Set(P, 4, w) /\ UNCHANGED <<n, ph, it, capped>>
     ELSE LET Q  == Set(P, 4, w)
              o1 == Dot(Cross(Q[2], w), V0d) <= 0
              o2 == Dot(Cross(w, Q[3]), V0d) <= 0
              Q2 == IF o1 THEN Set(Q, 3, w) ELSE IF o2 THEN Set(Q, 2, w) ELSE Q
          IN IF o1 \/ o2
             THEN IF it + 1 >= MaxIter
                  THEN EnterRefine(Q2) /\ capped' = TRUE      \* the code goes on with the portal as it is (v3 repeats v1 or v2)
                  ELSE /\ P' = Q2 /\ n' = Cross(Sub(Q2[2], Q2[1]), Sub(Q2[3], Q2[1])) /\ it' = it + 1
                       /\ UNCHANGED <<ph, st, why, capped>>
             ELSE EnterRefine(Q) /\ UNCHANGED capped

StepRef(w) ==
  /\ ph = "refine" /\ UNCHANGED <<D, capped>>
  /\ IF Dot(w, n) < 0 THEN Stop("miss", "support_behind") /\ UNCHANGED <<P, n, ph, it>>
     ELSE IF Variant # "no_reach_test" /\ ReachTol(P, w, n) THEN Stop("miss", "portal_at_boundary") /\ UNCHANGED <<P, n, ph, it>>
     ELSE IF it + 1 >= MaxSteps THEN Stop("miss", "refine_unbounded") /\ UNCHANGED <<P, n, ph, it>>
     ELSE LET Q == Expand(P, w)
              m == PortalDir(Q) IN
          IF Dot(Q[2], m) >= 0
          THEN IF Mode = "penetration"
               THEN ph' = "pen" /\ n' = m /\ P' = Q /\ it' = 0 /\ UNCHANGED <<st, why>>
               ELSE Stop("hit", "encapsulated") /\ n' = m /\ P' = Q /\ UNCHANGED <<ph, it>>
          ELSE P' = Q /\ n' = m /\ it' = it + 1 /\ UNCHANGED <<ph, st, why>>

StepPen(w) ==
  /\ ph = "pen" /\ UNCHANGED <<D, capped>>
  /\ IF ReachTol(P, w, n) THEN Stop("hit", "pen_done") /\ UNCHANGED <<P, n, ph, it>>
     ELSE IF it > MaxIter THEN Stop("hit", "pen_capped") /\ UNCHANGED <<P, n, ph, it>>
     ELSE LET Q == Expand(P, w) IN P' = Q /\ n' = PortalDir(Q) /\ it' = it + 1 /\ UNCHANGED <<ph, st, why>>

StepW(w) == st = "run" /\ (StepRay(w) \/ StepPerp(w) \/ StepDisc(w) \/ StepRef(w) \/ StepPen(w))
Step == \E w \in ArgMax(D, n) : StepW(w)
Next == (st = "run" /\ Begin) \/ Step
Spec == Init /\ [][Next]_vars

RECURSIVE SeqOf(_)
SeqOf(S) == IF S = {} THEN <<>> ELSE LET x == CHOOSE y \in S : TRUE IN <<x>> \o SeqOf(S \ {x})
Dseq == SeqOf(D)
AllIdx == [k \in 1..Len(Dseq) |-> k]
OriginInHull == InHullOf(Dseq, AllIdx, Zero3, 1)
Axes6 == {<<1, 0, 0>>, <<-1, 0, 0>>, <<0, 1, 0>>, <<0, -1, 0>>, <<0, 0, 1>>, <<0, 0, -1>>}
Deep == \A e \in Axes6 : InHullOf(Dseq, AllIdx, e, 2)
CentreInHull == InHullOf(Dseq, AllIdx, P[1], 1)

(* cheap certificates first.  Hit: the origin is in the hull of the portal (v0 is a point of hull(D): CentreInHull).
   Miss: the last search direction is a supporting direction with the origin on or beyond its plane, so the
   origin is not an interior point *)
Supporting == n # Zero3 /\ \A x \in D : Dot(n, x) <= 0
CentreOk       == ph = "start" => CentreInHull                      \* evaluated once per scene
HitIsOverlap   == st = "hit" => (InHullOf(P, <<1, 2, 3, 4>>, Zero3, 1) \/ OriginInHull)
MissIsNotDeep  == st = "miss" => (Supporting \/ ~Deep)
Terminates     == why # "refine_unbounded"
NeverCapped    == ~capped
PenNeverCapped == why # "pen_capped"
PortalInD      == (ph \in {"refine", "pen"}) => \A i \in 2..4 : P[i] \in D
(* NeverCapped is NOT an invariant of the library design: TLC exhibits tie-breaking choices for which the discover
   loop cycles (origin exactly on a side plane of the portal counts as outside) until max_iterations; the code then
   refines a degenerate portal.  HitIsOverlap / MissIsNotDeep are checked for those runs too. *)
(* _contact_position: weights of the four portal points from signed volumes; when their sum is positive the contact
   position is 0.5 (sum b_i a_i + sum b_i b_i) / S with a_i - b_i = v_i.  If the weights are the barycentric
   coordinates of the origin in the portal tetrahedron (all >= 0, sum b_i v_i = 0) both sums are the same point,
   a common point of A and B (C08: the contact position lies in both colliders). *)
Bary == <<Dot(Cross(P[2], P[3]), P[4]), Dot(Cross(P[4], P[3]), V0d), Dot(Cross(V0d, P[2]), P[4]), Dot(Cross(P[3], P[2]), V0d)>>
Fallback == <<0, Dot(Cross(P[3], P[4]), n), Dot(Cross(P[4], P[2]), n), Dot(Cross(P[2], P[3]), n)>>
SumQ(b) == b[1] + b[2] + b[3] + b[4]
ContactCommonPoint ==
  (why = "pen_done" /\ P[1] # Zero3) =>
     IF SumQ(Bary) > 0
     THEN /\ \A i \in 1..4 : Bary[i] >= 0
          /\ SumVec(Bary, <<V0d, P[2], P[3], P[4]>>) = Zero3
     ELSE \* fallback weights (projection on the portal along n); judged for touching contact only: origin in the portal plane
          (SumQ(Fallback) # 0 /\ Dot(P[2], n) = 0) =>
             /\ \A i \in 2..4 : Fallback[i] * SumQ(Fallback) >= 0
             /\ SumVec(Fallback, P) = Zero3
PortalOnBoundary == why = "pen_done" => \A x \in D : WithinTol(Dot(n, x) - Dot(n, P[2]), n)      \* up to the portal tolerance on scaled scenes
=============================================================================
